------------------------------- MODULE MC_Ctx -------------------------------
(* Case enumeration for C18: every set of at most MaxCx accepted contexts over the pools below and every send operation. *)
EXTENDS CtxSelect, Json, IOUtils, SequencesExt
CONSTANT MaxCx
Abstracts == {"A", "B", "UPSPush", "UPSPull"}
Roles == {<<TRUE, FALSE>>, <<FALSE, TRUE>>, <<TRUE, TRUE>>}
Cx(i) == {[id |-> i, ab |-> a, ts |-> t, scu |-> r[1], scp |-> r[2]] : a \in Abstracts, t \in Syntaxes, r \in Roles}
AcceptedSets == {{}} \cup {{c} : c \in Cx(1)} \cup (IF MaxCx >= 2 THEN {{c, d} : c \in Cx(1), d \in Cx(3)} ELSE {})
\* operations: kind decides which real call is made; sop / role / data set as in CtxSelect
O(k, sp, r, d) == [kind |-> k, sop |-> sp, role |-> r, ds |-> d, raw |-> FALSE, prev |-> "none"]
Ops == {O("store", "A", "scu", t) : t \in Syntaxes}
       \cup {O("find", "A", "scu", "fresh"), O("echo", "A", "scu", "none"), O("event_report", "A", "any", "fresh"),
             O("ups_create", "UPSPush", "scu", "fresh"), O("nget", "B", "scu", "none")}
       \* a file sent by path in chunked mode (bytes streamed as stored), alone or after a data-set C-STORE of the same kind
       \cup {[kind |-> "store_path", sop |-> "A", role |-> "scu", ds |-> t, raw |-> TRUE, prev |-> p] : t \in Syntaxes, p \in {"none", "same"}}
VARIABLES accepted, op
Init == accepted \in AcceptedSets /\ op \in Ops
Next == FALSE /\ UNCHANGED <<accepted, op>>
Spec == Init /\ [][Next]_<<accepted, op>>
L_Ref == L_RefOK(accepted, op)
\* all cases as one NDJSON file for the harness (sets as sequences)
AllCases == {[accepted |-> SetToSeq(a), op |-> o, refuses |-> (Usable(a, o) = {}), refids |-> SetToSeq({c.id : c \in Preferred(a, o)})] : a \in AcceptedSets, o \in Ops}
DumpInit == accepted = {} /\ op = CHOOSE o \in Ops : TRUE
DumpSpec == DumpInit /\ [][Next]_<<accepted, op>>
Dumped == ndJsonSerialize(IOEnv.OUT, SetToSeq(AllCases))
=============================================================================
