SPECIFICATION Spec
CONSTANTS ClockKind = "mono"
          MaxT = 6
          Timeouts = {0, 1, 3}
CONSTRAINT WallBound
INVARIANT TypeOK
INVARIANT C09_Expired
