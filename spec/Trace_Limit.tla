---------------------------- MODULE Trace_Limit ----------------------------
(***************************************************************************)
(* C2S for C14.  Two kinds of record:                                      *)
(*  replay : a history of AcceptLimit.tla stepped on the real acceptor AE; *)
(*     o = [id, kind |-> "replay", max, steps : Seq([act, t, ok, nest      *)
(*          (established acceptor associations after the step), decision   *)
(*          ("accept" / "reject" / ""), bad (the request also names a wrong *)
(*          called AE title), rj (<<result, source, reason>> the            *)
(*          peer read, or <<>>)]), max_seen]                               *)
(*     judged by re-running the specification's own reading along the      *)
(*     recorded steps (the count is the number of alive threads)           *)
(*  stress : n free-running requestors;                                    *)
(*     o = [id, kind |-> "stress", max, max_seen, accepted, nrejected,     *)
(*          reasons : Seq(<<result, source, reason>>), n]                  *)
(***************************************************************************)
EXTENDS Integers, Sequences, FiniteSets, Json, IOUtils, TLC
Obs == ndJsonDeserialize(IOEnv.TRACE)
VARIABLE i
LimitReason == <<2, 3, 2>>
\* alive acceptor threads after the first k steps of a history (the specification's count)
RECURSIVE AliveAfter(_, _)
AliveAfter(steps, k) ==
  IF k = 0 THEN {}
  ELSE LET s == steps[k]  A == AliveAfter(steps, k - 1) IN
       IF s.act = "spawn" THEN A \cup {s.t}
       ELSE IF s.act = "restart" THEN A
       ELSE IF s.act \in {"rejected", "end"} THEN A \ {s.t}
       ELSE A
ReplayV(o) ==
  LET S == o.steps IN
  IF \E k \in 1..Len(S) : S[k].nest > o.max THEN "C14_Bound"
  ELSE IF o.max_seen > o.max THEN "C14_Bound"
  \* a request that was rejected (the peer read an A-ASSOCIATE-RJ) over the limit carries the local-limit reason - also when
  \* it is unacceptable for another reason (bad); under the limit only a bad request is rejected, with its own reason
  ELSE IF \E k \in 1..Len(S) : S[k].rj # <<>> /\ S[k].rj # LimitReason /\
             (~S[k].bad \/ \E j \in 1..k : S[j].act = "check" /\ S[j].t = S[k].t /\ Cardinality(AliveAfter(S, j)) > o.max) THEN "C14_Reason"
  \* the decision follows the specification's reading: reject iff the alive acceptor threads (itself included) exceed the maximum
  ELSE IF \E k \in 1..Len(S) : S[k].act = "check" /\ S[k].decision = "accept" /\ (S[k].bad \/ Cardinality(AliveAfter(S, k)) > o.max) THEN "DRIFT_AcceptedOverCount"
  ELSE IF \E k \in 1..Len(S) : S[k].act = "check" /\ S[k].decision = "reject" /\ ~S[k].bad /\ Cardinality(AliveAfter(S, k)) <= o.max THEN "DRIFT_RejectedUnderCount"
  ELSE IF \E k \in 1..Len(S) : ~S[k].ok THEN "DRIFT_StepNotReached"
  ELSE "ok"
StressV(o) ==
  IF o.max_seen > o.max THEN "C14_Bound"
  ELSE IF \E k \in 1..Len(o.reasons) : o.reasons[k] # LimitReason THEN "C14_Reason"
  ELSE IF o.accepted + o.nrejected # o.n THEN "DRIFT_Unanswered"
  ELSE "ok"
V(o) == IF o.kind = "replay" THEN ReplayV(o) ELSE StressV(o)
TInit == i = 1
TNext == /\ i <= Len(Obs) /\ PrintT(<<"VERDICT", Obs[i].id, V(Obs[i])>>) /\ i' = i + 1
TSpec == TInit /\ [][TNext]_i
=============================================================================
