------------------------------- MODULE Stall -------------------------------
(***************************************************************************)
(* C08 - no peer behaviour keeps pynetdicom blocked past its timeouts.     *)
(*                                                                         *)
(* One pynetdicom node (either role) in one protocol phase, waiting for    *)
(* the peer's next PDU, against a peer that keeps the TCP connection open  *)
(* and may stop sending at any byte: at a PDU boundary, inside the 6-byte  *)
(* header, or inside the body - for ever (silence) or with long pauses     *)
(* (dribble).  The node is three threads:                                  *)
(*   provider  - DULServiceProvider.run_reactor: each loop tests the ARTIM *)
(*               timer and `socket.ready` (select); when bytes are ready   *)
(*               it calls _read_pdu_data -> AssociationSocket.recv(6) and  *)
(*               recv(length): `while nr_read < nr_bytes: socket.recv()`   *)
(*   assoc     - the association reactor: idle (network) timer -> abort()  *)
(*   user      - a call waiting with the ACSE or DIMSE timeout (associate, *)
(*               send_c_*, release) -> abort()                             *)
(* abort() queues A-ABORT and calls kill(), which spins until the provider *)
(* has reached Sta1 - which needs the provider thread to be running.       *)
(*                                                                         *)
(* RecvDeadline = FALSE is the code as found: the sockets used for reading *)
(* have no timeout (requestor: settimeout(None) after connect; acceptor:   *)
(* accepted sockets do not inherit the listener's), so the provider blocks *)
(* inside recv() for as long as the peer sends nothing - TLC finds the     *)
(* lasso (C08_Ends violated).  RecvDeadline = TRUE gives recv() the        *)
(* network timeout; then C08_Ends holds for every stall.                   *)
(***************************************************************************)
EXTENDS Integers, Sequences, FiniteSets, TLC
CONSTANTS RecvDeadline,      \* does a read inside a PDU give up after the network timeout?
          ArtimEveryLoop,    \* is the ARTIM timer tested on every provider loop, even while the peer keeps data coming?
          ServerHandshakeDeadline,  \* does the listener's TLS handshake with a new client have a deadline?
          Dribbles           \* how many late pieces a dribbling peer may still send

Roles == {"acceptor", "requestor"}
\* what the node is waiting for, and which timer guards that wait on which thread
Phases == {"assoc_rq",      \* acceptor, Sta2: ARTIM (provider thread) and the ACSE timeout of the association thread
           "assoc_ac",      \* requestor, Sta5: ACSE timeout in the user's associate() call
           "idle",          \* Sta6, nothing outstanding: network (idle) timer in the association thread
           "dimse_rsp",     \* requestor, Sta6: DIMSE timeout in the user's send_c_*() call
           "dataset",       \* acceptor, Sta6: command set received, data set PDUs outstanding: network timer
           "release_rp",    \* Sta7: ACSE timeout in the user's release() call
           "release_collision", \* requestor, Sta11: release() called, the peer sent its own A-RELEASE-RQ instead of answering, got
                            \* this side's A-RELEASE-RP and then stays silent: ACSE timeout in the user's release() call
           "closing",       \* Sta13: A-ABORT / A-ASSOCIATE-RJ / A-RELEASE-RP sent, waiting for the peer to close: ARTIM (provider thread)
           "tls"}           \* TLS handshake right after the TCP connection: requestor under the connection timeout (provider
                            \* thread, AE-1); acceptor inside AssociationServer.get_request, i.e. in the listener's accept loop
PhaseOK(r, p) == CASE p = "assoc_rq" -> r = "acceptor" [] p = "assoc_ac" -> r = "requestor"
                   [] p = "dimse_rsp" -> r = "requestor" [] p = "dataset" -> r = "acceptor"
                   [] p = "release_collision" -> r = "requestor" [] OTHER -> TRUE
Cuts == {"boundary", "header", "body"}      \* where the peer stops: between PDUs, inside the 6-byte header, inside the body
Styles == {"silence", "dribble", "flood"}   \* flood: complete PDUs (ignored in Sta13) keep arriving, the connection is never closed
ScenarioOK(r, p, c, st) == /\ PhaseOK(r, p)
                           /\ (st = "flood" => p = "closing")
                           /\ (p \in {"closing", "tls"} => c = "boundary" /\ st # "dribble")
                           /\ (p = "tls" => st = "silence")
                           /\ (p = "release_collision" => c = "boundary" /\ st = "silence")

VARIABLES role, phase, cut, style,   \* the scenario
          prov,      \* provider thread: "loop" | "recv" (blocked in AssociationSocket.recv) | "done"
          have,      \* bytes of the current PDU the provider has: "none" | "header_part" | "header" | "all"
          wire,      \* is there an unread piece on the socket?
          left,      \* late pieces the peer may still send
          timer,     \* "running" | "expired" | "handled"
          closing,   \* abort() has been called: A-ABORT queued, kill() spinning until the provider is idle
          done       \* every thread ended, socket closed
vars == <<role, phase, cut, style, prov, have, wire, left, timer, closing, done>>

Init == /\ role \in Roles /\ phase \in Phases /\ cut \in Cuts /\ style \in Styles
        /\ ScenarioOK(role, phase, cut, style)
        /\ prov = IF phase = "tls" THEN "handshake" ELSE "loop"
        /\ have = "none"
        /\ wire = (cut # "boundary" \/ style = "flood")   \* the first piece of the PDU (if any) / the flood is on the socket
        /\ left = IF style = "dribble" THEN Dribbles ELSE 0
        /\ timer = "running" /\ closing = FALSE /\ done = FALSE

\* ---- peer: a dribbling peer sends another piece (never the last one) ----
PeerPiece == /\ left > 0 /\ ~wire /\ ~done /\ cut # "boundary" /\ style = "dribble"
             /\ wire' = TRUE /\ left' = left - 1
             /\ UNCHANGED <<role, phase, cut, style, prov, have, timer, closing, done>>

\* ---- provider thread ----
\* loop iteration: select says data is ready -> _read_pdu_data -> recv(6) / recv(length)
ProvRead == /\ prov = "loop" /\ wire /\ ~done /\ style # "flood"
            /\ wire' = FALSE
            /\ have' = IF cut = "header" THEN "header_part" ELSE "header"     \* the piece never completes the PDU
            /\ prov' = "recv"                                                   \* recv() loops for the missing bytes
            /\ UNCHANGED <<role, phase, cut, style, left, timer, closing, done>>
\* blocked in recv(): another piece arrives - still not complete, still blocked
ProvRecvMore == /\ prov = "recv" /\ wire /\ wire' = FALSE
                /\ UNCHANGED <<role, phase, cut, style, prov, have, left, timer, closing, done>>
\* recv() gives up (only with a deadline): Evt17, connection closed, back in the loop in Sta1 / AA-4
ProvRecvTimeout == /\ RecvDeadline /\ prov = "recv" /\ ~wire
                   /\ prov' = "loop" /\ closing' = TRUE /\ have' = "none"
                   /\ UNCHANGED <<role, phase, cut, style, wire, left, timer, done>>
\* loop iteration with nothing to read: the provider's own timer (ARTIM in Sta2 / Sta13) is tested here
ProvArtim == /\ prov = "loop" /\ ~wire /\ phase = "assoc_rq" /\ timer = "expired"
             /\ timer' = "handled" /\ closing' = TRUE
             /\ UNCHANGED <<role, phase, cut, style, prov, have, wire, left, done>>
\* Sta13 with nothing to read: _is_transport_event closes the connection at once
ProvSta13Close == /\ prov = "loop" /\ phase = "closing" /\ ~wire /\ ~closing
                  /\ closing' = TRUE
                  /\ UNCHANGED <<role, phase, cut, style, prov, have, wire, left, timer, done>>
\* Sta13 under a flood: one loop = the ARTIM test (if it is made on every loop), then read one PDU and ignore it (AA-6 / AA-7);
\* the flood goes on, so a loop that does not act on the timer changes nothing
ProvFloodLoop == /\ prov = "loop" /\ style = "flood" /\ wire /\ ~closing
                 /\ IF ArtimEveryLoop /\ timer = "expired"
                    THEN timer' = "handled" /\ closing' = TRUE
                    ELSE UNCHANGED <<timer, closing>>
                 /\ UNCHANGED <<role, phase, cut, style, prov, have, wire, left, done>>
\* a TLS handshake the peer never answers: ends only if it runs under a deadline
HandshakeDeadline == role = "requestor" \/ ServerHandshakeDeadline
ProvHandshakeTimeout == /\ prov = "handshake" /\ HandshakeDeadline
                        /\ prov' = "loop" /\ closing' = TRUE
                        /\ UNCHANGED <<role, phase, cut, style, have, wire, left, timer, done>>
\* loop iteration that finds the A-ABORT / kill request: sends, closes, reaches Sta1 and ends
ProvStop == /\ prov = "loop" /\ closing
            /\ prov' = "done"
            /\ UNCHANGED <<role, phase, cut, style, have, wire, left, timer, closing, done>>

\* ---- time: the configured timeout elapses ----
Expire == /\ timer = "running" /\ ~done /\ timer' = "expired"
          /\ UNCHANGED <<role, phase, cut, style, prov, have, wire, left, closing, done>>

\* ---- association / user thread: the wait guarded by the timer ends and the thread calls abort() (kill() spins) ----
WaiterGivesUp == /\ timer = "expired" /\ phase \notin {"assoc_rq", "closing", "tls"}
                 /\ timer' = "handled" /\ closing' = TRUE
                 /\ UNCHANGED <<role, phase, cut, style, prov, have, wire, left, done>>
\* (acceptor, Sta2: the association thread's ACSE wait ends too, but it only calls kill())
AcceptorAcseGivesUp == /\ timer = "expired" /\ phase = "assoc_rq" /\ prov # "loop"
                       /\ timer' = "handled" /\ closing' = TRUE
                       /\ UNCHANGED <<role, phase, cut, style, prov, have, wire, left, done>>
\* kill() returns once the provider thread has ended; the socket is closed; the public call returns
AllEnd == /\ closing /\ prov = "done" /\ ~done /\ done' = TRUE
          /\ UNCHANGED <<role, phase, cut, style, prov, have, wire, left, timer, closing>>

NodeStep == ProvRead \/ ProvRecvMore \/ ProvRecvTimeout \/ ProvArtim \/ ProvSta13Close \/ ProvFloodLoop \/ ProvHandshakeTimeout \/ ProvStop \/ Expire \/ WaiterGivesUp \/ AcceptorAcseGivesUp \/ AllEnd
Next == PeerPiece \/ NodeStep
Spec == Init /\ [][Next]_vars
\* the node's threads and the clock make progress; the peer owes nothing
FairSpec == Spec /\ WF_vars(NodeStep)

TypeOK == /\ prov \in {"loop", "recv", "handshake", "done"} /\ have \in {"none", "header_part", "header", "all"}
          /\ timer \in {"running", "expired", "handled"} /\ left \in 0..Dribbles
C08_Ends == <>done
\* the shape of the failure: the timeout has been acted upon, yet the provider sits in recv() with nothing to read
Stuck == closing /\ prov = "recv" /\ ~wire /\ left = 0
C08_NeverStuck == ~Stuck

BoundaryOnly == cut = "boundary" /\ ~(phase = "tls" /\ role = "acceptor")
NoNext == FALSE /\ UNCHANGED vars
CaseSpec == Init /\ [][NoNext]_vars      \* (scenario export: initial states only)
Export == PrintT(<<"CASE", [role |-> role, phase |-> phase, cut |-> cut, style |-> style]>>)
=============================================================================
