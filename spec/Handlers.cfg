SPECIFICATION Spec
CONSTANTS HIds = {"h1", "h2"}
          Args = {"none", "x"}
          Assocs = {1, 2}
          MaxOps = 5
INVARIANT H_NoDuplicate
INVARIANT H_OneIntervention
PROPERTY H_ServerReaches
PROPERTY H_UnbindOtherIsNoop
PROPERTY H_OpenInherits
CHECK_DEADLOCK FALSE
