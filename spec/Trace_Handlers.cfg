SPECIFICATION TSpec
CONSTANTS HIds = {"h1", "h2"}
          Args = {"none", "x"}
          Assocs = {1, 2}
          MaxOps = 8
CHECK_DEADLOCK FALSE
