---------------------------- MODULE MC_C04 ----------------------------
(* C04: the state machine as a transition system over ULTable, plus the case generator      *)
(* (every (event, state, context) with the reaction PS3.8 prescribes) for the S2C replay.    *)
EXTENDS ULTable, TLC, Json, IOUtils, SequencesExt

VARIABLES s, last
vars == <<s, last>>

Cases == [e : Events, s : States, ctx : Ctxs]
NoEffect(st) == E(st, "", Open, "", "none", FALSE, FALSE)
Expected(k) == LET a == Tbl(k.e, k.s) IN
  [e |-> k.e, s |-> k.s, ctx |-> k.ctx, action |-> a,
   eff |-> IF a = "" THEN NoEffect(k.s) ELSE Effect(a, k.ctx)]

ASSUME JsonSerialize(IOEnv.OUT, SetToSeq({Expected(k) : k \in Cases}))

Init == s = 1 /\ last = [e |-> 0, s |-> 0, ctx |-> Ctx0]
Step(e, ctx) == /\ Defined(e, s)
                /\ s' = Effect(Tbl(e, s), ctx).next
                /\ last' = [e |-> e, s |-> s, ctx |-> ctx]
Next == \E e \in Events, ctx \in Ctxs : Step(e, ctx)
Spec == Init /\ [][Next]_vars

TypeOK == s \in States
\* C04 lemmas on the table itself
C04_IdleOnlyStarts == (s = 1) => \A e \in Events : Defined(e, s) <=> e \in {1, 5}
\* from every reachable state the connection-closed event is handled and leads to idle
C04_CloseAlwaysHandled == (s # 1) => Defined(17, s) /\ \A c \in Ctxs : Effect(Tbl(17, s), c).next = 1
\* abort by the peer is always handled when a connection exists
C04_PeerAbortHandled == (s \notin {1, 4}) => Defined(16, s) /\ \A c \in Ctxs : Effect(Tbl(16, s), c).next = 1
\* ARTIM expiry is only meaningful in Sta2 / Sta13
C04_ArtimOnlyWhereArmed == Defined(18, s) <=> s \in {2, 13}
\* every state is reachable: trap invariants are used by the harness (Reach_<n>)
=============================================================================
