------------------------------ MODULE Handlers ------------------------------
(***************************************************************************)
(* Event-handler bindings of a running server and its associations.        *)
(*                                                                         *)
(* Every object that triggers events (AssociationServer, Association)      *)
(* records its bindings per event:                                         *)
(*   notification event  - a list of (handler, args), called in the order  *)
(*                         they were bound; binding a (handler, args) pair *)
(*                         that is already in the list changes nothing;    *)
(*                         unbind(handler) removes every entry of that     *)
(*                         handler, whatever its args                      *)
(*   intervention event  - exactly one (handler, args): bind replaces it,  *)
(*                         unbind(handler) restores the default only if    *)
(*                         that handler is the one bound                   *)
(* bind / unbind on the server also apply to every association the server  *)
(* has accepted that is still active; a new association starts from the    *)
(* server's bindings at the moment the connection is accepted; bind /      *)
(* unbind on an association touch that association only.  When an event    *)
(* occurs on an association, the handlers bound to that association are    *)
(* called (notification: all, in order; intervention: the one).            *)
(*                                                                         *)
(* Apply is the step function shared by the model (Next), the replay on    *)
(* the real objects and Trace_Handlers.  The acceptance policy of C13      *)
(* (EVT_USER_ID), the DIMSE service handlers (C19-C23) and the             *)
(* notification handlers of C26 / C27 all sit in these slots.              *)
(***************************************************************************)
EXTENDS Integers, Sequences, FiniteSets, TLC
CONSTANTS HIds,      \* handler identities
          Args,      \* argument lists a handler can be bound with ("none": no extra arguments)
          Assocs,    \* association slots (connections the server can have open at once)
          MaxOps     \* bound on the history

Default == <<"default", "none">>
Empty == [n |-> <<>>, i |-> Default]

NBind(l, h, a) == IF \E k \in 1..Len(l) : l[k] = <<h, a>> THEN l ELSE Append(l, <<h, a>>)
NUnbind(l, h) == SelectSeq(l, LAMBDA p : p[1] # h)
BindAttr(at, e, h, a) == IF e = "N" THEN [at EXCEPT !.n = NBind(@, h, a)] ELSE [at EXCEPT !.i = <<h, a>>]
UnbindAttr(at, e, h) == IF e = "N" THEN [at EXCEPT !.n = NUnbind(@, h)]
                        ELSE [at EXCEPT !.i = IF @[1] = h THEN Default ELSE @]

\* s = [srv : attr, as : [Assocs -> attr], live : SUBSET Assocs];  op = [k, e, h, a, x]
Apply(s, op) ==
  CASE op.k = "sbind"   -> [s EXCEPT !.srv = BindAttr(@, op.e, op.h, op.a),
                                     !.as = [x \in Assocs |-> IF x \in s.live THEN BindAttr(s.as[x], op.e, op.h, op.a) ELSE s.as[x]]]
    [] op.k = "sunbind" -> [s EXCEPT !.srv = UnbindAttr(@, op.e, op.h),
                                     !.as = [x \in Assocs |-> IF x \in s.live THEN UnbindAttr(s.as[x], op.e, op.h) ELSE s.as[x]]]
    [] op.k = "abind"   -> [s EXCEPT !.as[op.x] = BindAttr(@, op.e, op.h, op.a)]
    [] op.k = "aunbind" -> [s EXCEPT !.as[op.x] = UnbindAttr(@, op.e, op.h)]
    [] op.k = "open"    -> [s EXCEPT !.live = @ \cup {op.x}, !.as[op.x] = s.srv]
    [] op.k = "close"   -> [s EXCEPT !.live = @ \ {op.x}, !.as[op.x] = Empty]
    [] OTHER            -> s                                    \* "echo": an event occurs, nothing is rebound
\* who is called when the events of one C-ECHO request occur on association x
Called(s, x) == [n |-> s.as[x].n, i |-> s.as[x].i]

Op(k, e, h, a, x) == [k |-> k, e |-> e, h |-> h, a |-> a, x |-> x]
AnyH == CHOOSE h \in HIds : TRUE
AnyX == CHOOSE x \in Assocs : TRUE
Enabled(s) ==
  {Op("sbind", e, h, a, AnyX) : e \in {"N", "I"}, h \in HIds, a \in Args}
  \cup {Op("sunbind", e, h, "none", AnyX) : e \in {"N", "I"}, h \in HIds}
  \cup UNION {{Op("abind", e, h, a, x) : e \in {"N", "I"}, h \in HIds, a \in Args} : x \in s.live}
  \cup UNION {{Op("aunbind", e, h, "none", x) : e \in {"N", "I"}, h \in HIds} : x \in s.live}
  \cup {Op("open", "N", AnyH, "none", x) : x \in Assocs \ s.live}
  \cup {Op("close", "N", AnyH, "none", x) : x \in s.live}
  \cup {Op("echo", "N", AnyH, "none", x) : x \in s.live}

VARIABLES st, hist
vars == <<st, hist>>
Init == st = [srv |-> Empty, as |-> [x \in Assocs |-> Empty], live |-> {}] /\ hist = <<>>
Next == /\ Len(hist) < MaxOps
        /\ \E op \in Enabled(st) : st' = Apply(st, op) /\ hist' = Append(hist, op)
Spec == Init /\ [][Next]_vars

\* ---- what the rules imply (checked by TLC on every reachable state / step) ----
AllAttrs == {st.srv} \cup {st.as[x] : x \in st.live}
H_NoDuplicate == \A at \in AllAttrs : \A j, k \in 1..Len(at.n) : at.n[j] = at.n[k] => j = k
H_OneIntervention == \A at \in AllAttrs : at.i = Default \/ (at.i[1] \in HIds /\ at.i[2] \in Args)
\* a server-level bind reaches every active association, a server-level unbind leaves the handler nowhere
H_ServerReaches ==
  [][hist' # hist =>
       LET op == hist'[Len(hist')] IN
       /\ (op.k = "sbind" /\ op.e = "I") => \A x \in st'.live : st'.as[x].i = <<op.h, op.a>> /\ st'.srv.i = <<op.h, op.a>>
       /\ (op.k = "sbind" /\ op.e = "N") => \A x \in st'.live : \E k \in 1..Len(st'.as[x].n) : st'.as[x].n[k] = <<op.h, op.a>>
       /\ (op.k = "sunbind" /\ op.e = "N") => \A x \in st'.live : \A k \in 1..Len(st'.as[x].n) : st'.as[x].n[k][1] # op.h
       /\ (op.k = "sunbind" /\ op.e = "I") => \A x \in st'.live : st'.as[x].i[1] # op.h]_vars
\* unbinding a handler that is not bound changes nothing (the acceptance policy cannot be removed by accident)
H_UnbindOtherIsNoop ==
  [][hist' # hist =>
       LET op == hist'[Len(hist')] IN
       (op.k = "sunbind" /\ op.e = "I" /\ st.srv.i[1] # op.h) => st'.srv.i = st.srv.i]_vars
\* a new association starts from the server's bindings
H_OpenInherits == [][hist' # hist => LET op == hist'[Len(hist')] IN op.k = "open" => st'.as[op.x] = st.srv]_vars
View == st
=============================================================================
