------------------------------ MODULE MC_Notify ------------------------------
EXTENDS Notify
\* one association: open, negotiation (with the negotiation interventions), one DIMSE request served by an intervention
\* handler, release, close - each step with the notification events pynetdicom triggers around it
MCScript == <<
  [act |-> "TCP_OPEN",      notes |-> {"EVT_CONN_OPEN"},                                              iv |-> "none"],
  [act |-> "ASSOC_RQ_IN",   notes |-> {"EVT_DATA_RECV", "EVT_PDU_RECV", "EVT_FSM_TRANSITION", "EVT_ACSE_RECV", "EVT_REQUESTED"}, iv |-> "none"],
  [act |-> "EXT_NEG_ITEMS", notes |-> {},                                                             iv |-> "ext_neg"],
  [act |-> "USER_ID_OK",    notes |-> {},                                                             iv |-> "user_id"],
  [act |-> "ASSOC_AC_OUT",  notes |-> {"EVT_ACSE_SENT", "EVT_ACCEPTED", "EVT_ESTABLISHED", "EVT_PDU_SENT", "EVT_DATA_SENT", "EVT_FSM_TRANSITION"}, iv |-> "none"],
  [act |-> "DIMSE_RQ_IN",   notes |-> {"EVT_DATA_RECV", "EVT_PDU_RECV", "EVT_FSM_TRANSITION", "EVT_DIMSE_RECV"}, iv |-> "none"],
  [act |-> "DIMSE_RSP_OUT", notes |-> {"EVT_DIMSE_SENT", "EVT_PDU_SENT", "EVT_DATA_SENT", "EVT_FSM_TRANSITION"}, iv |-> "dimse"],
  [act |-> "RELEASE_RQ_IN", notes |-> {"EVT_DATA_RECV", "EVT_PDU_RECV", "EVT_FSM_TRANSITION", "EVT_ACSE_RECV"}, iv |-> "none"],
  [act |-> "RELEASE_RP_OUT", notes |-> {"EVT_ACSE_SENT", "EVT_RELEASED", "EVT_PDU_SENT", "EVT_DATA_SENT", "EVT_FSM_TRANSITION"}, iv |-> "none"],
  [act |-> "TCP_CLOSE",     notes |-> {"EVT_CONN_CLOSE", "EVT_FSM_TRANSITION"},                        iv |-> "none"] >>
MCFlavours == {"plain", "noname", "noargs"}
==============================================================================
