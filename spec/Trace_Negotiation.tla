------------------------- MODULE Trace_Negotiation -------------------------
(***************************************************************************)
(* C2S for C10 / C11: negotiations observed on real pynetdicom acceptors   *)
(* (and real requestors) are judged against NegotiationOps.                *)
(*   o.c      the case (proposal, support, roles, mode)                    *)
(*   o.ac     acceptor's own view  [id, ab, result, ts, asSCU, asSCP]      *)
(*   o.wire   A-ASSOCIATE-AC as decoded from the bytes sent [id, result, ts] *)
(*   o.reply  role replies on the wire [ab, scu, scp]                      *)
(*   o.rq     requestor's view (empty when a raw requestor was used)       *)
(* Output: <<"VERDICT", id, c10, c11>>, each "ok" or the failing clause.   *)
(***************************************************************************)
EXTENDS NegotiationOps, Json, IOUtils, TLC

Obs == ndJsonDeserialize(IOEnv.TRACE)
VARIABLE i

P(o, j) == o.c.proposed[j]
AcOf(o, id) == LET S == IdxOf(o.ac, LAMBDA x : x.id = id) IN o.ac[CHOOSE j \in S : TRUE]
WireOf(o, id) == LET S == IdxOf(o.wire, LAMBDA x : x.id = id) IN o.wire[CHOOSE j \in S : TRUE]
RqOf(o, id) == LET S == IdxOf(o.rq, LAMBDA x : x.id = id) IN o.rq[CHOOSE j \in S : TRUE]
ReplyIdx(o, ab) == IdxOf(o.reply, LAMBDA x : x.ab = ab)
N(o) == Len(o.c.proposed)
\* when one abstract syntax is proposed in several contexts the single role reply per abstract
\* syntax cannot describe each context separately: role clauses are judged on unambiguous ones
Unamb(o, j) == Cardinality({k \in 1..N(o) : P(o, k).ab = P(o, j).ab}) = 1

C10v(o) ==
  IF \E j \in 1..N(o) : Cardinality(IdxOf(o.wire, LAMBDA x : x.id = P(o, j).id)) # 1 \/ Len(o.wire) # N(o) THEN "C10_OneResultPerId"
  ELSE IF \E j \in 1..N(o) : Cardinality(IdxOf(o.ac, LAMBDA x : x.id = P(o, j).id)) # 1 THEN "C10_OneResultPerId"
  ELSE IF \E j \in 1..N(o) : AcOf(o, P(o, j).id).ab # P(o, j).ab THEN "C10_AbstractSyntax"
  ELSE IF \E j \in 1..N(o) : LET e == ExpAc(o.c, P(o, j)) r == WireOf(o, P(o, j).id).result IN
            (e.result \in {3, 4} /\ r # e.result) \/ (e.result \in {0, 1} /\ r \in {3, 4}) THEN "C10_RejectReason"
  ELSE IF \E j \in 1..N(o) : WireOf(o, P(o, j).id).result # AcOf(o, P(o, j).id).result THEN "C10_ViewVsWire"
  ELSE IF \E j \in 1..N(o) : WireOf(o, P(o, j).id).result = 0 /\ WireOf(o, P(o, j).id).ts \notin ExpAc(o.c, P(o, j)).ts THEN "C10_TransferSyntax"
  ELSE IF \E j \in 1..N(o) : LET a == AcOf(o, P(o, j).id) IN a.result = 0 /\ ~a.asSCU /\ ~a.asSCP THEN "C10_AcceptedWithoutRole"
  ELSE IF \E j \in 1..N(o) : Unamb(o, j) /\ LET e == ExpAc(o.c, P(o, j)) a == AcOf(o, P(o, j).id) IN
            e.result \in {0, 1} /\ (a.result # e.result \/ (e.result = 0 /\ (a.asSCU # e.asSCU \/ a.asSCP # e.asSCP))) THEN "C10_RoleTable"
  ELSE IF \E k \in 1..Len(o.reply) : LET ab == o.reply[k].ab IN
            \/ ~HasRqRole(o.c, ab)
            \/ (o.reply[k].scu /\ ~RqRole(o.c, ab).scu) \/ (o.reply[k].scp /\ ~RqRole(o.c, ab).scp) THEN "C10_RoleNotProposed"
  ELSE IF \E j \in 1..N(o) : Unamb(o, j) /\ LET e == ExpAc(o.c, P(o, j)) IN
            \/ (e.result = 0 /\ e.hasReply /\ (ReplyIdx(o, P(o, j).ab) = {} \/
                  \E k \in ReplyIdx(o, P(o, j).ab) : o.reply[k].scu # ExpReply(o.c, P(o, j)).scu \/ o.reply[k].scp # ExpReply(o.c, P(o, j)).scp))
            \/ (e.result = 0 /\ ~e.hasReply /\ ReplyIdx(o, P(o, j).ab) # {}) THEN "C10_RoleReply"
  ELSE "ok"

C11v(o) ==
  IF ~o.hasrq THEN "ok"
  ELSE IF Len(o.rq) # N(o) \/ \E j \in 1..N(o) : Cardinality(IdxOf(o.rq, LAMBDA x : x.id = P(o, j).id)) # 1 THEN "C11_Once"
  ELSE IF \E j \in 1..N(o) : RqOf(o, P(o, j).id).result \notin {0, 1, 2, 3, 4} THEN "C11_Once"
  ELSE IF \E j \in 1..N(o) : (RqOf(o, P(o, j).id).result = 0) # (AcOf(o, P(o, j).id).result = 0) THEN "C11_SameAccepted"
  ELSE IF \E j \in 1..N(o) : LET r == RqOf(o, P(o, j).id) a == AcOf(o, P(o, j).id) IN
            r.result = 0 /\ (r.ab # a.ab \/ r.ts # a.ts \/ r.ab # P(o, j).ab) THEN "C11_SameSyntaxes"
  ELSE IF \E j \in 1..N(o) : LET r == RqOf(o, P(o, j).id) a == AcOf(o, P(o, j).id) IN
            r.result = 0 /\ (r.asSCU # a.asSCP \/ r.asSCP # a.asSCU) THEN "C11_Complementary"
  ELSE "ok"

TInit == i = 1
TNext == /\ i <= Len(Obs)
         /\ PrintT(<<"VERDICT", Obs[i].id, C10v(Obs[i]), C11v(Obs[i])>>)
         /\ i' = i + 1
TSpec == TInit /\ [][TNext]_i
=============================================================================
