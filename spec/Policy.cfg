SPECIFICATION Spec
INVARIANT C13_OnlyIfAllowed
INVARIANT C13_NoHandlerAfterReject
INVARIANT Export
