----------------------------- MODULE Trace_Cancel -----------------------------
(* C2S for C23: event logs of real runs (cancel arrivals, operation start/end, handler polls with the     *)
(* observed `is_cancelled`) are replayed through Cancel's actions; each observed poll result is compared  *)
(* with what the property prescribes (a cancel naming this operation arrived while it was in progress).   *)
(* Trace: [id, ev: sequence of [e, v, r]] with e in cancel/start/poll/end, v the id/operation, r the      *)
(* observed poll result.  Output <<"VERDICT", id, first bad event index or 0>>.                           *)
EXTENDS Cancel, Json, IOUtils
Traces == ndJsonDeserialize(IOEnv.TRACE)
VARIABLES tid, l, bad
tvars == <<vars, tid, l, bad>>
T == Traces[tid]
TInit == tid \in 1..Len(Traces) /\ l = 1 /\ bad = 0 /\ Init
\* cancel ids other than 1 and 2 behave like the unrelated id: mapped to themselves (the set `pending` is unbounded here)
Do(ev) == CASE ev.e = "cancel" -> /\ pending' = pending \cup {ev.v}
                                  /\ during' = (IF InProgress THEN [during EXCEPT ![op] = @ \cup {ev.v}] ELSE during)
                                  /\ UNCHANGED <<op, polls, ncancel, lastPoll, hist, nother>>
            [] ev.e = "start" -> /\ op' = ev.v /\ pending' = {} /\ polls' = 0 /\ UNCHANGED <<during, ncancel, lastPoll, hist, nother>>
            [] ev.e = "poll" -> /\ lastPoll' = [k |-> op, reported |-> ev.r, expected |-> op \in during[op]]
                                /\ pending' = pending \ {op} /\ during' = [during EXCEPT ![op] = @ \ {op}]
                                /\ UNCHANGED <<op, polls, ncancel, hist, nother>>
            \* the poll of an operation on another association, to which no cancel was ever sent: must be FALSE
            [] ev.e = "other" -> /\ lastPoll' = [k |-> 0, reported |-> ev.r, expected |-> FALSE] /\ UNCHANGED <<op, pending, during, polls, ncancel, hist, nother>>
            [] ev.e = "end" -> /\ op' = (IF op = 1 THEN 10 ELSE 20) /\ pending' = {} /\ UNCHANGED <<during, polls, ncancel, lastPoll, hist, nother>>
TNext == /\ l <= Len(T.ev) /\ Do(T.ev[l]) /\ l' = l + 1 /\ tid' = tid
         /\ bad' = IF bad = 0 /\ T.ev[l].e \in {"poll", "other"} /\ lastPoll'.reported # lastPoll'.expected THEN l ELSE bad
Done == /\ l = Len(T.ev) + 1 /\ PrintT(<<"VERDICT", T.id, bad>>) /\ l' = l + 1 /\ UNCHANGED <<vars, tid, bad>>
TSpec == TInit /\ [][TNext \/ Done]_tvars
=============================================================================
