----------------------------- MODULE PdataLimit -----------------------------
(***************************************************************************)
(* C02, conformance of P-DATA-TF lengths (PS3.8 Annex D.1): each side      *)
(* announces, in its A-ASSOCIATE-RQ / -AC, the Maximum Length it is willing *)
(* to RECEIVE (0 = unlimited).  The two directions are independent: a PDU  *)
(* received by X is bounded by X's own announcement, never by what the     *)
(* peer announced for itself.  A P-DATA-TF whose variable field is within  *)
(* the receiver's own maximum is conformant and must be accepted; larger   *)
(* ones are outside the property (the receiver may refuse them).           *)
(*                                                                         *)
(* Cases: receiver role x own maximum x the peer's maximum x the length of *)
(* the largest PDU of a message the peer sends.                            *)
(***************************************************************************)
EXTENDS Integers, Sequences, FiniteSets, TLC
Roles == {"acceptor", "requestor"}
Maxima == {0, 1024, 4096, 16382}
\* length classes of the largest P-DATA-TF of the message, given the receiver's own and the peer's announcement
LenOptions(own, peer) ==
  {512}                                                               \* small: within every announcement
  \cup (IF peer # 0 /\ (own = 0 \/ peer < own) THEN {peer + 512} ELSE {})  \* above what the PEER receives, within what WE receive
  \cup (IF own # 0 THEN {own} ELSE {30000})                            \* exactly our maximum / large when unlimited
Conformant(own, len) == own = 0 \/ len <= own
VARIABLES role, own, peer, len
Init == role \in Roles /\ own \in Maxima /\ peer \in Maxima /\ len \in LenOptions(own, peer)
Next == FALSE /\ UNCHANGED <<role, own, peer, len>>
Spec == Init /\ [][Next]_<<role, own, peer, len>>
\* every enumerated case is conformant (the case space is the conformant side of the rule)
L_AllConformant == Conformant(own, len)
Export == PrintT(<<"CASE", [role |-> role, own |-> own, peer |-> peer, len |-> len]>>)
\* C2S verdict over an observation [conformant-by-construction, accepted]
=============================================================================
