SPECIFICATION TSpec
CONSTANTS Svc = "TRACE"
          MaxSteps = 0
