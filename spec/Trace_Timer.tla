---------------------------- MODULE Trace_Timer ----------------------------
(* C2S for C09: logs recorded from the real pynetdicom Timer (driven on a two-clock virtual    *)
(* time) are replayed through Timer's actions; the *observed* `expired` of every step is        *)
(* compared with SpecExpired.  Total verdicts: one VERDICT line per trace, never a TLC error.   *)
EXTENDS Timer, Json, IOUtils, TLC, Sequences

Traces == ndJsonDeserialize(IOEnv.TRACE)
VARIABLES tid, l, bad
tvars == <<vars, tid, l, bad>>

T == Traces[tid]
TraceInit == /\ tid \in 1..Len(Traces)
             /\ l = 1 /\ bad = 0
             /\ mono = 0 /\ wall = Traces[tid].wall0
             /\ timeout = Traces[tid].timeout0
             /\ startAt = Unset /\ endAt = Unset
             /\ gStarted = FALSE /\ gStartM = 0 /\ gStopped = FALSE /\ gStopM = 0

Do(st) == CASE st.a = "Start"      -> Start
            [] st.a = "Restart"    -> Restart
            [] st.a = "Stop"       -> Stop
            [] st.a = "SetTimeout" -> SetTimeout(st.v)
            [] st.a = "Advance"    -> Advance(st.v)
            [] st.a = "WallJump"   -> WallJump(st.v)

TraceNext == /\ l <= Len(T.steps)
             /\ Do(T.steps[l])
             /\ l' = l + 1 /\ tid' = tid
             /\ bad' = IF bad = 0 /\ T.steps[l].expired # SpecExpired' THEN l ELSE bad
Done == /\ l = Len(T.steps) + 1
        /\ PrintT(<<"VERDICT", T.id, bad>>)
        /\ l' = l + 1 /\ UNCHANGED <<vars, tid, bad>>
TraceSpec == TraceInit /\ [][TraceNext \/ Done]_tvars
=============================================================================
