------------------------------- MODULE Cancel -------------------------------
(***************************************************************************)
(* C23: a C-CANCEL reaches exactly the operation it names.                 *)
(* Two consecutive operations (message ids 1 and 2) are served by one      *)
(* association; C-CANCEL requests naming id 1, 2 or an unrelated id 9 may  *)
(* arrive at any moment; the handler polls "is cancelled?" at its yields.  *)
(* `pending` is the association's store of received cancel requests (the   *)
(* design: cleared when an operation starts and when it ends, a matching   *)
(* cancel is consumed by the poll that reports it).                        *)
(***************************************************************************)
EXTENDS Integers, Sequences, FiniteSets, TLC

CONSTANTS MaxCancels, MaxPolls
Ids == {1, 2, 9}

VARIABLES op,        \* 0: before op 1, 1: op 1 in progress, 10: between, 2: op 2 in progress, 20: after
          pending,   \* set of message ids with a stored, unreported cancel
          during,    \* during[k]: ids of the cancels that arrived while operation k was in progress and are not yet reported
          hist,      \* history of events, for replay
          polls, ncancel, lastPoll, nother
vars == <<op, pending, during, hist, polls, ncancel, lastPoll, nother>>

Init == /\ op = 0 /\ pending = {} /\ during = [k \in {1, 2} |-> {}] /\ hist = <<>> /\ polls = 0 /\ ncancel = 0 /\ nother = 0
        /\ lastPoll = [k |-> 0, reported |-> FALSE, expected |-> FALSE]
InProgress == op \in {1, 2}
CancelArrives(id) ==
  /\ ncancel < MaxCancels /\ op # 20
  /\ ncancel' = ncancel + 1
  /\ pending' = pending \cup {id}
  /\ during' = IF InProgress THEN [during EXCEPT ![op] = @ \cup {id}] ELSE during
  /\ hist' = Append(hist, <<"cancel", id>>)
  /\ UNCHANGED <<op, polls, lastPoll, nother>>
Start ==
  /\ op \in {0, 10}
  /\ op' = IF op = 0 THEN 1 ELSE 2
  /\ pending' = {}                      \* cancels received before the operation began do not apply to it
  /\ polls' = 0
  /\ hist' = Append(hist, <<"start", op'>>)
  /\ UNCHANGED <<during, ncancel, lastPoll, nother>>
Poll ==
  /\ InProgress /\ polls < MaxPolls
  /\ polls' = polls + 1
  /\ lastPoll' = [k |-> op, reported |-> op \in pending, expected |-> op \in during[op]]
  /\ pending' = pending \ {op}
  /\ during' = [during EXCEPT ![op] = @ \ {op}]
  /\ hist' = Append(hist, <<"poll", op>>)
  /\ UNCHANGED <<op, ncancel, nother>>
End ==
  /\ InProgress
  /\ op' = IF op = 1 THEN 10 ELSE 20
  /\ pending' = {}
  /\ hist' = Append(hist, <<"end", op>>)
  /\ UNCHANGED <<during, polls, ncancel, lastPoll, nother>>
\* another association of the same application entity runs a whole operation with the same message id
\* (start, one poll, end) in the meantime: it shares nothing with this association
OtherAssociation ==
  /\ InProgress /\ nother < 1
  /\ nother' = nother + 1
  /\ hist' = Append(hist, <<"other", op>>)
  /\ UNCHANGED <<op, pending, during, polls, ncancel, lastPoll>>
Next == (\E id \in Ids : CancelArrives(id)) \/ Start \/ Poll \/ End \/ OtherAssociation
Spec == Init /\ [][Next]_vars

\* a poll reports a cancel exactly when a cancel naming this operation arrived while it was in progress
\* (and was not reported before)
C23_Match == lastPoll.reported = lastPoll.expected
Export == op = 20 => PrintT(<<"CASE", hist>>)
=============================================================================
