----------------------------- MODULE Trace_Policy -----------------------------
(* C2S for C13: o = [id, c (case), established, rejected, src, rsn, calls] observed on a real acceptor. *)
EXTENDS Policy, Json, IOUtils, Sequences
Obs == ndJsonDeserialize(IOEnv.TRACE)
VARIABLE i
Fix(k) == [k EXCEPT !.required = {k.required[j] : j \in 1..Len(k.required)}]
C13v(o) == LET k == Fix(o.c) IN
  IF ~C13_OnlyIfAllowedP(k, o.established) THEN "C13_EstablishedAgainstPolicy"
  ELSE IF Malformed(k) THEN (IF o.established THEN "C13_EstablishedAgainstPolicy" ELSE "ok")
  ELSE IF ~C13_RejectedWhenNotAllowedP(k, o.rejected) THEN "C13_NotRejected"
  ELSE IF o.rejected /\ ~C13_ReasonP(k, o.src, o.rsn) THEN "C13_Reason"
  ELSE IF ~C13_NoHandlerP(o.established, o.calls) THEN "C13_HandlerAfterReject"
  ELSE "ok"
TInit == i = 1 /\ c = 0 /\ phase = "done" /\ outcome = "none" /\ handlerCalls = 0
TNext == /\ i <= Len(Obs) /\ PrintT(<<"VERDICT", Obs[i].id, C13v(Obs[i])>>) /\ i' = i + 1 /\ UNCHANGED vars
TSpec == TInit /\ [][TNext]_<<i, vars>>
=============================================================================
