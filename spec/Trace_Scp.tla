----------------------------- MODULE Trace_Scp -----------------------------
(***************************************************************************)
(* C2S for C20 / C21 / C22: response histories observed on the real        *)
(* service classes (harness/scp_exec.py) are judged with the predicates of *)
(* Scp.tla.  One VERDICT line per observation, total (never a TLC error):  *)
(*   <<"VERDICT", id, c20, c21, c22>>   each "ok" or the failing clause.   *)
(***************************************************************************)
EXTENDS Scp, Json, IOUtils

Obs == ndJsonDeserialize(IOEnv.TRACE)
VARIABLE i
TInit == i = 1 /\ Init      \* Scp's own variables are carried along unchanged

StepOf(o, r) == IF r.step \in 1..Len(o.script) THEN o.script[r.step] ELSE Step("end", "S0", "none", "S")
Announced(o) == LET c == {j \in 1..Len(o.script) : o.script[j].k = "count"} IN
                IF c = {} THEN -1 ELSE CountOf(o.script[CHOOSE j \in c : TRUE].st)
Dest(o) == LET c == {j \in 1..Len(o.script) : o.script[j].k = "dest"} IN
           IF c = {} THEN "none" ELSE o.script[CHOOSE j \in c : TRUE].st
\* all announced sub-operations were already done when response k was sent
DoneBefore(o, k) == \E j \in 1..(k - 1) : IsPending(o.rsp[j].st) /\ o.rsp[j].rem = 0
IsRepo(o) == o.svc = "FINDREPO"
Sub(o) == o.svc \in SubopSvc

\* ---------------- C20 ----------------
C20v(o) ==
  IF ~C20_ShapeP(o.rsp, IsRepo(o), o.fin) THEN "C20_Shape"
  ELSE IF \E k \in 1..Len(o.rsp) : o.rsp[k].mid # o.mid \/ o.rsp[k].ctx # o.ctx THEN "C20_Ids"
  ELSE IF o.exc # "" /\ o.fin = "final" /\ FinalIdx(o.rsp, IsRepo(o)) = {} THEN "C20_Escaped"
  ELSE "ok"

\* ---------------- C21 ----------------
\* the status the documentation prescribes for response k, as a set (empty = unconstrained)
Allowed(o, k) ==
  LET r == o.rsp[k]  s == StepOf(o, r)  v == StInt(s.st) IN
  CASE s.k = "raise" -> IF ExcCodeOf(o.svc) = -1 THEN {}
                        ELSE IF Sub(o) /\ DoneBefore(o, k) THEN {Success, WarnSub, FailAllSub}   \* the handler is not consulted any more
                        \* raising before the destination / number of sub-operations was yielded is also "failed to yield" them
                        ELSE IF Sub(o) /\ \A j \in 1..(r.step - 1) : o.script[j].k # "count"
                             THEN {ExcCodeOf(o.svc), BadCountCodeOf(o.svc), BadDestCode}
                        ELSE {ExcCodeOf(o.svc)}
    [] s.k = "count" -> IF s.st = "nbad" THEN {BadCountCodeOf(o.svc)} ELSE IF s.st = "nbig" THEN {BigCountCodeOf(o.svc)}
                        ELSE IF s.st = "n0" THEN {Success} ELSE IF Dest(o) = "refused" THEN {UnknownDestCode} ELSE {}
    [] s.k = "dest" -> IF s.st = "unknown" THEN {UnknownDestCode} ELSE IF s.st = "bad" THEN {BadDestValCode} ELSE {}
    [] s.k = "end" -> IF o.svc \in FindSvc THEN {Success}
                      ELSE IF Sub(o) /\ Announced(o) > 0 THEN {Success, WarnSub, FailAllSub}
                      ELSE IF Sub(o) /\ Announced(o) = -1 THEN {BadCountCodeOf(o.svc), BadDestCode} ELSE {}
    [] s.k \in {"y", "ret"} ->
         IF Sub(o) /\ DoneBefore(o, k) THEN {Success, WarnSub, FailAllSub}     \* extra yields are ignored
         ELSE IF s.st \in {"DSNO", "BAD"} /\ o.svc = "ECHO" THEN {}       \* not documented for C-ECHO
         ELSE IF s.st \in {"NOPAIR", "OOR"} THEN {}                       \* not documented: only C20 constrains it
         ELSE IF s.st = "DSNO" THEN {NoStatusCode}
         ELSE IF s.st = "BAD" THEN {BadTypeCode}
         ELSE IF o.svc \in FindSvc /\ IsPending(v) /\ s.ds # "ds" THEN {UnencCodeOf(o.svc)}
         ELSE IF Sub(o) /\ v = Success THEN {Success, WarnSub, FailAllSub}
         \* N-CREATE without an instance UID in the request: Success needs the UID from the handler's dataset
         ELSE IF o.svc = "NCREATE0" /\ v = Success THEN {Success, 272}
         ELSE IF o.svc \notin (GeneratorSvc \cup {"ECHO", "STORE", "SUBSTORE", "NDELETE"}) /\ s.ds = "unenc" /\ v \in {Success, WarnGen}
              THEN {UnencCodeOf(o.svc)}
         ELSE {v}
    [] OTHER -> {}
C21v(o) ==
  IF \E k \in 1..Len(o.rsp) : Allowed(o, k) # {} /\ o.rsp[k].st \notin Allowed(o, k) THEN "C21_Status"
  ELSE IF \E k \in 1..Len(o.rsp) : LET s == StepOf(o, o.rsp[k]) IN
            s.k \in {"y", "ret"} /\ s.st = "DSF" /\ ~(Sub(o) /\ DoneBefore(o, k)) /\ ~o.rsp[k].opt THEN "C21_OptionalElements"
  ELSE IF \E k \in 1..Len(o.rsp) : LET s == StepOf(o, o.rsp[k]) IN
            /\ s.k \in {"y", "ret"} /\ s.ds = "ds"
            /\ \/ (o.svc \in FindSvc /\ IsPending(o.rsp[k].st))
               \/ (o.svc \notin (GeneratorSvc \cup {"ECHO", "STORE", "SUBSTORE", "NDELETE"}) /\ o.rsp[k].st \in {Success, WarnGen} /\ StInt(s.st) = o.rsp[k].st)
            /\ o.rsp[k].ds # "same" THEN "C21_Dataset"
  ELSE IF Sub(o) /\ ~o.stores_same THEN "C21_SubopDataset"
  ELSE "ok"

\* ---------------- C22 ----------------
SetOf(q) == {q[j] : j \in 1..Len(q)}
C22v(o) ==
  LET n == Announced(o) h == o.rsp IN
  IF ~Sub(o) \/ n <= 0 THEN "ok"
  ELSE IF ~C22_SumP(h, n) THEN "C22_Sum"
  ELSE IF ~C22_MonotoneP(h) THEN "C22_Monotone"
  ELSE IF ~C22_FinalP(h, n) THEN "C22_FinalTotal"
  ELSE IF ~C22_FinalStatusP(h, n, o.script) THEN "C22_FinalStatus"
  ELSE IF \E k \in 1..Len(h) : h[k].ds = "failedlist" /\ SetOf(h[k].failedlist) # SetOf(o.failed_expected) THEN "C22_FailedList"
  ELSE IF \E k \in 1..Len(h) : ~IsPending(h[k].st) /\ h[k].comp >= 0 /\ ~HandlerDecided(o.script, h[k])
                               /\ h[k].fail > 0 /\ h[k].ds # "failedlist" THEN "C22_FailedListMissing"
  ELSE "ok"

TNext == /\ i <= Len(Obs)
         /\ PrintT(<<"VERDICT", Obs[i].id, C20v(Obs[i]), C21v(Obs[i]), C22v(Obs[i])>>)
         /\ i' = i + 1 /\ UNCHANGED vars
TSpec == TInit /\ [][TNext]_<<i, vars>>
=============================================================================
