---- MODULE Scp_TTrace_1790065740 ----
EXTENDS Scp, Sequences, TLCExt, Toolbox, Naturals, TLC

_expression ==
    LET Scp_TEExpression == INSTANCE Scp_TEExpression
    IN Scp_TEExpression!expression
----

_trace ==
    LET Scp_TETrace == INSTANCE Scp_TETrace
    IN Scp_TETrace!trace
----

_inv ==
    ~(
        TLCGet("level") = Len(_TETrace)
        /\
        phase = ("loop")
        /\
        cnt = (<<-1, -1, -1, -1>>)
        /\
        ended = ("final")
        /\
        failed = (<<>>)
        /\
        N = (-1)
        /\
        script = (<<[k |-> "ret", st |-> "P0", ds |-> "ds", sub |-> "S"]>>)
        /\
        out = (<<[st |-> 65280, ds |-> "none", step |-> 1, opt |-> FALSE, rem |-> -1, comp |-> -1, fail |-> -1, warn |-> -1]>>)
    )
----

_init ==
    /\ phase = _TETrace[1].phase
    /\ N = _TETrace[1].N
    /\ out = _TETrace[1].out
    /\ script = _TETrace[1].script
    /\ cnt = _TETrace[1].cnt
    /\ failed = _TETrace[1].failed
    /\ ended = _TETrace[1].ended
----

_next ==
    /\ \E i,j \in DOMAIN _TETrace:
        /\ \/ /\ j = i + 1
              /\ i = TLCGet("level")
        /\ phase  = _TETrace[i].phase
        /\ phase' = _TETrace[j].phase
        /\ N  = _TETrace[i].N
        /\ N' = _TETrace[j].N
        /\ out  = _TETrace[i].out
        /\ out' = _TETrace[j].out
        /\ script  = _TETrace[i].script
        /\ script' = _TETrace[j].script
        /\ cnt  = _TETrace[i].cnt
        /\ cnt' = _TETrace[j].cnt
        /\ failed  = _TETrace[i].failed
        /\ failed' = _TETrace[j].failed
        /\ ended  = _TETrace[i].ended
        /\ ended' = _TETrace[j].ended

\* Uncomment the ASSUME below to write the states of the error trace
\* to the given file in Json format. Note that you can pass any tuple
\* to `JsonSerialize`. For example, a sub-sequence of _TETrace.
    \* ASSUME
    \*     LET J == INSTANCE Json
    \*         IN J!JsonSerialize("Scp_TTrace_1790065740.json", _TETrace)

=============================================================================

 Note that you can extract this module `Scp_TEExpression`
  to a dedicated file to reuse `expression` (the module in the 
  dedicated `Scp_TEExpression.tla` file takes precedence 
  over the module `Scp_TEExpression` below).

---- MODULE Scp_TEExpression ----
EXTENDS Scp, Sequences, TLCExt, Toolbox, Naturals, TLC

expression == 
    [
        \* To hide variables of the `Scp` spec from the error trace,
        \* remove the variables below.  The trace will be written in the order
        \* of the fields of this record.
        phase |-> phase
        ,N |-> N
        ,out |-> out
        ,script |-> script
        ,cnt |-> cnt
        ,failed |-> failed
        ,ended |-> ended
        
        \* Put additional constant-, state-, and action-level expressions here:
        \* ,_stateNumber |-> _TEPosition
        \* ,_phaseUnchanged |-> phase = phase'
        
        \* Format the `phase` variable as Json value.
        \* ,_phaseJson |->
        \*     LET J == INSTANCE Json
        \*     IN J!ToJson(phase)
        
        \* Lastly, you may build expressions over arbitrary sets of states by
        \* leveraging the _TETrace operator.  For example, this is how to
        \* count the number of times a spec variable changed up to the current
        \* state in the trace.
        \* ,_phaseModCount |->
        \*     LET F[s \in DOMAIN _TETrace] ==
        \*         IF s = 1 THEN 0
        \*         ELSE IF _TETrace[s].phase # _TETrace[s-1].phase
        \*             THEN 1 + F[s-1] ELSE F[s-1]
        \*     IN F[_TEPosition - 1]
    ]

=============================================================================



Parsing and semantic processing can take forever if the trace below is long.
 In this case, it is advised to uncomment the module below to deserialize the
 trace from a generated binary file.

\*
\*---- MODULE Scp_TETrace ----
\*EXTENDS Scp, IOUtils, TLC
\*
\*trace == IODeserialize("Scp_TTrace_1790065740.bin", TRUE)
\*
\*=============================================================================
\*

---- MODULE Scp_TETrace ----
EXTENDS Scp, TLC

trace == 
    <<
    ([phase |-> "loop",cnt |-> <<-1, -1, -1, -1>>,ended |-> "no",failed |-> <<>>,N |-> -1,script |-> <<>>,out |-> <<>>]),
    ([phase |-> "loop",cnt |-> <<-1, -1, -1, -1>>,ended |-> "final",failed |-> <<>>,N |-> -1,script |-> <<[k |-> "ret", st |-> "P0", ds |-> "ds", sub |-> "S"]>>,out |-> <<[st |-> 65280, ds |-> "none", step |-> 1, opt |-> FALSE, rem |-> -1, comp |-> -1, fail |-> -1, warn |-> -1]>>])
    >>
----


=============================================================================

---- CONFIG Scp_TTrace_1790065740 ----
CONSTANTS
    Svc = "STORE"
    MaxSteps = 4

INVARIANT
    _inv

CHECK_DEADLOCK
    \* CHECK_DEADLOCK off because of PROPERTY or INVARIANT above.
    FALSE

INIT
    _init

NEXT
    _next

CONSTANT
    _TETrace <- _trace

ALIAS
    _expression
=============================================================================
\* Generated on Tue Sep 22 08:29:01 UTC 2026