------------------------------ MODULE DimseMsg ------------------------------
(***************************************************************************)
(* The DIMSE message catalogue of PS3.7 (sections 9.1, 9.3, 10.1, 10.3 and *)
(* Annex E command dictionary): for each of the 23 messages its command    *)
(* field, mandatory parameters, optional/conditional parameters and the    *)
(* parameter carried as the data set.  Used by C16 (every message type x   *)
(* data-set state is receivable) and C17 (primitive <-> command set round  *)
(* trip): TLC checks the table lemmas and enumerates the cases             *)
(* (message x subset of optional parameters x value class).                *)
(***************************************************************************)
EXTENDS Integers, Sequences, FiniteSets, TLC

M(name, field, mand, opt, ds, dsMand) == [name |-> name, field |-> field, mand |-> mand, opt |-> opt, ds |-> ds, dsMand |-> dsMand]
StatusOpt == {"OffendingElement", "ErrorComment"}
NStatusOpt == {"ErrorComment", "ErrorID"}
SubOps == {"NumberOfRemainingSuboperations", "NumberOfCompletedSuboperations", "NumberOfFailedSuboperations", "NumberOfWarningSuboperations"}

Messages == {
  M("C-STORE-RQ", 1, {"MessageID", "AffectedSOPClassUID", "AffectedSOPInstanceUID", "Priority"},
    {"MoveOriginatorApplicationEntityTitle", "MoveOriginatorMessageID"}, "DataSet", TRUE),
  M("C-STORE-RSP", 32769, {"MessageIDBeingRespondedTo", "Status"}, {"AffectedSOPClassUID", "AffectedSOPInstanceUID"} \cup StatusOpt, "", FALSE),
  M("C-GET-RQ", 16, {"MessageID", "AffectedSOPClassUID", "Priority"}, {}, "Identifier", TRUE),
  M("C-GET-RSP", 32784, {"MessageIDBeingRespondedTo", "Status"}, {"AffectedSOPClassUID"} \cup SubOps \cup StatusOpt, "Identifier", FALSE),
  M("C-FIND-RQ", 32, {"MessageID", "AffectedSOPClassUID", "Priority"}, {}, "Identifier", TRUE),
  M("C-FIND-RSP", 32800, {"MessageIDBeingRespondedTo", "Status"}, {"AffectedSOPClassUID"} \cup StatusOpt, "Identifier", FALSE),
  M("C-MOVE-RQ", 33, {"MessageID", "AffectedSOPClassUID", "Priority", "MoveDestination"}, {}, "Identifier", TRUE),
  M("C-MOVE-RSP", 32801, {"MessageIDBeingRespondedTo", "Status"}, {"AffectedSOPClassUID"} \cup SubOps \cup StatusOpt, "Identifier", FALSE),
  M("C-ECHO-RQ", 48, {"MessageID", "AffectedSOPClassUID"}, {}, "", FALSE),
  M("C-ECHO-RSP", 32816, {"MessageIDBeingRespondedTo", "Status"}, {"AffectedSOPClassUID", "ErrorComment"}, "", FALSE),
  M("C-CANCEL-RQ", 4095, {"MessageIDBeingRespondedTo"}, {}, "", FALSE),
  M("N-EVENT-REPORT-RQ", 256, {"MessageID", "AffectedSOPClassUID", "AffectedSOPInstanceUID", "EventTypeID"}, {}, "EventInformation", FALSE),
  M("N-EVENT-REPORT-RSP", 33024, {"MessageIDBeingRespondedTo", "Status"}, {"AffectedSOPClassUID", "AffectedSOPInstanceUID", "EventTypeID"} \cup NStatusOpt, "EventReply", FALSE),
  M("N-GET-RQ", 272, {"MessageID", "RequestedSOPClassUID", "RequestedSOPInstanceUID"}, {"AttributeIdentifierList"}, "", FALSE),
  M("N-GET-RSP", 33040, {"MessageIDBeingRespondedTo", "Status"}, {"AffectedSOPClassUID", "AffectedSOPInstanceUID", "AttributeIdentifierList"} \cup NStatusOpt, "AttributeList", FALSE),
  M("N-SET-RQ", 288, {"MessageID", "RequestedSOPClassUID", "RequestedSOPInstanceUID"}, {}, "ModificationList", TRUE),
  M("N-SET-RSP", 33056, {"MessageIDBeingRespondedTo", "Status"}, {"AffectedSOPClassUID", "AffectedSOPInstanceUID", "AttributeIdentifierList"} \cup NStatusOpt, "AttributeList", FALSE),
  M("N-ACTION-RQ", 304, {"MessageID", "RequestedSOPClassUID", "RequestedSOPInstanceUID", "ActionTypeID"}, {}, "ActionInformation", FALSE),
  M("N-ACTION-RSP", 33072, {"MessageIDBeingRespondedTo", "Status"}, {"AffectedSOPClassUID", "AffectedSOPInstanceUID", "ActionTypeID"} \cup NStatusOpt, "ActionReply", FALSE),
  M("N-CREATE-RQ", 320, {"MessageID", "AffectedSOPClassUID"}, {"AffectedSOPInstanceUID"}, "AttributeList", FALSE),
  M("N-CREATE-RSP", 33088, {"MessageIDBeingRespondedTo", "Status"}, {"AffectedSOPClassUID", "AffectedSOPInstanceUID"} \cup NStatusOpt, "AttributeList", FALSE),
  M("N-DELETE-RQ", 336, {"MessageID", "RequestedSOPClassUID", "RequestedSOPInstanceUID"}, {}, "", FALSE),
  M("N-DELETE-RSP", 33104, {"MessageIDBeingRespondedTo", "Status"}, {"AffectedSOPClassUID", "AffectedSOPInstanceUID"} \cup NStatusOpt, "", FALSE) }

Names == {m.name : m \in Messages}
MsgOf(n) == CHOOSE m \in Messages : m.name = n
IsRq(m) == m.field < 32768
\* ---- table lemmas (PS3.7 Annex E) ----
FieldsDistinct == \A a, b \in Messages : a.field = b.field => a = b
Count23 == Cardinality(Messages) = 23
\* every request but C-CANCEL has a response whose field is the request's with bit 15 set
RspPairs == \A m \in Messages : (IsRq(m) /\ m.name # "C-CANCEL-RQ") =>
               \E r \in Messages : ~IsRq(r) /\ r.field = m.field + 32768
RqHasMessageID == \A m \in Messages : IF IsRq(m) /\ m.name # "C-CANCEL-RQ" THEN "MessageID" \in m.mand ELSE "MessageIDBeingRespondedTo" \in m.mand
RspHasStatus == \A m \in Messages : ~IsRq(m) => "Status" \in m.mand
ASSUME FieldsDistinct /\ Count23 /\ RspPairs /\ RqHasMessageID /\ RspHasStatus

\* ---- cases: message x subset of optional parameters x data-set state x value class ----
DsStates(m) == IF m.ds = "" THEN {"na"} ELSE {"absent", "empty", "odd", "even"}
VARIABLE c
CasesOf(m) == {[name |-> m.name, field |-> m.field, mand |-> m.mand, opts |-> o, dsparam |-> m.ds, ds |-> s, vc |-> v] :
                 o \in SUBSET m.opt, s \in DsStates(m), v \in 1..3}
Init == c \in UNION {CasesOf(m) : m \in Messages}
Next == FALSE /\ c' = c
Spec == Init /\ [][Next]_c
Export == PrintT(<<"CASE", c>>)
=============================================================================
