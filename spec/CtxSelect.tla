----------------------------- MODULE CtxSelect -----------------------------
(***************************************************************************)
(* C18 - outgoing messages use an accepted context compatible with their   *)
(* content.                                                                *)
(*                                                                         *)
(* An association holds a set of accepted presentation contexts            *)
(*     [id, ab (abstract syntax), ts (transfer syntax), scu, scp (roles    *)
(*      the LOCAL side holds on it)]                                       *)
(* A send operation names a SOP class, needs a role, and may carry a data  *)
(* set that arrives encoded in some transfer syntax (a C-STORE of a data   *)
(* set read from a file) or is built from scratch and encoded on sending   *)
(* (identifiers, attribute lists).  The sender either refuses (ValueError, *)
(* nothing is sent) or sends on one context.  C18 constrains every send:   *)
(*   C18_Accepted   the context is one of the accepted ones                *)
(*   C18_Abstract   its abstract syntax is the SOP class, or - documented  *)
(*                  substitution - a UPS Pull/Watch/Event/Query context    *)
(*                  for a UPS Push message when no Push context exists     *)
(*   C18_Role       the local side holds the role the operation needs      *)
(*   C18_Encoding   the data set on the wire is encoded in the context's   *)
(*                  transfer syntax                                        *)
(*   C18_Conversion a data set that arrived encoded in ts1 is sent on a    *)
(*                  context of ts2 # ts1 only if both are uncompressed     *)
(*                  (implicit / explicit / deflated: the pixel data is not *)
(*                  touched) and have the same byte order                  *)
(* The module defines the predicate over (accepted, operation, result) and *)
(* a reference chooser; MC_Ctx enumerates the cases.                       *)
(***************************************************************************)
EXTENDS Integers, Sequences, FiniteSets, TLC

Syntaxes == {"ImplLE", "ExplLE", "ExplBE", "Deflated", "JPEG"}
Compressed(ts) == ts = "JPEG"
LittleEndian(ts) == ts # "ExplBE"
Convertible(t1, t2) == t1 = t2 \/ (~Compressed(t1) /\ ~Compressed(t2) /\ LittleEndian(t1) = LittleEndian(t2))

UPSOthers == {"UPSPull", "UPSWatch"}
AbstractOK(accepted, sop, cx) ==
  \/ cx.ab = sop
  \/ sop = "UPSPush" /\ cx.ab \in UPSOthers /\ ~\E c \in accepted : c.ab = "UPSPush"
\* ("any": N-EVENT-REPORT is sent by the SCP of the SOP class to its SCU and, as the implementation documents, is not
\*  subject to SCP/SCU role selection - no role is required of the context)
RoleOK(role, cx) == CASE role = "scu" -> cx.scu [] role = "scp" -> cx.scp [] OTHER -> TRUE

\* op = [sop, role, ds : "none" | "fresh" | a transfer syntax (the encoding the data set arrived in),
\*       raw : the stored bytes are streamed as they are (C-STORE of a file path in chunked mode) - no conversion at all,
\*       prev : an earlier send on the same association ("none" | "same": a C-STORE of a data set of the same SOP class and
\*              transfer syntax) - the property holds for every send whatever was sent before]
\* res = [sent, id (context id used), enc (transfer syntax the data set on the wire decodes in, "none" without data set)]
CtxOf(accepted, i) == CHOOSE c \in accepted : c.id = i
C18_Accepted(accepted, op, res) == res.sent => \E c \in accepted : c.id = res.id
C18_Abstract(accepted, op, res) == res.sent => AbstractOK(accepted, op.sop, CtxOf(accepted, res.id))
C18_Role(accepted, op, res) == res.sent => RoleOK(op.role, CtxOf(accepted, res.id))
C18_Encoding(accepted, op, res) == (res.sent /\ op.ds # "none") => res.enc = CtxOf(accepted, res.id).ts
MayCarry(op, ts) == IF op.raw THEN op.ds = ts ELSE Convertible(op.ds, ts)
C18_Conversion(accepted, op, res) == (res.sent /\ op.ds \in Syntaxes) => MayCarry(op, CtxOf(accepted, res.id).ts)
C18(accepted, op, res) == /\ C18_Accepted(accepted, op, res)
                          /\ (res.sent /\ (\E c \in accepted : c.id = res.id)) =>
                                /\ C18_Abstract(accepted, op, res) /\ C18_Role(accepted, op, res)
                                /\ C18_Encoding(accepted, op, res) /\ C18_Conversion(accepted, op, res)

\* ---- reference chooser (what a conforming sender may do): any usable context; refuses iff there is none ----
Usable(accepted, op) == {c \in accepted : /\ AbstractOK(accepted, op.sop, c) /\ RoleOK(op.role, c)
                                          /\ (op.ds \in Syntaxes => MayCarry(op, c.ts))}
\* the reference prefers an exact transfer syntax match, as the documentation says
Preferred(accepted, op) == LET U == Usable(accepted, op) IN
                           IF op.ds \in Syntaxes /\ \E c \in U : c.ts = op.ds THEN {c \in U : c.ts = op.ds} ELSE U
RefResults(accepted, op) == IF Usable(accepted, op) = {} THEN {[sent |-> FALSE, id |-> 0, enc |-> "none"]}
                            ELSE {[sent |-> TRUE, id |-> c.id, enc |-> IF op.ds = "none" THEN "none" ELSE c.ts] : c \in Preferred(accepted, op)}
\* the reference satisfies the property (checked by TLC on every enumerated case)
L_RefOK(accepted, op) == \A r \in RefResults(accepted, op) : C18(accepted, op, r)
=============================================================================
