SPECIFICATION Spec
CONSTANTS ClockKind = "wall"
          MaxT = 6
          Timeouts = {0, 1, 3}
CONSTRAINT WallBound
INVARIANT TypeOK
INVARIANT C09_Expired
