SPECIFICATION TSpec
