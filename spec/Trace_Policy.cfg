SPECIFICATION TSpec
