------------------------------- MODULE Policy -------------------------------
(***************************************************************************)
(* C13: an association is established only when the acceptance policy      *)
(* allows it.  AE titles are modelled as a significant core plus leading / *)
(* trailing spaces (PS3.5: not significant; PS3.8 9.3.2: titles are padded *)
(* with spaces).  The peer sends an A-ASSOCIATE-RQ and, whatever the       *)
(* answer, a C-ECHO request afterwards.                                    *)
(***************************************************************************)
EXTENDS Integers, FiniteSets, Sequences, TLC

Cores == {"CALLER", "caller", "CALL ER", "OTHER", "CALL", "CALLERS", "CALLER%00"}
\* "%00": the title field is padded with NUL bytes instead of spaces (written %00 here).  Only spaces are insignificant: such a
\* title is not the acceptable one.  The request is malformed as well (control characters are not allowed in an AE title), so
\* it may be answered by an abort instead of a rejection - what matters is that it is not established.
Malformed(k) == k.calling.core = "CALLER%00" \/ k.called.core = "ACCEPTOR%00"
T(core, lead, trail) == [core |-> core, lead |-> lead, trail |-> trail]
\* (titles that are a proper part of, or contain, an acceptable title are different titles)
CallingOpts == {T("CALLER", 0, 0), T("CALLER", 2, 0), T("CALLER", 0, 3), T("CALLER", 1, 1), T("caller", 0, 0), T("CALL ER", 0, 0), T("OTHER", 0, 2),
                T("CALL", 0, 0), T("CALLERS", 0, 1), T("CALLER%00", 0, 0)}
RequiredOpts == {{}, {T("CALLER", 0, 0)}, {T("CALLER", 1, 2)}, {T("OTHER", 0, 0), T("CALLER", 0, 1)}, {T("X", 0, 0)}}
CalledOpts == {T("ACCEPTOR", 0, 0), T("ACCEPTOR", 1, 2), T("acceptor", 0, 0), T("ANY", 0, 0), T("ACCEPT", 0, 0), T("CEPTOR", 0, 1), T("ACCEPTOR1", 0, 0), T("A", 0, 0), T("ACCEPTOR%00", 0, 0)}
OwnOpts == {T("ACCEPTOR", 0, 0), T("ACCEPTOR", 0, 3)}
\* identity: the request carries no identity item / carries one and no handler is bound / the handler says yes, no, raises
\* "falsy": the handler's verdict is None (not a positive verdict)
IdentityOpts == {"none", "unbound", "true", "false", "falsy", "raise"}
\* how the application configured the required-calling list: by assignment, or by mutating the list it got back
HowOpts == {"assign", "inplace"}

\* ---- configuration history of the server's EVT_USER_ID slot (an intervention event: one handler at a time) ----
\* The running server was started with `start` bound ("none": nothing, "ok": an accept-all handler, "H": the handler that
\* gives the case's verdict), then the application called bind / unbind.  bind(h) replaces whatever is bound; unbind(h)
\* restores the default only if h is the handler bound - unbinding a handler that is not bound changes nothing.
Handlers == {"ok", "H"}
SlotOps == {<<o, h>> : o \in {"bind", "unbind"}, h \in Handlers}
ApplyOp(slot, op) == IF op[1] = "bind" THEN op[2] ELSE IF slot = op[2] THEN "none" ELSE slot
RECURSIVE Slot(_, _)
Slot(slot, ops) == IF ops = <<>> THEN slot ELSE Slot(ApplyOp(slot, Head(ops)), Tail(ops))
PlainHist(identity) == [start |-> IF identity \in {"none", "unbound"} THEN "none" ELSE "H", ops |-> <<>>]
Reconfigured == {h \in [start : {"none", "ok", "H"}, ops : UNION {[1..n -> SlotOps] : n \in 1..2}] : TRUE}
\* what decides on the identity in the end
Effective(k) == IF k.identity = "none" THEN "none"
                ELSE LET s == Slot(k.idhist.start, k.idhist.ops) IN
                     CASE s = "none" -> "unbound" [] s = "ok" -> "true" [] OTHER -> k.identity

VARIABLES c, phase, outcome, handlerCalls
vars == <<c, phase, outcome, handlerCalls>>
Base == [calling : CallingOpts, required : RequiredOpts, called : CalledOpts, own : OwnOpts, requireCalled : BOOLEAN, identity : IdentityOpts, how : HowOpts]
Ext(b, h) == [calling |-> b.calling, required |-> b.required, called |-> b.called, own |-> b.own, requireCalled |-> b.requireCalled,
              identity |-> b.identity, how |-> b.how, idhist |-> h]
\* every policy combination with the handler bound from the start, and every slot history for every verdict
Cases == {Ext(b, PlainHist(b.identity)) : b \in Base}
         \cup {Ext(b, h) : b \in {x \in Base : /\ x.calling = T("CALLER", 0, 0) /\ x.required \in {{}, {T("X", 0, 0)}} /\ x.called = T("ACCEPTOR", 0, 0)
                                              /\ x.own = T("ACCEPTOR", 0, 0) /\ ~x.requireCalled /\ x.how = "assign"
                                              /\ x.identity \in {"true", "false", "falsy", "raise"}},
                            h \in Reconfigured}
Init == /\ c \in Cases
        /\ phase = "rq" /\ outcome = "none" /\ handlerCalls = 0

\* ---- the policy (shared with Trace_Policy) ----
CallingOK(k) == k.required = {} \/ \E r \in k.required : r.core = k.calling.core
CalledOK(k) == ~k.requireCalled \/ k.called.core = k.own.core
IdentityOK(k) == Effective(k) \in {"none", "unbound", "true"}
Allowed(k) == CallingOK(k) /\ CalledOK(k) /\ IdentityOK(k)
\* reject codes (source, reason) PS3.8 Table 9-21: service-user 1: calling AE title not recognised 3, called 7
Reasons(k) == (IF CallingOK(k) THEN {} ELSE {<<1, 3>>}) \cup (IF CalledOK(k) THEN {} ELSE {<<1, 7>>})
              \cup (IF IdentityOK(k) THEN {} ELSE {<<0, 0>>})      \* identity: any codes

Decide == /\ phase = "rq" /\ phase' = "answered"
          /\ outcome' = IF Allowed(c) THEN "established" ELSE "rejected"
          /\ UNCHANGED <<c, handlerCalls>>
PeerEcho == /\ phase = "answered" /\ phase' = "done"
            /\ handlerCalls' = IF outcome = "established" THEN 1 ELSE 0
            /\ UNCHANGED <<c, outcome>>
Next == Decide \/ PeerEcho
Spec == Init /\ [][Next]_vars

C13_OnlyIfAllowedP(k, est) == est => Allowed(k)
C13_RejectedWhenNotAllowedP(k, rj) == ~Allowed(k) => rj
C13_ReasonP(k, src, rsn) == Allowed(k) \/ <<0, 0>> \in Reasons(k) \/ <<src, rsn>> \in Reasons(k)
C13_NoHandlerP(est, calls) == ~est => calls = 0
C13_OnlyIfAllowed == C13_OnlyIfAllowedP(c, outcome = "established")
C13_NoHandlerAfterReject == C13_NoHandlerP(outcome = "established", handlerCalls)
Export == phase = "done" => PrintT(<<"CASE", c>>)
=============================================================================
