SPECIFICATION Spec
INVARIANT Export
