--------------------------- MODULE Trace_Release ---------------------------
(***************************************************************************)
(* C2S for C07: one record per run of a Release.tla scenario on the real   *)
(* acceptor against the scripted peer (harness/release_lab.py):            *)
(*  o = [id, svc, n, pos, k,          the scenario (arrival point)         *)
(*       reached, sent, queued,       the arrival point was reached, the   *)
(*                                    A-RELEASE-RQ written, the indication *)
(*                                    seen queued / the provider in Sta8   *)
(*       rp,                          the peer read an A-RELEASE-RP within *)
(*                                    the answer window                    *)
(*       peer_saw,                    "release_rp" | "abort" | "closed" |  *)
(*                                    "nothing" | ...                      *)
(*       acc_released, acc_aborted, acc_alive]                             *)
(* The property's antecedent: the request was delivered on an established  *)
(* association and pynetdicom did not itself abort (an A-ABORT read by the *)
(* peer); Release.tla has no abort in these scenarios, so one is reported  *)
(* as drift by the driver, not judged here.                                *)
(***************************************************************************)
EXTENDS Integers, Sequences, Json, IOUtils, TLC
Obs == ndJsonDeserialize(IOEnv.TRACE)
VARIABLE i
C07v(o) ==
  IF ~o.reached \/ ~o.sent THEN "UNREACHED"
  ELSE IF o.peer_saw = "abort" THEN "LOCAL_ABORT"
  ELSE IF ~o.rp THEN "C07_NotAnswered"
  ELSE IF ~o.acc_released \/ o.acc_aborted THEN "C07_NotReleased"
  ELSE IF o.acc_alive THEN "C07_ThreadLeft"
  ELSE "ok"
\* C26 (intervention handlers): o.raises - the handler's generator raised at the arrival point, with the peer's release request
\* pending; the operation still ends with the documented failure status (C-FIND C311H, C-GET C411H, C-MOVE C511H), seen by the peer
FailureOf(svc) == CASE svc = "find" -> 49937 [] svc = "get" -> 50193 [] svc = "move" -> 50449 [] OTHER -> -2
C26v(o) ==
  IF ~o.raises THEN "ok"
  ELSE IF ~o.reached \/ ~o.sent THEN "UNREACHED"
  ELSE IF o.final_status # FailureOf(o.svc) THEN "C26_InterventionContained"
  ELSE "ok"
TInit == i = 1
TNext == /\ i <= Len(Obs) /\ PrintT(<<"VERDICT", Obs[i].id, C07v(Obs[i]), C26v(Obs[i])>>) /\ i' = i + 1
TSpec == TInit /\ [][TNext]_i
=============================================================================
