SPECIFICATION TSpec
