----------------------------- MODULE Lifecycle -----------------------------
(***************************************************************************)
(* Life cycle of an ApplicationEntity: its listening servers and its       *)
(* associations in both roles.                                             *)
(*                                                                         *)
(*   start_server()      a server listens; connections to it are accepted  *)
(*   server.shutdown()   the listener is closed - new connections are      *)
(*                       refused - and the associations it accepted go on  *)
(*   peer connects       established iff the server is listening           *)
(*   AE.associate()      a requestor association of the AE to a peer       *)
(*   release             the association ends, its thread finishes         *)
(*   AE.shutdown()       every association of the AE - accepted or         *)
(*                       requested - is aborted and every server is        *)
(*                       closed; the AE can be started again afterwards    *)
(* AE.active_associations is exactly the set of associations that have not *)
(* ended.  (AcceptLimit.tla is the admission rule on top of this; here     *)
(* the maximum is never reached.)                                          *)
(* Apply is shared by the model, the replay on a real AE and               *)
(* Trace_Lifecycle.                                                        *)
(***************************************************************************)
EXTENDS Integers, Sequences, FiniteSets, TLC
CONSTANTS Servers,     \* listening servers of the AE
          AccSlots,    \* association slots a peer uses to connect to the AE's servers
          ReqSlots,    \* association slots the AE uses as requestor
          MaxOps
Slots == AccSlots \cup ReqSlots
Op(k, x, sv) == [k |-> k, x |-> x, sv |-> sv]
AnyS == CHOOSE sv \in Servers : TRUE
AnyX == CHOOSE x \in Slots : TRUE

\* s = [up : [Servers -> BOOLEAN], ever : [Servers -> BOOLEAN] (has listened before: its last port is known),
\*      as : [Slots -> "none" | "est" | "released" | "aborted" | "refused"]]
Free(s, x) == s.as[x] # "est"
Apply(s, op) ==
  CASE op.k = "start"    -> [s EXCEPT !.up[op.sv] = TRUE, !.ever[op.sv] = TRUE]
    [] op.k = "stop"     -> [s EXCEPT !.up[op.sv] = FALSE]
    [] op.k = "connect"  -> [s EXCEPT !.as[op.x] = IF s.up[op.sv] THEN "est" ELSE "refused"]
    [] op.k = "out"      -> [s EXCEPT !.as[op.x] = "est"]
    [] op.k = "release"  -> [s EXCEPT !.as[op.x] = "released"]
    [] op.k = "aeshutdown" -> [s EXCEPT !.up = [sv \in Servers |-> FALSE],
                                        !.as = [x \in Slots |-> IF s.as[x] = "est" THEN "aborted" ELSE s.as[x]]]
    [] OTHER             -> s                      \* "echo"
EchoOK(s, x) == s.as[x] = "est"
Active(s) == Cardinality({x \in Slots : s.as[x] = "est"})
Enabled(s) ==
  {Op("start", AnyX, sv) : sv \in {v \in Servers : ~s.up[v]}}
  \cup {Op("stop", AnyX, sv) : sv \in {v \in Servers : s.up[v]}}
  \cup {Op("connect", x, sv) : x \in {y \in AccSlots : Free(s, y)}, sv \in {v \in Servers : s.ever[v]}}
  \cup {Op("out", x, AnyS) : x \in {y \in ReqSlots : Free(s, y)}}
  \cup {Op("release", x, AnyS) : x \in {y \in Slots : s.as[y] = "est"}}
  \cup {Op("echo", x, AnyS) : x \in {y \in Slots : s.as[y] = "est"}}
  \cup {Op("aeshutdown", AnyX, AnyS)}

VARIABLES st, hist
vars == <<st, hist>>
S0 == [up |-> [sv \in Servers |-> FALSE], ever |-> [sv \in Servers |-> FALSE], as |-> [x \in Slots |-> "none"]]
Init == st = S0 /\ hist = <<>>
Next == Len(hist) < MaxOps /\ \E op \in Enabled(st) : st' = Apply(st, op) /\ hist' = Append(hist, op)
Spec == Init /\ [][Next]_vars

\* ---- consequences ----
L_ShutdownLeavesNothing ==
  [][(hist' # hist /\ hist'[Len(hist')].k = "aeshutdown") => (Active(st') = 0 /\ \A sv \in Servers : ~st'.up[sv])]_vars
L_StopKeepsAssociations ==
  [][(hist' # hist /\ hist'[Len(hist')].k = "stop") => (st'.as = st.as)]_vars
L_EstablishedOnlyViaListener ==
  [][(hist' # hist /\ hist'[Len(hist')].k = "connect") =>
       LET op == hist'[Len(hist')] IN (st'.as[op.x] = "est") = st.up[op.sv]]_vars
=============================================================================
