SPECIFICATION FairSpec
CONSTANTS RecvDeadline = FALSE
          Dribbles = 2
CONSTRAINT BoundaryOnly
PROPERTY C08_Ends
CHECK_DEADLOCK FALSE
