SPECIFICATION TSpec
