SPECIFICATION FairSpec
CONSTANTS RecvDeadline = TRUE
          Dribbles = 2
INVARIANT TypeOK
PROPERTY C08_Ends
CHECK_DEADLOCK FALSE
