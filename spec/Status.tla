------------------------------- MODULE Status -------------------------------
(***************************************************************************)
(* C28: status categories, status tables and finality decisions.           *)
(* The implementation's behaviour is *observed* (harness/drivers/c28.py):  *)
(*   Dump.cat      code_to_category(c) for every c in 0..65535             *)
(*   Dump.tables   every row (table, code, category) of the 17 tables      *)
(*   Dump.probes   for probed codes: did the real SCU iterator continue    *)
(*                 after a response with that status? did the real SCP     *)
(*                 keep the operation open after a handler yielded it?     *)
(* TLC walks the code space (one state per code) and evaluates the         *)
(* predicates of C28 on the observed values.  SpecCat is the category      *)
(* PS3.7 Annex C assigns by range, written from the standard.              *)
(***************************************************************************)
EXTENDS Integers, Sequences, Json, IOUtils, TLC

Dump == JsonDeserialize(IOEnv.DUMP)
Categories == {"Success", "Warning", "Failure", "Cancel", "Pending", "Unknown"}

Cat(c) == Dump.cat[c + 1]

\* PS3.7 Annex C: general status code ranges
SpecCat(c) ==
  IF c = 0 THEN "Success"
  ELSE IF c \in {65280, 65281} THEN "Pending"                       \* FF00, FF01
  ELSE IF c = 65024 THEN "Cancel"                                    \* FE00
  ELSE IF c = 1 \/ c \in 45056..49151 \/ c \in {263, 278} THEN "Warning"   \* 0001, Bxxx, 0107, 0116
  ELSE IF c \in 40960..45055 \/ c \in 49152..53247 THEN "Failure"    \* Axxx, Cxxx
  ELSE IF c \in 256..511 \/ c \in 512..767 THEN "FailureOrUnknown"   \* 01xx, 02xx: Failure where assigned
  ELSE "Unknown"

VARIABLE c
Init == c = 0
Next == c < 65535 /\ c' = c + 1
Spec == Init /\ [][Next]_c

\* rows / probes are grouped per code by the dumper (index = code + 1) so TLC indexes directly
RowsOf(code) == Dump.rowsByCode[code + 1]
ProbesOf(code) == Dump.probesByCode[code + 1]

\* exactly one category out of the six
C28_Total == Cat(c) \in Categories
\* ... and it is the one PS3.7 assigns by range (01xx/02xx: Failure or unassigned)
C28_Standard == LET s == SpecCat(c) IN
                IF s = "FailureOrUnknown" THEN Cat(c) \in {"Failure", "Unknown", "Warning"} ELSE Cat(c) = s
\* every service-specific table gives the code the same category
C28_TablesAgree == \A i \in DOMAIN RowsOf(c) : RowsOf(c)[i].cat = Cat(c)
\* finality: the SCU keeps iterating / the SCP keeps the operation open exactly for Pending,
\* and for the Repository Query response-limit warning B001
ContinueRule(code, model) == Cat(code) = "Pending" \/ (model = "Repository" /\ code = 45057)
C28_Finality == \A i \in DOMAIN ProbesOf(c) : ProbesOf(c)[i].continued = ContinueRule(c, ProbesOf(c)[i].model)
=============================================================================
