SPECIFICATION Spec
CONSTANTS HIds = {"h1", "h2"}
          Args = {"none", "x"}
          Assocs = {1, 2}
          MaxOps = 8
INVARIANT H_NoDuplicate
INVARIANT H_OneIntervention
CHECK_DEADLOCK FALSE
