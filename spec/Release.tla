------------------------------ MODULE Release ------------------------------
(***************************************************************************)
(* C07 - a peer's A-RELEASE-RQ is answered wherever it arrives.            *)
(*                                                                         *)
(* One pynetdicom association (either role) whose association thread runs  *)
(* the reactor loop of Association._run_reactor:                           *)
(*     msg = dimse.get_msg(); if msg: _serve_request(msg)                  *)
(*     if is_established and acse.is_release_requested(): answer, released *)
(* and, while serving a C-FIND / C-GET / C-MOVE request, the loop of       *)
(* ServiceClass._wrap_handler around the user's generator:                 *)
(*     for result in handler:                                              *)
(*         if acse.is_aborted() or <release requested?>: return            *)
(*         yield result          -> pending response / sub-operation       *)
(* The peer is the environment: it sends one request (or none), lets the   *)
(* handler produce N results, and sends A-RELEASE-RQ at ANY moment - while *)
(* idle, between two messages, inside a plain handler, before each yield,  *)
(* during each sub-operation, after the last result, or while a user       *)
(* thread of this side is itself waiting for a response (reactor paused).  *)
(*                                                                         *)
(* The A-RELEASE indication sits in the provider's to_user queue until     *)
(* somebody takes it.  WrapperConsumes = TRUE is the design as found:      *)
(* _wrap_handler tests with ACSE.is_release_requested(), which TAKES the   *)
(* indication - the reactor then finds nothing to answer (TLC refutes      *)
(* C07_NeverSwallowed / C07_Answered).  WrapperConsumes = FALSE is the     *)
(* repaired design (a non-consuming test); both properties hold.           *)
(***************************************************************************)
EXTENDS Integers, Sequences, FiniteSets, TLC
CONSTANTS MaxN,              \* most results a handler produces
          WrapperConsumes,   \* does the test inside _wrap_handler take the indication off the queue?
          ReleaseWakesWaiter,\* does an arriving A-RELEASE-RQ end a pending wait for a DIMSE response (as A-ABORT does)?
          SentinelOnlyIfEmpty,\* FALSE (the code): the arriving A-RELEASE-RQ always leaves its wake-up for a pending DIMSE wait; TRUE: only
                             \* when no message is queued at that moment - responses queued ahead are consumed, then the wait hangs (refuted)
          PauseCoversEncode  \* FALSE (the code): a local send pauses the reactor only around the sending and the wait for the
                             \* response, and every exit un-pauses it; TRUE: the pause is taken before the data set is encoded,
                             \* and an encoding failure leaves through an exception that skips the un-pause (refuted)

Services == {"none", "echo", "find", "get", "move", "ascu"}
\* where the association thread (or, for "ascu", the user thread) is
VARIABLES svc, n,            \* the request served and how many results its handler produces
          pc, k,             \* position: "idle" "handler" "prelude" "check" "sub" "final" "between" "ascu_wait" "reactor" "done"; k = result index
          rel,               \* the peer's release request: "none" "queued" "consumed" "answered"
          at,                \* history: position (and index) at which the request arrived
          est,               \* is_established
          tmo,               \* a DIMSE timeout is configured (dimse_timeout is not None)
          enc,               \* C-GET: the data set of the last sub-operation cannot be encoded for the accepted context - that
                             \* sub-operation fails before anything is sent, the operation goes on to its final response
          paused,            \* the reactor is parked by a local send (Association._reactor_checkpoint cleared)
          q,                 \* "ascu": responses to this side's own request that are queued but not yet taken by the (slow) caller
          woke               \* the wake-up of the arriving release request is in the queue
vars == <<svc, n, pc, k, rel, at, est, tmo, enc, paused, q, woke>>

Init == /\ svc \in Services
        /\ n \in 0..MaxN
        /\ (svc \in {"none", "echo", "ascu"} => n = 0)
        /\ (svc \in {"get", "move"} => n >= 1)
        /\ pc = "idle" /\ k = 0 /\ rel = "none" /\ at = <<"never", 0>> /\ est = TRUE /\ tmo \in BOOLEAN
        /\ enc \in BOOLEAN /\ (svc # "get" => enc = FALSE) /\ paused = FALSE
        /\ q \in 0..1 /\ (svc # "ascu" => q = 0) /\ woke = FALSE

\* ---- environment: the peer's A-RELEASE-RQ arrives (once) at any moment before the end ----
PeerRelease == /\ rel = "none" /\ pc \notin {"done"}
               /\ (pc = "idle" => svc = "none")      \* (a peer that releases and then sends a request is not considered)
               /\ rel' = "queued" /\ at' = <<pc, k>>
               /\ woke' = ~(SentinelOnlyIfEmpty /\ q > 0)
               /\ UNCHANGED <<tmo, svc, n, pc, k, est, enc, paused, q>>

\* ---- the request arrives and is dispatched (reactor: get_msg -> _serve_request) ----
Dispatch == /\ pc = "idle"
            /\ pc' = CASE svc = "none" -> "reactor"
                       [] svc = "echo" -> "handler"
                       [] svc = "ascu" -> "ascu_wait"
                       [] svc = "find" -> "check"
                       [] OTHER        -> "prelude"          \* C-GET / C-MOVE handlers first yield the (destination and) number of sub-operations
            /\ k' = IF svc = "find" THEN 1 ELSE 0
            /\ UNCHANGED <<tmo, svc, n, rel, at, est, enc, paused, q, woke>>

\* the C-GET / C-MOVE handler yields its preliminary values (k = 0: before the first one; C-MOVE k = 1: between destination and
\* count); the SCP reads them outside the _wrap_handler loop (C-MOVE then opens the association to the destination)
Prelude == /\ pc = "prelude"
           /\ IF svc = "move" /\ k = 0 THEN pc' = "prelude" /\ k' = 1 ELSE pc' = "check" /\ k' = 1
           /\ UNCHANGED <<tmo, svc, n, rel, at, est, enc, paused, q, woke>>

\* a plain (non-generator) handler runs and its response is sent (P-DATA is legal in Sta8)
Handler == /\ pc = "handler" /\ pc' = "between" /\ UNCHANGED <<tmo, svc, n, k, rel, at, est, enc, paused, q, woke>>

\* _wrap_handler: the handler produces result k (or ends); the "still associated?" test before the yield
Check == /\ pc = "check"
         /\ IF k > n
            THEN pc' = "final" /\ UNCHANGED rel             \* the generator is exhausted: no test after the last result
            ELSE IF rel = "queued"
                 THEN /\ pc' = "final"                          \* loop abandoned; the SCP still sends its final response
                      /\ rel' = IF WrapperConsumes THEN "consumed" ELSE "queued"
                 ELSE /\ pc' = IF svc = "find" THEN "check" ELSE "sub"   \* pending response, or a sub-operation first
                      /\ UNCHANGED rel
         /\ k' = IF pc' = "check" THEN k + 1 ELSE k
         /\ UNCHANGED <<tmo, svc, n, at, est, enc, paused, q, woke>>

\* a C-STORE sub-operation: send_c_store() on this or another association; if the release request arrives
\* meanwhile (this association, C-GET) the wait ends without a response and _handle_no_response leaves it to the reactor
\* (a peer that has sent its release request does not answer the sub-operation any more: the wait for the C-STORE response
\*  on THIS association ends by the DIMSE timeout, or at once if the arriving request wakes the waiter)
WaitEnds == rel # "queued" \/ tmo \/ ReleaseWakesWaiter
EncodeFails == svc = "get" /\ enc /\ k = n
Sub == /\ pc = "sub" /\ ((svc = "get" /\ ~EncodeFails) => WaitEnds) /\ pc' = "check" /\ k' = k + 1
       /\ paused' = (EncodeFails /\ PauseCoversEncode)
       /\ UNCHANGED <<tmo, svc, n, rel, at, est, enc, q, woke>>

Final == /\ pc = "final" /\ pc' = "between" /\ UNCHANGED <<tmo, svc, n, k, rel, at, est, enc, paused, q, woke>>

\* back in the reactor loop between two messages
Between == /\ pc = "between" /\ pc' = "reactor" /\ UNCHANGED <<tmo, svc, n, k, rel, at, est, enc, paused, q, woke>>

\* a user thread of this side waits for the response to its own request with the reactor paused; the wait ends
\* (response, or no message because the release request arrived) and the reactor resumes
AscuWait == /\ pc = "ascu_wait"
            /\ IF q > 0 THEN q' = q - 1 /\ UNCHANGED pc                      \* the caller takes a queued response and waits for the next
               ELSE (rel # "queued" \/ tmo \/ (ReleaseWakesWaiter /\ woke)) /\ pc' = "reactor" /\ UNCHANGED q
            /\ UNCHANGED <<tmo, svc, n, k, rel, at, est, enc, paused, woke>>

\* the reactor's own test: takes the indication and answers it
Reactor == /\ pc = "reactor"
           /\ IF est /\ rel = "queued" /\ ~paused
              THEN rel' = "answered" /\ est' = FALSE /\ pc' = "done"
              ELSE UNCHANGED <<rel, est, pc>>
           /\ UNCHANGED <<svc, n, k, at, tmo, enc, paused, q, woke>>

Next == PeerRelease \/ Dispatch \/ Handler \/ Prelude \/ Check \/ Sub \/ Final \/ Between \/ AscuWait \/ Reactor
Spec == Init /\ [][Next]_vars
FairSpec == Spec /\ WF_vars(Dispatch \/ Handler \/ Prelude \/ Check \/ Sub \/ Final \/ Between \/ AscuWait \/ Reactor)

TypeOK == /\ svc \in Services /\ n \in 0..MaxN /\ k \in 0..(MaxN + 1)
          /\ pc \in {"idle", "handler", "prelude", "check", "sub", "final", "between", "ascu_wait", "reactor", "done"}
          /\ rel \in {"none", "queued", "consumed", "answered"} /\ est \in BOOLEAN /\ tmo \in BOOLEAN /\ enc \in BOOLEAN /\ paused \in BOOLEAN /\ q \in 0..1 /\ woke \in BOOLEAN

\* C07 (safety): nobody but the reactor takes the release indication
C07_NeverSwallowed == rel # "consumed"
\* C07 (liveness): a release request that has arrived is eventually answered and the association ends released
C07_Answered == (rel = "queued") ~> (rel = "answered" /\ ~est)

\* ---- scenario export: every (service, N, arrival point) TLC can reach ----
Export == (rel = "queued" /\ at # <<"never", 0>>) =>
             PrintT(<<"CASE", [svc |-> svc, n |-> n, pos |-> at[1], k |-> at[2], tmo |-> tmo, enc |-> enc, q |-> q]>>)
=============================================================================
