SPECIFICATION TSpec
CONSTANTS Op = "TRACE"
          MaxItems = 0
