---------------------------- MODULE Trace_Stall ----------------------------
(***************************************************************************)
(* C2S for C08: one record per Stall.tla scenario run on the real node     *)
(* (harness/stall_lab.py), taken `bound` seconds (the configured timeouts  *)
(* plus a margin) after the peer stopped sending, while the peer still     *)
(* holds the connection open:                                              *)
(*  o = [id, role, phase, cut, style,                                      *)
(*       returned  - the public call in progress (associate, send_c_echo,  *)
(*                   release) has returned                                 *)
(*       nalive    - association / provider threads still running          *)
(*       sockopen  - the OS socket of the node is still open               *)
(*       established]                                                      *)
(***************************************************************************)
EXTENDS Integers, Sequences, Json, IOUtils, TLC
Obs == ndJsonDeserialize(IOEnv.TRACE)
VARIABLE i
C08v(o) ==
  IF ~o.returned THEN "C08_CallBlocked"
  ELSE IF o.nalive > 0 THEN "C08_ThreadBlocked"
  ELSE IF o.sockopen THEN "C08_SocketOpen"
  ELSE IF o.established THEN "C08_StillEstablished"
  ELSE "ok"
TInit == i = 1
TNext == /\ i <= Len(Obs) /\ PrintT(<<"VERDICT", Obs[i].id, C08v(Obs[i])>>) /\ i' = i + 1
TSpec == TInit /\ [][TNext]_i
=============================================================================
