----------------------------- MODULE Trace_Notify -----------------------------
(***************************************************************************)
(* C2S for C27 (and the per-association clauses of C06): the notification  *)
(* history of one association, as recorded by harness/recorder.py, judged  *)
(* by an observer.  A history is a sequence of events                      *)
(*   [k, a, b, c, d]  with k one of                                        *)
(*   "fsm" (a=state, b=event, c=next, d=action) "open" "close"             *)
(*   "dsent"/"drecv" (a = PDU type of the raw data) "psent"/"precv" (a =   *)
(*   PDU type of the decoded PDU) "requested" "accepted" "rejected"        *)
(*   "established" "released" "aborted".                                   *)
(* o = [id, h, wired (histories created through AE.associate / a server),  *)
(*      peer_recv / peer_sent (PDU types the peer logged, <<>> if unknown),*)
(*      ended, peer_ended, peer_released]                                  *)
(* Output <<"VERDICT", id, c27, c06>>.                                     *)
(***************************************************************************)
EXTENDS ULTable, Sequences, FiniteSets, Json, IOUtils, TLC
Obs == ndJsonDeserialize(IOEnv.TRACE)
VARIABLE i
Idx(h, P(_)) == {j \in 1..Len(h) : P(h[j])}
Kind(h, k) == Idx(h, LAMBDA e : e.k = k)
ConnEv == {"open", "close", "dsent", "drecv", "psent", "precv"}
Types(h, k) == LET S == Kind(h, k) IN [n \in 1..Cardinality(S) |-> h[CHOOSE j \in S : Cardinality({x \in S : x <= j}) = n].a]
\* every transition is the one Table 9-10 prescribes and its next state one the action allows
FsmCellOK(e) == Tbl(e.b, e.a) = e.d /\ e.c \in NextStates(e.b, e.a)
FsmChainOK(h) == LET F == Kind(h, "fsm") IN
   /\ \A j \in F : (\A x \in F : x >= j) => h[j].a = 1                       \* the first transition starts in Sta1
   /\ \A j, x \in F : (j < x /\ \A y \in F : ~(j < y /\ y < x)) => h[x].a = h[j].c
IsPre(u, t) == Len(u) <= Len(t) /\ SubSeq(t, 1, Len(u)) = u
\* a PDU-sent notification reports a PDU whose bytes the transport has just written (same thread: nothing sent in between)
PairedSent(h, j) == \E x \in Kind(h, "dsent") : /\ x < j /\ h[x].a = h[j].a
                                               /\ \A y \in (x + 1)..(j - 1) : h[y].k \notin {"dsent", "psent"}
Orphans(h) == {j \in Kind(h, "psent") : ~PairedSent(h, j)}
SentOK(h) == Orphans(h) = {} /\ Types(h, "psent") = Types(h, "dsent")
\* the one shape listed as a known finding: EVT_PDU_SENT is also fired when the write failed because the peer has
\* already closed the connection - such notifications come after the last successful write only
SendFailedShape(h) == /\ Orphans(h) # {}
                      /\ \A j \in Orphans(h) : \A x \in Kind(h, "dsent") : x < j
                      /\ Cardinality(Kind(h, "psent")) = Cardinality(Kind(h, "dsent")) + Cardinality(Orphans(h))
\* every PDU the state machine acted on was notified as received: the PDU-receipt transitions (Evt19 apart: an invalid PDU may
\* have no decoded form) are, in order, matched by EVT_PDU_RECV notifications of the same PDU types that came before them
RecvType(ev) == CASE ev = 6 -> 1 [] ev = 3 -> 2 [] ev = 4 -> 3 [] ev = 10 -> 4 [] ev = 12 -> 5 [] ev = 13 -> 6 [] ev = 16 -> 7 [] OTHER -> 0
RECURSIVE SubSeqOf(_, _)
SubSeqOf(u, t) == IF u = <<>> THEN TRUE ELSE IF t = <<>> THEN FALSE
                  ELSE IF Head(u) = Head(t) THEN SubSeqOf(Tail(u), Tail(t)) ELSE SubSeqOf(u, Tail(t))
FsmRecvTypes(h) == LET S == {j \in Kind(h, "fsm") : RecvType(h[j].b) # 0} IN
                   [n \in 1..Cardinality(S) |-> RecvType(h[CHOOSE j \in S : Cardinality({x \in S : x <= j}) = n].b)]
C27v(o) == LET h == o.h IN
  IF \E j \in Kind(h, "fsm") : ~FsmCellOK(h[j]) THEN "C27_FsmTable"
  ELSE IF o.wired /\ ~FsmChainOK(h) THEN "C27_FsmChain"
  ELSE IF o.wired /\ Kind(h, "open") # {} /\ \E j \in Idx(h, LAMBDA e : e.k \in ConnEv) : \A x \in Kind(h, "open") : j < x THEN "C27_OpenFirst"
  ELSE IF o.wired /\ Cardinality(Kind(h, "open")) > 1 THEN "C27_OpenOnce"
  ELSE IF o.wired /\ Kind(h, "open") # {} /\ o.ended /\ Cardinality(Kind(h, "close")) # 1 THEN "C27_CloseOnce"
  ELSE IF o.wired /\ Kind(h, "open") # {} /\ \E j \in Kind(h, "close") : \E x \in Idx(h, LAMBDA e : e.k \in ConnEv) : x > j THEN "C27_CloseLast"
  ELSE IF Cardinality(Kind(h, "established")) > 1 THEN "C27_EstablishedOnce"
  ELSE IF \E j \in Kind(h, "established") : \E x \in Kind(h, "released") \cup Kind(h, "aborted") : x < j THEN "C27_EstablishedBeforeEnd"
  ELSE IF o.wired /\ ~SentOK(h) THEN (IF SendFailedShape(h) THEN "C27_PduSentButSendFailed" ELSE "C27_PduSentMatchesWire")
  ELSE IF o.wired /\ o.ended /\ Types(h, "precv") # Types(h, "drecv") THEN "C27_PduRecvMatchesWire"
  ELSE IF o.wired /\ ~SubSeqOf(FsmRecvTypes(h), Types(h, "precv")) THEN "C27_PduRecvMatchesFsm"
  \* what the peer's transport read is what this side's transport wrote: all of it when both ended released,
  \* a prefix of it when the association was aborted or the connection dropped (the rest was never read)
  ELSE IF o.wired /\ o.peer_ended /\ ~IsPre(o.peer_recv, Types(h, "dsent")) THEN "C27_SentMatchesPeer"
  ELSE IF o.wired /\ o.peer_ended /\ o.peer_released /\ Kind(h, "released") # {} /\ o.peer_recv # Types(h, "dsent") THEN "C27_SentMatchesPeer"
  ELSE "ok"
Terminals(h) == Kind(h, "released") \cup Kind(h, "aborted") \cup Kind(h, "rejected")
C06v(o) == LET h == o.h IN
  IF Cardinality(Terminals(h)) > 1 THEN "C06_TerminalOnce"
  ELSE IF o.wired /\ o.ended /\ Kind(h, "requested") # {} /\ Terminals(h) = {} THEN "C06_NoTerminalEvent"
  ELSE "ok"
TInit == i = 1
TNext == /\ i <= Len(Obs) /\ PrintT(<<"VERDICT", Obs[i].id, C27v(Obs[i]), C06v(Obs[i])>>) /\ i' = i + 1
TSpec == TInit /\ [][TNext]_i
=============================================================================
