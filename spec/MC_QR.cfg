SPECIFICATION Spec
CONSTANT MaxDev = 1
INVARIANT Export
INVARIANT L_Universal
INVARIANT L_Monotone
INVARIANT L_ListOne
CHECK_DEADLOCK FALSE
