------------------------------ MODULE CtxGuard ------------------------------
(***************************************************************************)
(* C19: a DIMSE request whose fragments arrive on a presentation context   *)
(* that was not accepted (rejected, never proposed, invalid id) is never   *)
(* handed to a service handler and is not answered as if it were valid.    *)
(*                                                                         *)
(* The association holds a context table; a peer (possibly non-conformant) *)
(* sends the command PDVs on ctxCmd and, for messages with a data set, the *)
(* data PDVs on ctxData.  Three receive paths of the implementation are    *)
(* bound to the single Serve action: the acceptor's reactor, the           *)
(* N-EVENT-REPORT thread, the C-GET/C-MOVE requestor's storage SCP.        *)
(***************************************************************************)
EXTENDS Integers, FiniteSets, TLC

\* request kinds and, per kind k (1..NK), its accepted and rejected context for the same abstract syntax
Kinds == {"ECHO", "STORE", "FIND", "GET", "MOVE", "NGET", "NSET", "NACTION", "NCREATE", "NDELETE", "NEVENT", "SUBSTORE"}
HasData == {"STORE", "FIND", "GET", "MOVE", "NSET", "NACTION", "NCREATE", "NEVENT", "SUBSTORE"}
Idx(k) == CHOOSE n \in 0..11 : <<"ECHO", "STORE", "FIND", "GET", "MOVE", "NGET", "NSET", "NACTION", "NCREATE", "NDELETE", "NEVENT", "SUBSTORE">>[n + 1] = k
Acc(k) == 4 * Idx(k) + 1             \* accepted context for the kind's SOP class
Rej(k) == 4 * Idx(k) + 3             \* same abstract syntax, rejected (transfer syntaxes not supported)
Accepted == {Acc(k) : k \in Kinds}
Rejected == {Rej(k) : k \in Kinds}
Unproposed == {201, 255}
InvalidIds == {0, 2, 100}
Ids == Accepted \cup Rejected \cup Unproposed \cup InvalidIds

VARIABLES kind, ctxCmd, ctxData, invoked, answered, aborted, done
vars == <<kind, ctxCmd, ctxData, invoked, answered, aborted, done>>

\* the peer's choices: any kind, command on any interesting id, data on the same id or on the kind's accepted id
Init == /\ kind \in Kinds
        /\ ctxCmd \in {Acc(kind), Rej(kind), 201, 255, 0, 2, 100} \cup {Acc("ECHO"), Rej("ECHO")}
        /\ ctxData \in (IF kind \in HasData THEN {ctxCmd, Acc(kind), Rej(kind)} ELSE {ctxCmd})
        /\ invoked = FALSE /\ answered = FALSE /\ aborted = FALSE /\ done = FALSE

OnAccepted == ctxCmd \in Accepted /\ ctxData \in Accepted
\* the design: serve only what arrived wholly on accepted contexts; otherwise end the association
Serve == /\ ~done /\ done' = TRUE
         /\ IF OnAccepted /\ ctxCmd = ctxData THEN invoked' = (ctxCmd = Acc(kind)) /\ answered' = TRUE /\ aborted' = FALSE
            ELSE invoked' = FALSE /\ answered' = FALSE /\ aborted' = TRUE
         /\ UNCHANGED <<kind, ctxCmd, ctxData>>
Next == Serve
Spec == Init /\ [][Next]_vars

\* ---- property predicates (shared with Trace_CtxGuard through the same definitions) ----
\* the context a request "arrives on" is the one of its command set (the data fragments of a
\* conformant peer carry the same id; a mislabelled data fragment is observed, not judged)
NotAcceptedP(accepted, c, d) == c \notin accepted
C19_NoHandlerP(accepted, c, d, inv) == NotAcceptedP(accepted, c, d) => ~inv
C19_NotAnsweredP(accepted, c, d, ans) == NotAcceptedP(accepted, c, d) => ~ans
C19_NoHandler == C19_NoHandlerP(Accepted, ctxCmd, ctxData, invoked)
C19_NotAnswered == C19_NotAnsweredP(Accepted, ctxCmd, ctxData, answered)
Export == done => PrintT(<<"CASE", kind, ctxCmd, ctxData>>)
=============================================================================
