------------------------------- MODULE Dimse -------------------------------
(***************************************************************************)
(* DIMSE message transfer (C15, C16) as PS3.7 6.3.1 / PS3.8 Annex E define *)
(* it: a message is a command set followed by an optional data set, each   *)
(* split into fragments (PDVs); PDVs travel in P-DATA-TF PDUs whose PDV     *)
(* list must not exceed the receiver's maximum length; the receiver         *)
(* reassembles whatever the grouping of PDVs into PDUs is.                  *)
(*                                                                         *)
(* Bytes are abstract positions 1..n.  The sender is the specification of   *)
(* the fragmenter, the channel may regroup consecutive PDVs into PDUs       *)
(* arbitrarily (within the maximum), the receiver concatenates.             *)
(***************************************************************************)
EXTENDS DimsePred, TLC

CONSTANTS CmdLens,    \* command set lengths explored
          DataLens,   \* data set lengths explored (0 = no data set)
          Maxes       \* maximum lengths explored (0 = unlimited)

Overhead == 6                           \* item length (4) + context id (1) + message control header (1)
Chunk(max, n) == IF max = 0 THEN (IF n = 0 THEN 1 ELSE n) ELSE max - Overhead
CeilDiv(a, b) == (a + b - 1) \div b
NFrag(max, n) == IF n = 0 THEN 0 ELSE CeilDiv(n, Chunk(max, n))
FragLen(max, n, i) == IF i < NFrag(max, n) THEN Chunk(max, n) ELSE n - (NFrag(max, n) - 1) * Chunk(max, n)

\* a PDV: [cmd |-> is command information, last |-> last fragment, from, to |-> byte positions]
Pdv(cmd, last, a, b) == [cmd |-> cmd, last |-> last, from |-> a, to |-> b]

VARIABLES c, d, max, phase, pdvs, pdus, rxCmd, rxData, rxDone, rxPos
vars == <<c, d, max, phase, pdvs, pdus, rxCmd, rxData, rxDone, rxPos>>

Init == /\ c \in CmdLens /\ d \in DataLens /\ max \in Maxes
        /\ phase = "cmd" /\ pdvs = <<>> /\ pdus = <<>>
        /\ rxCmd = 0 /\ rxData = 0 /\ rxDone = FALSE /\ rxPos = 0

Sent(cmd) == LET S == {i \in 1..Len(pdvs) : pdvs[i].cmd = cmd} IN Cardinality(S)
\* the sender emits the next fragment of the part it is in
SendFrag ==
  /\ phase \in {"cmd", "data"}
  /\ LET isCmd == phase = "cmd"
         n == IF isCmd THEN c ELSE d
         i == Sent(isCmd) + 1
         a == (i - 1) * Chunk(max, n) + 1
         b == a + FragLen(max, n, i) - 1
         last == i = NFrag(max, n)
     IN /\ pdvs' = Append(pdvs, Pdv(isCmd, last, a, b))
        /\ phase' = IF ~last THEN phase ELSE IF isCmd /\ d > 0 THEN "data" ELSE "group"
  /\ UNCHANGED <<c, d, max, pdus, rxCmd, rxData, rxDone, rxPos>>

\* Receiving side: a peer may pack consecutive PDVs into one P-DATA-TF in any way (its packing is
\* bounded by the maximum pynetdicom advertised, which is unrelated to `max`, the peer's own limit
\* that pynetdicom's sender honours with one PDV per PDU)
PduLen(q) == LET RECURSIVE S(_)
                 S(j) == IF j = 0 THEN 0 ELSE S(j - 1) + Overhead + (q[j].to - q[j].from + 1)
             IN S(Len(q))
Packed == LET RECURSIVE S(_)
              S(j) == IF j = 0 THEN 0 ELSE S(j - 1) + Len(pdus[j])
          IN S(Len(pdus))
Group(k) ==
  /\ phase = "group" /\ Packed + k <= Len(pdvs) /\ k >= 1
  /\ (Len(pdvs) <= 7 \/ k = 1)      \* all regroupings for short messages; long ones one PDV per PDU (the harness adds fixed patterns)
  /\ LET q == SubSeq(pdvs, Packed + 1, Packed + k) IN
       /\ pdus' = Append(pdus, q)
  /\ phase' = IF Packed + k = Len(pdvs) THEN "recv" ELSE phase
  /\ UNCHANGED <<c, d, max, pdvs, rxCmd, rxData, rxDone, rxPos>>

\* the receiver consumes one PDU: concatenates command / data fragments in arrival order
Apply(q, st) == LET RECURSIVE A(_)
                    A(j) == IF j = 0 THEN st
                            ELSE LET p == A(j - 1) v == q[j] n == v.to - v.from + 1 IN
                                 IF v.cmd THEN [p EXCEPT !.cmd = @ + n, !.done = IF v.last /\ d = 0 THEN TRUE ELSE @]
                                 ELSE [p EXCEPT !.data = @ + n, !.done = IF v.last THEN TRUE ELSE @]
                IN A(Len(q))
Receive ==
  /\ phase = "recv" /\ rxPos < Len(pdus)
  /\ LET r == Apply(pdus[rxPos + 1], [cmd |-> rxCmd, data |-> rxData, done |-> rxDone]) IN
       rxCmd' = r.cmd /\ rxData' = r.data /\ rxDone' = r.done
  /\ rxPos' = rxPos + 1
  /\ phase' = IF rxPos + 1 = Len(pdus) THEN "done" ELSE phase
  /\ UNCHANGED <<c, d, max, pdvs, pdus>>

Next == SendFrag \/ (\E k \in 1..4 : Group(k)) \/ Receive
Spec == Init /\ [][Next]_vars

\* model invariants
AsLen(q) == [i \in 1..Len(q) |-> [cmd |-> q[i].cmd, last |-> q[i].last, len |-> q[i].to - q[i].from + 1]]
C15_MaxLen == C15_MaxLenP([i \in 1..Len(pdvs) |-> PduLen(<<pdvs[i]>>)], max)    \* the sender puts one PDV in each PDU
C15_Order == C15_OrderP(AsLen(pdvs))
C15_LastFlags == phase \in {"group", "recv", "done"} => C15_LastFlagsP(AsLen(pdvs))
C15_Contiguous == \A i \in 1..Len(pdvs) : pdvs[i].from <= pdvs[i].to       \* no empty fragment
C15_Reassembly == phase = "done" => (rxDone /\ rxCmd = c /\ rxData = d)
C16_Flag == phase \in {"group", "recv", "done"} => C16_FlagP(d > 0, AsLen(pdvs))
\* every PDV fits a PDU on its own, so some grouping always exists
C15_CanGroup == phase = "group" => (max = 0 \/ \A i \in 1..Len(pdvs) : Overhead + (pdvs[i].to - pdvs[i].from + 1) <= max)
Export == phase = "done" => PrintT(<<"CASE", c, d, max, AsLen(pdvs), [i \in 1..Len(pdus) |-> Len(pdus[i])]>>)
=============================================================================
