SPECIFICATION TSpec
