SPECIFICATION Spec
CONSTANTS CatchNotifications = FALSE
          LogSafe = TRUE
          Script <- MCScript
          Flavours <- MCFlavours
          Handlers = 2
          Continue = "skip"
INVARIANT C26_SameExchange
INVARIANT C26_Contained
INVARIANT C26_Completes
CHECK_DEADLOCK FALSE
