--------------------------- MODULE Trace_StorePath ---------------------------
(* C2S for C30: o = [id, dir, db, touched] (component sequences relative to the sandbox root) *)
EXTENDS StorePath, Json, IOUtils
Obs == ndJsonDeserialize(IOEnv.TRACE)
VARIABLE i
C30v(o) == IF ~C30_InsideP(o.dir, o.db, o.touched) THEN "C30_Outside" ELSE "ok"
TInit == i = 1 /\ uid = <<"1">> /\ field = "SOPInstanceUID" /\ sop = "prefixed" /\ known = "new"
TNext == /\ i <= Len(Obs) /\ PrintT(<<"VERDICT", Obs[i].id, C30v(Obs[i])>>) /\ i' = i + 1 /\ UNCHANGED <<uid, field, sop, known>>
TSpec == TInit /\ [][TNext]_<<i, uid, field, sop, known>>
=============================================================================
