------------------------------ MODULE Trace_Store ------------------------------
(* C2S for C25: o = [id, may_refuse, refused, views] where views is a sequence of [name, equal]: what the peer's handler (or the  *)
(* requesting caller) saw through each accessor, compared with the original by the harness oracle.           *)
EXTENDS Integers, Sequences, Json, IOUtils, TLC
Obs == ndJsonDeserialize(IOEnv.TRACE)
VARIABLE i
Bad(o) == {k \in 1..Len(o.views) : ~o.views[k].equal}
\* (refused: the sender raised before sending anything - allowed only where the configuration says a refusal is an answer)
C25v(o) == IF Len(o.views) = 0 THEN (IF o.may_refuse /\ o.refused THEN "ok" ELSE "C25_NotDelivered")
           ELSE IF Bad(o) # {} THEN o.views[CHOOSE k \in Bad(o) : \A j \in Bad(o) : k <= j].name
           ELSE "ok"
TInit == i = 1
TNext == /\ i <= Len(Obs) /\ PrintT(<<"VERDICT", Obs[i].id, C25v(Obs[i])>>) /\ i' = i + 1
TSpec == TInit /\ [][TNext]_i
=============================================================================
