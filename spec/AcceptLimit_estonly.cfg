SPECIFICATION Spec
CONSTANTS Threads = {1, 2, 3}
          Max = 1
          CountWhat = "established"
          Servers = {1}
          MaxRestarts = 0
          Bad = {}
          MaxLen = 40
VIEW View
INVARIANT C14_Bound
INVARIANT C14_BoundCommitted
INVARIANT C14_Reason
INVARIANT NoNeedlessReject
INVARIANT Export
CHECK_DEADLOCK FALSE
