------------------------------- MODULE Mutate -------------------------------
(***************************************************************************)
(* C02 input generator: for a few base PDUs (built with PduLayout), the    *)
(* conformant variants PS3.8 allows (reserved bytes "not tested when       *)
(* received", protocol-version bits other than bit 0) and systematic       *)
(* mutations (truncation and extension at every offset, byte substitution  *)
(* at every offset, PDU and item length fields off by one / zero / huge,   *)
(* unknown PDU and item types).  Also the receive-path classification      *)
(* (which events a byte string followed by end-of-stream may produce).     *)
(***************************************************************************)
EXTENDS PduLayout, PduLeaves, TLC, Json, IOUtils, SequencesExt

\* ---- classification (PS3.8 9.3, Table 9-10 events) -------------------------------------------
EvtOf(t) == CASE t = 1 -> 6 [] t = 2 -> 3 [] t = 3 -> 4 [] t = 4 -> 10 [] t = 5 -> 12 [] t = 6 -> 13 [] t = 7 -> 16
Rd32(b, i) == b[i] * 16777216 + b[i + 1] * 65536 + b[i + 2] * 256 + b[i + 3]
\* events the first framing step may queue for input b followed by end-of-stream, and how many bytes it consumes
FirstStep(b) ==
  IF Len(b) < 6 THEN [events |-> {17}, used |-> Len(b)]
  ELSE IF b[1] \notin 1..7 THEN [events |-> {19}, used |-> 6]
  ELSE IF b[3] >= 64 \/ Len(b) - 6 < Rd32(b, 3) THEN [events |-> {17}, used |-> Len(b)]
  ELSE [events |-> {EvtOf(b[1]), 19}, used |-> 6 + Rd32(b, 3)]

\* ---- conformant variants ---------------------------------------------------------------------------
RECURSIVE RebuildAll(_, _)
ItemR(it, x) ==
  LET b == it.body
      body2 == CASE it.t = 32 /\ Len(b) >= 4 -> <<b[1], x, x, x>> \o RebuildAll(SplitItems(SubSeq(b, 5, Len(b))), x)
                 [] it.t = 33 /\ Len(b) >= 4 -> <<b[1], x, b[3], x>> \o RebuildAll(SplitItems(SubSeq(b, 5, Len(b))), x)
                 [] it.t = 80 -> RebuildAll(SplitItems(b), x)
                 [] OTHER -> b
  IN <<it.t, IF it.t = 87 THEN 0 ELSE x>> \o U16(Len(body2)) \o body2      \* 0x57 byte 2 is the sub-item version, not reserved
RebuildAll(items, x) == IF items = <<>> THEN <<>> ELSE ItemR(Head(items), x) \o RebuildAll(Tail(items), x)
\* reserved bytes := x, protocol version := pv
Variant(b, x, pv) ==
  CASE b[1] \in {1, 2} -> LET body == U16(pv) \o <<x, x>> \o SubSeq(b, 11, 42) \o Rep(x, 32) \o RebuildAll(VarItems(b), x)
                          IN <<b[1], x>> \o U32(Len(body)) \o body
    [] b[1] = 3 -> <<3, x>> \o SubSeq(b, 3, 6) \o <<x>> \o SubSeq(b, 8, 10)
    [] b[1] \in {5, 6} -> <<b[1], x>> \o SubSeq(b, 3, 6) \o <<x, x, x, x>>
    [] b[1] = 7 -> <<7, x>> \o SubSeq(b, 3, 6) \o <<x, x>> \o SubSeq(b, 9, 10)
    [] OTHER -> <<b[1], x>> \o SubSeq(b, 3, Len(b))

\* ---- mutations ------------------------------------------------------------------------------------------
Subst(b, i, x) == [b EXCEPT ![i] = x]
SetLen32(b, n) == SubSeq(b, 1, 2) \o U32(n) \o SubSeq(b, 7, Len(b))
\* offsets (1-based) of the 2-byte length fields of the top-level variable items of an A-ASSOCIATE-RQ/AC
RECURSIVE ItemLenOffsets(_, _)
ItemLenOffsets(b, at) == IF at + 3 > Len(b) THEN {} ELSE {at + 2} \cup ItemLenOffsets(b, at + 4 + Rd16(b, at + 2))
SetLen16(b, at, n) == SubSeq(b, 1, at - 1) \o U16(n) \o SubSeq(b, at + 2, Len(b))

\* positions (1-based) of the item-type bytes of an A-ASSOCIATE-RQ/AC: the top-level variable items, the sub-items of the
\* user information item (0x50) and those of the presentation context items (0x20 / 0x21)
RECURSIVE SubOffsets(_, _, _)
SubOffsets(b, at, end) == IF at + 3 > end \/ at + 3 > Len(b) THEN {} ELSE {at} \cup SubOffsets(b, at + 4 + Rd16(b, at + 2), end)
TopOffsets(b) == {o - 2 : o \in ItemLenOffsets(b, 75)}
TypeOffsets(b) == TopOffsets(b)
                  \cup UNION {IF b[o] = 80 THEN SubOffsets(b, o + 4, o + 3 + Rd16(b, o + 2))
                              ELSE IF b[o] \in {32, 33} THEN SubOffsets(b, o + 8, o + 3 + Rd16(b, o + 2)) ELSE {} : o \in TopOffsets(b)}
\* the item types PS3.8 / PS3.7 define (0x10 0x20 0x21 0x30 0x40 0x50 .. 0x59)
ItemTypes == {16, 32, 33, 48, 64} \cup (80..89)

Mut(op, b) == [op |-> op, bytes |-> b]
Mutants(b) ==
  {Mut("trunc", SubSeq(b, 1, k)) : k \in 0..(Len(b) - 1)}
  \cup {Mut("extend", b \o Rep(170, k)) : k \in {1, 5, 6, 8}}
  \cup {Mut("subst", Subst(b, i, x)) : i \in 1..Len(b), x \in {0, 255}}
  \cup {Mut("flip", Subst(b, i, (b[i] + 128) % 256)) : i \in 1..Len(b)}
  \cup {Mut("pdulen", SetLen32(b, n)) : n \in {0, 1, Len(b) - 7, Len(b) - 5, 65536, 2147483647}}
  \cup {Mut("pdutype", Subst(b, 1, t)) : t \in {0, 8, 9, 255}}
  \cup (IF b[1] \in {1, 2} /\ Len(b) > 74
        THEN {Mut("itemlen", SetLen16(b, at, n)) : at \in ItemLenOffsets(b, 75), n \in {0, 1, 65535}}
             \cup {Mut("itemlen", SetLen16(b, at, Rd16(b, at) + d)) : at \in ItemLenOffsets(b, 75), d \in {-1, 1}}
             \* item type confusion: a well-formed item carrying the type of another kind of item
             \cup UNION {{Mut("itemtype", Subst(b, o, t)) : t \in ItemTypes \ {b[o]}} : o \in TypeOffsets(b)}
        ELSE {})
Variants(b) == {[op |-> "variant", bytes |-> Variant(b, x, pv), rsv |-> x, pv |-> pv] : x \in {0, 255, 1}, pv \in (IF b[1] \in {1, 2} THEN {1, 3, 65535, 32769} ELSE {1})}

\* ---- base PDUs -----------------------------------------------------------------------------------------------
Rq1 == [pdu |-> "RQ", called |-> AeMid, calling |-> AeA, appctx |-> UAppCtx,
        contexts |-> <<[id |-> 1, ab |-> UVerif, ts |-> <<UImplLE>>], [id |-> 3, ab |-> UCT, ts |-> <<UExplLE, UImplLE>>]>>,
        userinfo |-> <<[k |-> "maxlen", n |-> 16382], [k |-> "implcls", uid |-> UImpl], [k |-> "implver", name |-> VerName]>>]
Rq2 == [Rq1 EXCEPT !.userinfo = @ \o <<[k |-> "role", uid |-> UCT, scu |-> 1, scp |-> 1], [k |-> "async", invoked |-> 2, performed |-> 3],
                                       [k |-> "sopext", uid |-> UCT, info |-> <<1, 0>>], [k |-> "common", uid |-> UCT, svc |-> USvc, related |-> <<UVerif>>],
                                       [k |-> "uidrq", type |-> 2, positive |-> 1, primary |-> <<117>>, secondary |-> <<112>>]>>]
\* a complete C-ECHO-RQ (command set generated from the DIMSE layer, last command fragment)
Pd1 == [pdu |-> "PDATA", pdvs |-> <<[ctx |-> 1, hdr |-> 3, data |-> <<0, 0, 0, 0, 4, 0, 0, 0, 56, 0, 0, 0, 0, 0, 2, 0, 18, 0, 0, 0, 49, 46, 50, 46, 56, 52, 48, 46, 49, 48, 48, 48, 56, 46, 49, 46, 49, 0, 0, 0, 0, 1, 2, 0, 0, 0, 48, 0, 0, 0, 16, 1, 2, 0, 0, 0, 1, 0, 0, 0, 0, 8, 2, 0, 0, 0, 1, 1>>]>>]
Bases == <<[name |-> "rq_plain", v |-> Rq1], [name |-> "rq_full", v |-> Rq2], [name |-> "pdata", v |-> Pd1],
           [name |-> "relrq", v |-> [pdu |-> "RELRQ"]], [name |-> "abort", v |-> [pdu |-> "ABORT", source |-> 0, reason |-> 0]],
           [name |-> "rj", v |-> [pdu |-> "RJ", result |-> 1, source |-> 1, reason |-> 3]]>>

Inputs == UNION {{[base |-> Bases[k].name, op |-> m.op, bytes |-> m.bytes, conformant |-> FALSE, events |-> SetToSeq(FirstStep(m.bytes).events), used |-> FirstStep(m.bytes).used, rsv |-> 0, pv |-> 1]
                   : m \in Mutants(Bytes(Bases[k].v))} : k \in 1..Len(Bases)}
          \cup UNION {{[base |-> Bases[k].name, op |-> m.op, bytes |-> m.bytes, conformant |-> TRUE, events |-> <<EvtOf(m.bytes[1])>>, used |-> Len(m.bytes), rsv |-> m.rsv, pv |-> m.pv]
                   : m \in Variants(Bytes(Bases[k].v))} : k \in 1..Len(Bases)}

VARIABLE v
DumpInit == ndJsonSerialize(IOEnv.OUT, SetToSeq(Inputs)) /\ v = 0
DumpSpec == DumpInit /\ [][FALSE /\ v' = v]_v
BasesSpec == (ndJsonSerialize(IOEnv.OUT, Bases) /\ v = 0) /\ [][FALSE /\ v' = v]_v
\* lemmas: a variant with reserved bytes 0 and version 1 is the original; variants keep all lengths
L_VariantIdentity == \A k \in 1..Len(Bases) : Variant(Bytes(Bases[k].v), 0, 1) = Bytes(Bases[k].v)
L_VariantLength == \A k \in 1..Len(Bases) : \A m \in Variants(Bytes(Bases[k].v)) : Len(m.bytes) = Len(Bytes(Bases[k].v))
ASSUME L_VariantIdentity /\ L_VariantLength
=============================================================================
