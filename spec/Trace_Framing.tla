---------------------------- MODULE Trace_Framing ----------------------------
(* C2S for C03: o = [id, lens (frame lengths), w (bytes the peer wrote), closed, delivered (frame numbers in  *)
(* the order pynetdicom reported them), ev17, ev19 (transport-closed / invalid-PDU events seen), intact]      *)
EXTENDS Integers, Sequences, FiniteSets, Json, IOUtils, TLC
Obs == ndJsonDeserialize(IOEnv.TRACE)
VARIABLE i
EndOfL(lens, k) == LET RECURSIVE S(_) S(j) == IF j = 0 THEN 0 ELSE S(j - 1) + lens[j] IN S(k)
Whole(o) == {k \in 1..Len(o.lens) : EndOfL(o.lens, k) <= o.w}
C03v(o) ==
  IF o.delivered # [k \in 1..Len(o.delivered) |-> k] THEN "C03_Order"
  ELSE IF Len(o.delivered) # Cardinality(Whole(o)) THEN "C03_Prefix"
  ELSE IF ~o.intact THEN "C03_Content"
  ELSE IF o.closed /\ o.w < EndOfL(o.lens, Len(o.lens)) /\ o.ev19 THEN "C03_TruncatedAsInvalid"
  ELSE IF o.closed /\ o.w < EndOfL(o.lens, Len(o.lens)) /\ ~o.ev17 THEN "C03_CloseNotReported"
  ELSE IF ~o.closed /\ o.ev17before THEN "C03_SpuriousClose"
  ELSE "ok"
TInit == i = 1
TNext == /\ i <= Len(Obs) /\ PrintT(<<"VERDICT", Obs[i].id, C03v(Obs[i])>>) /\ i' = i + 1
TSpec == TInit /\ [][TNext]_i
=============================================================================
