SPECIFICATION TSpec
