SPECIFICATION Spec
CONSTANTS Nodes <- MCNodes
          Role <- MCRole
          Other <- MCOther
          Adversary = TRUE
          PeerFrames <- MCFrames
          MaxPeer = 3
          MaxTick = 1
          UserOps <- MCUserOps
          MaxOps = 1
          Policy <- MCPolicy
          HandlerAbort <- MCHandlerAbort
          KnownCrash <- MCKnown
VIEW View
INVARIANT C05_DefinedEventsOnly
INVARIANT C05_DoneImpliesIdle
