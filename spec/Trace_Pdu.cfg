SPECIFICATION TSpec
