SPECIFICATION TSpec
