SPECIFICATION FairSpec
CONSTANTS RecvDeadline = TRUE
          ArtimEveryLoop = FALSE
          ServerHandshakeDeadline = TRUE
          Dribbles = 2
INVARIANT TypeOK
PROPERTY C08_Ends
CHECK_DEADLOCK FALSE
