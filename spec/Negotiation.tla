---------------------------- MODULE Negotiation ----------------------------
(***************************************************************************)
(* C10 / C11 as a model-checking question about two tables: the acceptor's *)
(* negotiation (ExpAc) and the requestor's reading of the reply (ExpRq)    *)
(* must always leave both sides with the same accepted contexts and        *)
(* complementary roles.  TLC enumerates every proposal x support x role    *)
(* combination of the bounded domain (initial states) and runs the         *)
(* three-step exchange  Propose -> Accept -> View.                         *)
(***************************************************************************)
EXTENDS NegotiationOps, TLC

CONSTANTS MaxCx        \* number of proposed contexts (1 or 2)

Abs == {"A", "B"}
\* (two proposed contexts: three transfer syntax lists keep the domain at 423 360 cases - with four it is 1.3 million cases,
\*  which TLC does not finish within the thorough tier's time)
TSLists == IF MaxCx = 1 THEN {<<"T1">>, <<"T2">>, <<"T1", "T2">>, <<"T2", "T1">>} ELSE {<<"T1">>, <<"T1", "T2">>, <<"T2", "T1">>}
Tri == {"N", "T", "F"}
SupOpts == {<<>>} \cup {<<[ts |-> t, scu |-> u, scp |-> p]>> : t \in TSLists, u \in Tri, p \in Tri}
RoleOpts == {<<>>} \cup {<<[scu |-> u, scp |-> p]>> : u \in BOOLEAN, p \in BOOLEAN}
WithAb(q, ab) == [j \in 1..Len(q) |-> [ab |-> ab] @@ q[j]]

Cases ==
  {[proposed |-> pr, supported |-> WithAb(sa, "A") \o WithAb(sb, "B"), roles |-> WithAb(ra, "A") \o WithAb(rb, "B"),
    mode |-> "normal", storage |-> <<>>] :
      pr \in UNION {{[j \in 1..n |-> [id |-> 2 * j - 1, ab |-> f[j][1], ts |-> f[j][2]]] : f \in [1..n -> Abs \X TSLists]} : n \in {MaxCx}},
      sa \in SupOpts, sb \in (IF MaxCx = 1 THEN {<<>>, <<[ts |-> <<"T1">>, scu |-> "T", scp |-> "T"]>>} ELSE SupOpts),
      ra \in RoleOpts, rb \in (IF MaxCx = 1 THEN {<<>>} ELSE {<<>>, <<[scu |-> TRUE, scp |-> TRUE]>>, <<[scu |-> FALSE, scp |-> TRUE]>>})}

VARIABLES c, pc, acView, wire, rqView
vars == <<c, pc, acView, wire, rqView>>

Init == c \in Cases /\ pc = "proposed" /\ acView = <<>> /\ wire = <<>> /\ rqView = <<>>

Accept == /\ pc = "proposed"
          /\ acView' = [j \in 1..Len(c.proposed) |-> ExpAc(c, c.proposed[j])]
          /\ wire' = [j \in 1..Len(c.proposed) |->
                        LET e == ExpAc(c, c.proposed[j]) IN
                        [result |-> e.result,
                         reply |-> IF e.hasReply THEN [present |-> TRUE] @@ ExpReply(c, c.proposed[j])
                                   ELSE [present |-> FALSE, scu |-> FALSE, scp |-> FALSE]]]
          /\ pc' = "answered" /\ UNCHANGED <<c, rqView>>

\* the role reply is per abstract syntax: with duplicated abstract syntaxes the requestor sees the
\* reply of whichever accepted context carried one
ReplyFor(ab) == LET S == {j \in 1..Len(c.proposed) : c.proposed[j].ab = ab /\ wire[j].reply.present} IN
                IF S = {} THEN [present |-> FALSE, scu |-> FALSE, scp |-> FALSE] ELSE wire[CHOOSE j \in S : TRUE].reply
View == /\ pc = "answered"
        /\ rqView' = [j \in 1..Len(c.proposed) |-> ExpRq(c, c.proposed[j], wire[j], ReplyFor(c.proposed[j].ab))]
        /\ pc' = "done" /\ UNCHANGED <<c, acView, wire>>

Next == Accept \/ View
Spec == Init /\ [][Next]_vars

Done == pc = "done"
AcceptedA == {j \in 1..Len(acView) : acView[j].result = 0}
AcceptedR == {j \in 1..Len(rqView) : rqView[j].result = 0}
C11_Once == Done => Len(rqView) = Len(c.proposed)
C11_SameAccepted == Done => AcceptedA = AcceptedR
C11_Complementary == Done => \A j \in AcceptedR : rqView[j].asSCU = acView[j].asSCP /\ rqView[j].asSCP = acView[j].asSCU
C10_UsableRole == pc # "proposed" => \A j \in AcceptedA : acView[j].asSCU \/ acView[j].asSCP
C10_ReplyWithinProposal == pc # "proposed" => \A j \in 1..Len(wire) : wire[j].reply.present =>
     (wire[j].reply.scu => RqRole(c, c.proposed[j].ab).scu) /\ (wire[j].reply.scp => RqRole(c, c.proposed[j].ab).scp)
C10_AcceptedTsCommon == pc # "proposed" => \A j \in AcceptedA : acView[j].ts \subseteq (Range(c.proposed[j].ts) \cap Range(Sup(c, c.proposed[j]).ts))
ExportCase == Done => PrintT(<<"CASE", c>>)
ASSUME ClosedFormMatchesDoc
=============================================================================
