----------------------------- MODULE DimsePred -----------------------------
(* Property predicates of C15 / C16 over a sequence of PDVs, shared by Dimse.tla (model) and    *)
(* Trace_Dimse.tla (observed PDV sequences).  q: sequence of [cmd, last, len].                  *)
EXTENDS Integers, Sequences, FiniteSets

\* q: sequence of PDVs [cmd, last, len]; lens in bytes of fragment data
C15_MaxLenP(pduLens, m) == m = 0 \/ \A i \in 1..Len(pduLens) : pduLens[i] <= m
C15_OrderP(q) == \A i, j \in 1..Len(q) : (i < j /\ q[j].cmd) => q[i].cmd
C15_LastFlagsP(q) ==
  LET C == {i \in 1..Len(q) : q[i].cmd}  D == {i \in 1..Len(q) : ~q[i].cmd} IN
  /\ C # {} /\ \A i \in C : q[i].last = (\A j \in C : j <= i)
  /\ \A i \in D : q[i].last = (\A j \in D : j <= i)
\* C16: the command set announces a data set exactly when data-set fragments are sent
C16_FlagP(announces, q) == announces = (\E i \in 1..Len(q) : ~q[i].cmd)

=============================================================================
