----------------------------- MODULE Trace_Bytes -----------------------------
(* C2S for C02: what the real provider did with one input, judged against Mutate's classification.        *)
(* o = [id, conformant, allowed (event numbers the framing step may queue), first (first FSM event seen    *)
(*      after the input, 0 = none), escaped, hung, decoded, stable, accepted_equal]                        *)
EXTENDS Integers, Sequences, Json, IOUtils, TLC
Obs == ndJsonDeserialize(IOEnv.TRACE)
VARIABLE i
SetOf(q) == {q[j] : j \in 1..Len(q)}
C02v(o) ==
  IF o.escaped THEN "C02_Escaped"
  ELSE IF o.hung THEN "C02_Hung"
  ELSE IF o.first # 0 /\ o.first \notin SetOf(o.allowed) THEN "C02_Classification"
  ELSE IF o.first = 0 /\ 17 \notin SetOf(o.allowed) /\ ~o.conformant THEN "C02_NoReaction"
  \* (a PDU that was decoded but then classified as invalid - Evt19 - or met a closed connection - Evt17 - is covered by
  \*  the property's second alternative; stability is required of the values that are accepted)
  ELSE IF o.decoded /\ ~o.stable /\ o.first \notin {17, 19} THEN "C02_Unstable"
  ELSE IF o.conformant /\ (o.first \notin SetOf(o.allowed) \/ ~o.decoded \/ ~o.accepted_equal) THEN "C02_RejectedConformant"
  ELSE "ok"
TInit == i = 1
TNext == /\ i <= Len(Obs) /\ PrintT(<<"VERDICT", Obs[i].id, C02v(Obs[i])>>) /\ i' = i + 1
TSpec == TInit /\ [][TNext]_i
=============================================================================
