SPECIFICATION Spec
CONSTANT Quick = TRUE
INVARIANT C25_Bytes
INVARIANT Export
