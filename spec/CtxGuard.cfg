SPECIFICATION Spec
INVARIANT C19_NoHandler
INVARIANT C19_NotAnswered
INVARIANT Export
