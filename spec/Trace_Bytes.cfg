SPECIFICATION TSpec
