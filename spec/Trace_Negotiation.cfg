SPECIFICATION TSpec
