SPECIFICATION Spec
CONSTANT MaxTokens = 4
INVARIANT Export
