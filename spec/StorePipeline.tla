---------------------------- MODULE StorePipeline ----------------------------
(***************************************************************************)
(* C25: a dataset sent by one application entity is presented to the       *)
(* peer's handler equal to the original, whatever the transfer syntax,     *)
(* maximum PDU size and storage mode.  The pipeline                        *)
(*   Encode(ts) -> Fragment(max) -> Wire -> Reassemble(memory | temp file) *)
(*   -> Access(decoded | raw bytes | file)                                 *)
(* (or refused: nothing delivered, for a stored data set that would need a *)
(* conversion the sending mode cannot do) is modelled on an abstract payload (a sequence of byte positions): each *)
(* stage must be the identity on the encoded bytes.  TLC enumerates the    *)
(* configuration vectors; each is one initial state.                       *)
(***************************************************************************)
EXTENDS Integers, Sequences, FiniteSets, TLC

CONSTANT Quick
Ops == {"STORE", "STORE_FILE", "GETSUB", "FIND_RQ", "FIND_RSP", "GET_RQ", "MOVE_RQ", "NSET", "NCREATE", "NACTION", "NEVENT", "NGET_RSP"}
TSs == {"implicit", "explicit", "bigendian", "deflated"}
MaxPdus == IF Quick THEN {0, 128, 16382} ELSE {0, 7, 128, 1030, 16382, 131072}
\* ("deflatetail": a data set chosen so that its deflate stream has even length and ends in a 00 byte that carries data - the
\*  byte a reader must not mistake for padding)
Shapes == IF Quick THEN {"small", "vrmix", "nested", "private", "empty", "oddlen", "big20k", "deflatetail"}
          ELSE {"small", "vrmix", "nested", "private", "empty", "oddlen", "big20k", "longstr", "multi", "big1m", "deflatetail"}
StoreOps == {"STORE", "STORE_FILE", "GETSUB"}

VARIABLES cfg, stage, payload
vars == <<cfg, stage, payload>>
\* dsts: the data set being stored is itself encoded in the context's transfer syntax ("same"), or in another uncompressed
\* syntax of the same byte order ("other": implicit / explicit / deflated little endian) - the sender then has to convert it,
\* or, when it streams the stored bytes as they are (chunked send of a file), to refuse: what is delivered is the original
Config == {c \in [op : Ops, ts : TSs, max : MaxPdus, sendChunked : BOOLEAN, recvChunked : BOOLEAN, shape : Shapes, dsts : {"same", "other"}] :
             /\ (c.dsts = "other" => c.op \in {"STORE", "STORE_FILE"} /\ c.ts # "bigendian" /\ c.shape \in {"small", "vrmix"} /\ ~c.recvChunked)
             /\ (c.sendChunked => c.op = "STORE_FILE")          \* chunked send applies to send_c_store(path)
             /\ (c.recvChunked => c.op \in StoreOps)             \* chunked receive applies to C-STORE requests
             \* (a maximum of 7 leaves one byte of data per PDU: only the small shapes are sent that way, the others would need
             \*  up to a million PDUs and outlast every timeout)
             /\ (c.max = 7 => c.shape \in {"small", "empty", "oddlen"})}
Init == cfg \in Config /\ stage = "sent" /\ payload = <<1, 2, 3, 4, 5>>
Step == \/ stage = "sent" /\ stage' = "encoded" /\ UNCHANGED <<cfg, payload>>
        \/ stage = "encoded" /\ stage' = "fragmented" /\ UNCHANGED <<cfg, payload>>
        \/ stage = "fragmented" /\ stage' = "reassembled" /\ UNCHANGED <<cfg, payload>>
        \/ stage = "reassembled" /\ stage' = "accessed" /\ UNCHANGED <<cfg, payload>>
Spec == Init /\ [][Step]_vars
C25_Bytes == payload = <<1, 2, 3, 4, 5>>
Export == stage = "accessed" => PrintT(<<"CASE", cfg>>)
=============================================================================
