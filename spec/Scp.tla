-------------------------------- MODULE Scp --------------------------------
(***************************************************************************)
(* Reference machine for "one DIMSE request, many responses" on the SCP    *)
(* side (C20, C21, C22), written from the property statements, PS3.4/PS3.7 *)
(* and pynetdicom's user documentation (docs/service_classes/*.rst status  *)
(* tables, _handlers.py docstrings), not from service_class.py.            *)
(*                                                                         *)
(* The handler is the environment: at every pull it nondeterministically   *)
(* produces one step from a finite alphabet.  `script` records what it did *)
(* (history), `out` the responses the service sent.  The same predicates   *)
(* named C20_x, C21_x, C22_x are used (a) as invariants of this machine and *)
(* (b) by Trace_Scp on response histories observed on the real service     *)
(* classes.                                                                *)
(***************************************************************************)
EXTENDS Integers, Sequences, FiniteSets, TLC

CONSTANTS Svc,        \* "ECHO" "STORE" "FIND" "FINDREPO" "GET" "MOVE" "NGET" ...
          MaxSteps    \* bound on the number of handler steps

\* ---- status codes (PS3.7 Annex C, PS3.4 C.4) -------------------------------------------
Success == 0          Pending0 == 65280      Pending1 == 65281    Cancel == 65024
WarnLimit == 45057    \* B001 Repository Query: matching reached response limit
WarnSub == 45056      \* B000 sub-operations complete, one or more failures or warnings
FailRes == 42752      \* A700
FailAllSub == 42754   \* A702 unable to perform sub-operations
UnknownSt == 4095     \* 0FFF: in range, in no table
IsPending(s) == s \in {Pending0, Pending1}

GeneratorSvc == {"FIND", "FINDREPO", "GET", "MOVE"}
SubopSvc == {"GET", "MOVE"}
FindSvc == {"FIND", "FINDREPO"}
IsGen == Svc \in GeneratorSvc

\* documented pynetdicom-specific failure codes (docs/service_classes/*.rst); -1 = not documented
NoStatusCode == 49153                 \* C001 dataset without Status
BadTypeCode == 49154                  \* C002 not an int / Dataset
ExcCodeOf(svc) == CASE svc \in {"STORE", "SUBSTORE"} -> 49681       \* C211
             [] svc \in FindSvc -> 49937             \* C311
             [] svc = "GET" -> 50193                 \* C411
             [] svc = "MOVE" -> 50449                \* C511
             [] svc = "ECHO" -> 0                    \* documented: a failing C-ECHO handler is answered with Success
             [] OTHER -> 272                         \* 0110 processing failure (DIMSE-N)
UnencCodeOf(svc) == CASE svc \in FindSvc -> 49938    \* C312
               [] svc \in {"GET", "MOVE", "STORE", "SUBSTORE", "ECHO"} -> -1
               [] OTHER -> 272
BadCountCodeOf(svc) == IF svc = "GET" THEN 50195 ELSE 50451      \* C413 / C513
BigCountCodeOf(svc) == IF svc = "GET" THEN 50198 ELSE 50454      \* C416 / C516
ExcCode == ExcCodeOf(Svc)
UnencCode == UnencCodeOf(Svc)
BadCountCode == BadCountCodeOf(Svc)
BigCountCode == BigCountCodeOf(Svc)
BadDestCode == 50452                                      \* C514 (no destination yielded)
BadDestValCode == 50453                                   \* C515
UnknownDestCode == 43009                                  \* A801

\* ---- handler alphabet ------------------------------------------------------------------
\* status value classes a handler can supply
StClasses == {"S0", "P0", "P1", "WL", "WS", "WG", "FA", "CA", "UNK", "DSP", "DSF", "DSNO", "BAD", "NOPAIR", "OOR"}
\* NOPAIR: a bare value where a (status, dataset) pair is expected; OOR: an int outside 0..65535
WarnGen == 263        \* 0107 attribute list error (general DIMSE-N warning)
StInt(c) == CASE c = "S0" -> Success [] c = "P0" -> Pending0 [] c = "P1" -> Pending1
              [] c = "WL" -> WarnLimit [] c = "WS" -> WarnSub [] c = "WG" -> WarnGen [] c = "FA" -> FailRes
              [] c = "CA" -> Cancel [] c = "UNK" -> UnknownSt
              [] c = "DSP" -> Pending0 [] c = "DSF" -> FailRes
              [] c = "DSNO" -> NoStatusCode [] c = "BAD" -> BadTypeCode
              [] c \in {"NOPAIR", "OOR"} -> IF ExcCode = -1 THEN BadTypeCode ELSE ExcCode   \* undocumented: reference answers like an exception
HasOptional(c) == c = "DSF"          \* the status dataset carries ErrorComment etc.
\* (the status data sets DSP / DSF also carry a Message ID Being Responded To of their own: not a status element - the responses
\*  answer the request whatever the handler's data set says, C20_Ids)
DsClasses == {"ds", "none", "obj", "unenc"}
SubClasses == {"S", "W", "F", "X"}    \* sub-operation outcome: success, warning, failure, exception/no reply

Step(k, st, ds, sub) == [k |-> k, st |-> st, ds |-> ds, sub |-> sub]
PendLike == {"P0", "P1", "DSP"}
FinalLike == IF Svc \in SubopSvc THEN {"S0", "WS", "FA", "CA", "UNK", "DSF", "DSNO", "BAD", "NOPAIR", "OOR"}
             ELSE IF Svc \in {"FIND", "FINDREPO"} THEN {"S0", "WL", "FA", "CA", "UNK", "DSF", "DSNO", "BAD", "NOPAIR", "OOR"}
             ELSE IF Svc \in {"ECHO", "STORE", "SUBSTORE"} THEN {"S0", "WS", "FA", "UNK", "DSF", "DSNO", "BAD", "OOR"}
             ELSE IF Svc = "NDELETE" THEN {"S0", "WG", "FA", "UNK", "DSF", "DSNO", "BAD", "OOR"}
             ELSE {"S0", "WG", "FA", "UNK", "DSF", "DSNO", "BAD", "NOPAIR", "OOR"}
YieldSteps ==
  IF Svc \in SubopSvc
  THEN {Step("y", st, "ds", sub) : st \in {"P0", "DSP"}, sub \in SubClasses}
       \cup {Step("y", "P0", d, "S") : d \in {"obj", "none"}}
       \cup {Step("y", st, "none", "S") : st \in FinalLike}
  ELSE IF IsGen
  THEN {Step("y", st, d, "S") : st \in PendLike, d \in DsClasses}
       \cup {Step("y", st, d, "S") : st \in FinalLike, d \in {"none", "ds"}}
  ELSE {Step("ret", st, d, "S") : st \in FinalLike, d \in {"none", "ds", "unenc"}}
CountSteps == {Step("count", n, "none", "S") : n \in {"n0", "n1", "n2", "n3", "nbad", "nbig"}}
DestSteps == {Step("dest", d, "none", "S") : d \in {"ok", "unknown", "bad", "refused"}}
CtlSteps == {Step("raise", "S0", "none", "S"), Step("abort", "S0", "none", "S")}
CountOf(n) == CASE n = "n0" -> 0 [] n = "n1" -> 1 [] n = "n2" -> 2 [] n = "n3" -> 3 [] OTHER -> -1

\* ---- responses ---------------------------------------------------------------------------
\* step = index of the handler step that was the last one pulled when the response was sent
\* (0: before the first pull; Len(script)+1 is used for "generator exhausted")
Rsp(st, step, ds, cnt, opt) ==
  [st |-> st, step |-> step, ds |-> ds, rem |-> cnt[1], comp |-> cnt[2], fail |-> cnt[3], warn |-> cnt[4], opt |-> opt]
NoCnt == <<-1, -1, -1, -1>>

VARIABLES script, out, phase, N, cnt, failed, ended
\* phase: "start" (handler not yet called) "dest" "count" "loop" ; ended: "no" "final" "aborted"
vars == <<script, out, phase, N, cnt, failed, ended>>

Init == /\ script = <<>> /\ out = <<>> /\ N = -1 /\ cnt = NoCnt /\ failed = <<>> /\ ended = "no"
        /\ phase = IF Svc = "MOVE" THEN "dest" ELSE IF Svc = "GET" THEN "count" ELSE "loop"

Send(r) == out' = Append(out, r)
K == Len(script) + 1      \* index of the step being pulled now

FinalSubStatus(n, c) == IF c[3] = 0 /\ c[4] = 0 THEN Success ELSE IF c[3] = n THEN FailAllSub ELSE WarnSub

\* one pull of the handler and the service's documented reaction
Pull(s) ==
  /\ ended = "no" /\ Len(script) < MaxSteps
  /\ script' = Append(script, s)
  /\ CASE s.k = "raise" ->
            /\ Send(Rsp(ExcCode, K, "none", IF phase = "loop" /\ Svc \in SubopSvc THEN <<-1, cnt[2], cnt[3] + cnt[1], cnt[4]>> ELSE NoCnt, FALSE))
            /\ ended' = "final" /\ UNCHANGED <<phase, N, cnt, failed>>
       [] s.k = "abort" ->
            /\ ended' = "aborted" /\ UNCHANGED <<out, phase, N, cnt, failed>>
       [] s.k = "dest" ->
            /\ phase = "dest"
            /\ IF s.st = "ok" \/ s.st = "refused" THEN phase' = "count" /\ UNCHANGED <<out, ended>>
               ELSE /\ Send(Rsp(IF s.st = "unknown" THEN UnknownDestCode ELSE BadDestValCode, K, "none", NoCnt, FALSE))
                    /\ ended' = "final" /\ UNCHANGED phase
            /\ UNCHANGED <<N, cnt, failed>>
       [] s.k = "count" ->
            /\ phase = "count"
            /\ LET n == CountOf(s.st) IN
               IF s.st = "nbad" THEN Send(Rsp(BadCountCode, K, "none", NoCnt, FALSE)) /\ ended' = "final" /\ UNCHANGED <<phase, N, cnt>>
               ELSE IF s.st = "nbig" THEN Send(Rsp(BigCountCode, K, "none", NoCnt, FALSE)) /\ ended' = "final" /\ UNCHANGED <<phase, N, cnt>>
               ELSE IF n = 0 THEN Send(Rsp(Success, K, "none", <<-1, 0, 0, 0>>, FALSE)) /\ ended' = "final" /\ UNCHANGED <<phase, N, cnt>>
               ELSE IF Svc = "MOVE" /\ script[1].st = "refused"
                    THEN Send(Rsp(UnknownDestCode, K, "none", NoCnt, FALSE)) /\ ended' = "final" /\ UNCHANGED <<phase, N, cnt>>
               ELSE N' = n /\ cnt' = <<n, 0, 0, 0>> /\ phase' = "loop" /\ UNCHANGED <<out, ended>>
            /\ UNCHANGED failed
       [] s.k \in {"y", "ret"} ->
            /\ phase = "loop"
            /\ LET v == StInt(s.st) IN
               IF Svc \in SubopSvc THEN
                 IF cnt[1] <= 0 THEN      \* all sub-operations done: further yields are ignored, final follows
                    /\ Send(Rsp(FinalSubStatus(N, cnt), K, IF cnt[3] + cnt[4] > 0 THEN "failedlist" ELSE "none", <<-1, cnt[2], cnt[3], cnt[4]>>, FALSE))
                    /\ ended' = "final" /\ UNCHANGED <<phase, N, cnt, failed>>
                 ELSE IF IsPending(v) /\ s.st # "DSNO" /\ s.st # "BAD" THEN
                    IF s.ds = "none" THEN UNCHANGED <<out, phase, N, cnt, failed, ended>>   \* nothing to send
                    ELSE LET bad == s.ds # "ds"
                             c2 == IF bad \/ s.sub \in {"F", "X"} THEN <<cnt[1] - 1, cnt[2], cnt[3] + 1, cnt[4]>>
                                   ELSE IF s.sub = "W" THEN <<cnt[1] - 1, cnt[2], cnt[3], cnt[4] + 1>>
                                   ELSE <<cnt[1] - 1, cnt[2] + 1, cnt[3], cnt[4]>>
                         IN /\ cnt' = c2
                            /\ failed' = IF bad \/ s.sub \in {"F", "X"} THEN Append(failed, K) ELSE failed
                            /\ Send(Rsp(v, K, "none", c2, FALSE))
                            /\ UNCHANGED <<phase, N, ended>>
                 ELSE IF v = Success THEN
                    /\ Send(Rsp(FinalSubStatus(N, cnt), K, IF cnt[3] + cnt[4] > 0 THEN "failedlist" ELSE "none", <<-1, cnt[2], cnt[3], cnt[4]>>, FALSE))
                    /\ ended' = "final" /\ UNCHANGED <<phase, N, cnt, failed>>
                 ELSE
                    /\ Send(Rsp(v, K, IF v = UnknownSt \/ s.st \in {"DSNO", "BAD", "NOPAIR", "OOR"} THEN "none" ELSE "failedlist",
                               IF v = Cancel THEN cnt ELSE IF v = UnknownSt \/ s.st \in {"DSNO", "BAD", "NOPAIR", "OOR"} THEN NoCnt ELSE <<-1, cnt[2], cnt[3] + cnt[1], cnt[4]>>, HasOptional(s.st)))
                    /\ ended' = "final" /\ UNCHANGED <<phase, N, cnt, failed>>
               ELSE IF IsGen THEN
                 IF IsPending(v) /\ s.st \notin {"DSNO", "BAD"} THEN
                    IF s.ds = "ds" THEN Send(Rsp(v, K, "same", NoCnt, FALSE)) /\ UNCHANGED <<phase, N, cnt, failed, ended>>
                    ELSE Send(Rsp(UnencCode, K, "none", NoCnt, FALSE)) /\ ended' = "final" /\ UNCHANGED <<phase, N, cnt, failed>>
                 ELSE IF Svc = "FINDREPO" /\ v = WarnLimit THEN
                    Send(Rsp(v, K, "none", NoCnt, FALSE)) /\ UNCHANGED <<phase, N, cnt, failed, ended>>
                 ELSE Send(Rsp(v, K, "none", NoCnt, HasOptional(s.st))) /\ ended' = "final" /\ UNCHANGED <<phase, N, cnt, failed>>
               ELSE \* return-style services: exactly one response
                 /\ Send(Rsp(v, K, IF s.ds = "ds" /\ v \in {Success, WarnGen} /\ Svc \notin {"ECHO", "STORE", "SUBSTORE", "NDELETE"} THEN "same" ELSE "none", NoCnt, HasOptional(s.st)))
                 /\ ended' = "final" /\ UNCHANGED <<phase, N, cnt, failed>>

\* the generator is exhausted (returns): the service sends the final response itself
Exhaust ==
  /\ ended = "no" /\ IsGen
  /\ script' = Append(script, Step("end", "S0", "none", "S"))
  /\ CASE phase = "dest" -> Send(Rsp(BadDestCode, K, "none", NoCnt, FALSE))
       [] phase = "count" -> Send(Rsp(BadCountCode, K, "none", NoCnt, FALSE))
       [] phase = "loop" /\ Svc \in SubopSvc ->
            Send(Rsp(FinalSubStatus(N, cnt), K, IF cnt[3] + cnt[4] > 0 THEN "failedlist" ELSE "none", <<-1, cnt[2], cnt[3], cnt[4]>>, FALSE))
       [] OTHER -> Send(Rsp(Success, K, "none", NoCnt, FALSE))
  /\ ended' = "final" /\ UNCHANGED <<phase, N, cnt, failed>>

Alphabet == CASE phase = "dest" -> DestSteps \cup CtlSteps
              [] phase = "count" -> CountSteps \cup CtlSteps
              [] OTHER -> YieldSteps \cup CtlSteps
Next == (\E s \in Alphabet : Pull(s)) \/ Exhaust
Spec == Init /\ [][Next]_vars

\* ======================= property predicates (shared with Trace_Scp) ========================
\* h: sequence of response records; repo: Repository Query; fin: ended \in {"final","aborted","no"}
NonFinalSt(st, repo) == IsPending(st) \/ (repo /\ st = WarnLimit)
FinalIdx(h, repo) == {i \in 1..Len(h) : ~NonFinalSt(h[i].st, repo)}
\* C20: Pending* then exactly one final; nothing after the final; final may be missing only after abort/release
C20_ShapeP(h, repo, fin) ==
  /\ \A i \in FinalIdx(h, repo) : i = Len(h)                         \* a final response is the last thing sent
  /\ (fin # "aborted") => (Len(h) > 0 /\ Len(h) \in FinalIdx(h, repo))  \* and it exists unless the handler/peer aborted or released
C20_MissingOnlyIfAborted(h, repo, fin, terminated) ==
  (terminated /\ FinalIdx(h, repo) = {}) => fin = "aborted"
\* C22: counters
Sum(r) == r.rem + r.comp + r.fail + r.warn
C22_SumP(h, n) == \A i \in 1..Len(h) : (IsPending(h[i].st) /\ n > 0) => (h[i].rem >= 0 /\ Sum(h[i]) = n)
C22_MonotoneP(h) == \A i, j \in 1..Len(h) : (i < j /\ IsPending(h[i].st) /\ IsPending(h[j].st)) =>
                       (h[j].rem <= h[i].rem /\ h[j].comp >= h[i].comp /\ h[j].fail >= h[i].fail /\ h[j].warn >= h[i].warn)
C22_FinalP(h, n) == \A i \in 1..Len(h) : (~IsPending(h[i].st) /\ h[i].comp >= 0 /\ n > 0) =>
                       (h[i].comp + h[i].fail + h[i].warn <= n)
\* final status rule when the service (not the handler) decides the final status
\* (a handler that itself yields a Warning/Failure status decides the status: C21 covers that)
HandlerDecided(sc, r) == r.step \in 1..Len(sc) /\ sc[r.step].k = "y" /\ sc[r.step].st \notin {"S0", "P0", "P1", "DSP"}
C22_FinalStatusP(h, n, sc) == \A i \in 1..Len(h) :
   (h[i].st \in {Success, WarnSub, FailAllSub} /\ h[i].comp >= 0 /\ n > 0 /\ ~HandlerDecided(sc, h[i])) =>
      h[i].st = (IF h[i].fail = 0 /\ h[i].warn = 0 THEN Success ELSE IF h[i].fail = n THEN FailAllSub ELSE WarnSub)

\* model invariants
Repo == Svc = "FINDREPO"
C20_Shape == C20_ShapeP(out, Repo, IF ended = "final" THEN "final" ELSE "aborted")   \* in-progress behaviours are judged like aborted ones
C20_NothingAfterFinal == ended = "final" => Len(out) > 0
C22_Sum == Svc \in SubopSvc => C22_SumP(out, N)
C22_Monotone == Svc \in SubopSvc => C22_MonotoneP(out)
C22_Final == Svc \in SubopSvc => (C22_FinalP(out, N) /\ C22_FinalStatusP(out, N, script))
TypeOK == ended \in {"no", "final", "aborted"} /\ Len(script) <= MaxSteps + 1

\* ---- case export: every terminal state is one handler script with the reference history ----
Terminal == ended # "no"
Export == Terminal => PrintT(<<"CASE", Svc, ended, script, out>>)
=============================================================================
