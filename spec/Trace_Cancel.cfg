SPECIFICATION TSpec
CONSTANTS MaxCancels = 0
          MaxPolls = 0
