SPECIFICATION TSpec
CONSTANT MaxTokens = 0
