--------------------------- MODULE MC_AssocVsPeer ---------------------------
(* One pynetdicom acceptor node against an adversarial peer (C05, C07, C08, C23 models). *)
EXTENDS Assoc
MCNodes == {"A"}
MCRole == [n \in MCNodes |-> "acceptor"]
MCOther == [n \in MCNodes |-> "A"]
MCUserOps == [n \in MCNodes |-> {"abort", "release"}]
MCPolicy == [n \in MCNodes |-> {"accept", "reject"}]
MCHandlerAbort == [n \in MCNodes |-> {FALSE, TRUE}]
MCKnown == {}
MCFrames == {"RQ", "RQBADPV", "AC", "PD_REQ", "PD_BADMSG", "RELRQ", "RELRP", "ABORT0", "BADTYPE"}
\* hide the history variables
View == <<[n \in Nodes |-> [nd[n] EXCEPT !.sent = <<>>, !.fired = <<>>]], wire, weof, npeer, ntick>>
=============================================================================
