SPECIFICATION Spec
CONSTANTS CatchNotifications = TRUE
          LogSafe = TRUE
          Script <- MCScript
          Flavours <- MCFlavours
          Handlers = 2
          Continue = "unprotected"
INVARIANT C26_SameExchange
INVARIANT C26_Contained
INVARIANT C26_Completes
CHECK_DEADLOCK FALSE
