----------------------------- MODULE Gen_Config -----------------------------
(***************************************************************************)
(* C12 configuration space: what an application can ask pynetdicom to put  *)
(* into an A-ASSOCIATE-RQ (requestor side) and what the acceptor it talks  *)
(* to supports (which shapes the A-ASSOCIATE-AC).  Symbolic options; the   *)
(* harness maps them to API calls.  Every initial state is one             *)
(* configuration.                                                          *)
(***************************************************************************)
EXTENDS Integers, FiniteSets, TLC

Titles == {"one", "max16", "padded", "inner_space", "over16_padded", "over16", "spaces_only"}
NContexts == {1, 2, 3, 127, 128, 129}
\* ("no_ts" / "no_abstract": one PresentationContext object was built by hand and lacks its transfer syntaxes / abstract syntax -
\*  the API either refuses the configuration or whatever it sends is conformant)
CtxShapes == {"distinct", "same_abstract", "many_ts", "no_ts", "no_abstract"}
MaxPdus == {"zero", "default", "u32max", "small"}
ExtNeg == SUBSET {"role", "async", "sopext", "common", "identity"}
VerNames == {"default", "none", "long16"}
AcceptorKinds == {"all", "none", "some_roles_off", "ts_mismatch"}
\* where the PresentationContext objects given to associate() come from: built for this request (no ID yet), taken from
\* an earlier association (they carry the IDs they had there - with gaps where contexts were rejected), new ones in front
\* of reused ones, or all carrying the same ID
\* "edited": the contexts are the AE's own requested contexts, and the application edits them (removes a context's transfer
\* syntaxes) from a handler that runs while the request is being made - the request is the snapshot taken when associate() began
IdOrigins == {"fresh", "reused", "mixed", "dup", "edited"}

VARIABLE c
Config == [calling : Titles, called : {"max16", "padded", "one"}, n : NContexts, shape : CtxShapes, maxpdu : MaxPdus,
           ext : ExtNeg, ver : VerNames, acc : AcceptorKinds, ids : IdOrigins]      \* the full product: 2.3 million configurations
\* the pairwise-interesting slice exported for replay (the full product is 7*3*6*3*4*32*3*4 = 580k):
\* vary one group at a time around two base configurations, plus all ext_neg subsets
Base1 == [calling |-> "max16", called |-> "max16", n |-> 2, shape |-> "distinct", maxpdu |-> "default", ext |-> {}, ver |-> "default", acc |-> "all", ids |-> "fresh"]
Base2 == [calling |-> "padded", called |-> "padded", n |-> 3, shape |-> "same_abstract", maxpdu |-> "zero", ext |-> {"role", "identity"}, ver |-> "none", acc |-> "some_roles_off", ids |-> "fresh"]
Near(b) == {[b EXCEPT !.calling = t] : t \in Titles} \cup {[b EXCEPT !.called = t] : t \in {"max16", "padded", "one"}}
           \cup {[b EXCEPT !.n = k, !.shape = s] : k \in NContexts, s \in CtxShapes}
           \cup {[b EXCEPT !.n = k, !.shape = s, !.ids = o] : k \in {2, 3, 128}, s \in CtxShapes, o \in IdOrigins}
           \cup {[b EXCEPT !.maxpdu = m] : m \in MaxPdus} \cup {[b EXCEPT !.ext = e] : e \in ExtNeg}
           \cup {[b EXCEPT !.ver = w] : w \in VerNames} \cup {[b EXCEPT !.acc = a, !.ext = e] : a \in AcceptorKinds, e \in {{}, {"role"}, {"role", "identity"}}}
Selected == Near(Base1) \cup Near(Base2)
ASSUME Selected \subseteq Config
Init == c \in Selected
Next == FALSE /\ c' = c
Spec == Init /\ [][Next]_c
Export == PrintT(<<"CASE", c>>)
=============================================================================
