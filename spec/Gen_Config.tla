----------------------------- MODULE Gen_Config -----------------------------
(***************************************************************************)
(* C12 configuration space: what an application can ask pynetdicom to put  *)
(* into an A-ASSOCIATE-RQ (requestor side) and what the acceptor it talks  *)
(* to supports (which shapes the A-ASSOCIATE-AC).  Symbolic options; the   *)
(* harness maps them to API calls.  Every initial state is one             *)
(* configuration.                                                          *)
(***************************************************************************)
EXTENDS Integers, FiniteSets, TLC

Titles == {"one", "max16", "padded", "inner_space", "over16_padded", "over16", "spaces_only"}
NContexts == {1, 2, 3, 127, 128, 129}
CtxShapes == {"distinct", "same_abstract", "many_ts"}
MaxPdus == {"zero", "default", "u32max", "small"}
ExtNeg == SUBSET {"role", "async", "sopext", "common", "identity"}
VerNames == {"default", "none", "long16"}
AcceptorKinds == {"all", "none", "some_roles_off", "ts_mismatch"}

VARIABLE c
Config == [calling : Titles, called : {"max16", "padded", "one"}, n : NContexts, shape : CtxShapes, maxpdu : MaxPdus,
           ext : ExtNeg, ver : VerNames, acc : AcceptorKinds]              \* the full product: 580 608 configurations
\* the pairwise-interesting slice exported for replay (the full product is 7*3*6*3*4*32*3*4 = 580k):
\* vary one group at a time around two base configurations, plus all ext_neg subsets
Base1 == [calling |-> "max16", called |-> "max16", n |-> 2, shape |-> "distinct", maxpdu |-> "default", ext |-> {}, ver |-> "default", acc |-> "all"]
Base2 == [calling |-> "padded", called |-> "padded", n |-> 3, shape |-> "same_abstract", maxpdu |-> "zero", ext |-> {"role", "identity"}, ver |-> "none", acc |-> "some_roles_off"]
Near(b) == {[b EXCEPT !.calling = t] : t \in Titles} \cup {[b EXCEPT !.called = t] : t \in {"max16", "padded", "one"}}
           \cup {[b EXCEPT !.n = k, !.shape = s] : k \in NContexts, s \in CtxShapes}
           \cup {[b EXCEPT !.maxpdu = m] : m \in MaxPdus} \cup {[b EXCEPT !.ext = e] : e \in ExtNeg}
           \cup {[b EXCEPT !.ver = w] : w \in VerNames} \cup {[b EXCEPT !.acc = a, !.ext = e] : a \in AcceptorKinds, e \in {{}, {"role"}, {"role", "identity"}}}
Selected == Near(Base1) \cup Near(Base2)
ASSUME Selected \subseteq Config
Init == c \in Selected
Next == FALSE /\ c' = c
Spec == Init /\ [][Next]_c
Export == PrintT(<<"CASE", c>>)
=============================================================================
