SPECIFICATION Spec
CONSTANT MaxCx = 2
INVARIANT L_Ref
CHECK_DEADLOCK FALSE
