------------------------------ MODULE Gen_Pdu ------------------------------
(***************************************************************************)
(* C01 / C02 / C12 generator: the (bounded) space of well-formed values of *)
(* the seven upper-layer PDUs, every item and sub-item kind included.      *)
(* Every initial state is one value; TLC checks the layout lemmas on       *)
(* Bytes(v) and exports (v, Bytes(v)).                                     *)
(***************************************************************************)
EXTENDS PduLayout, PduLeaves, TLC, Json, IOUtils, SequencesExt

CONSTANTS Part,     \* which slice of the value space: "RQ" "AC" "SMALL"
          MaxLens   \* maximum-length values explored, e.g. {0, 1, 16382, 65536, 2147483647}

Aes == {AeA, AeLong, AeMid}
CtxRQ(id, ab, ts) == [id |-> id, ab |-> ab, ts |-> ts]
CtxAC(id, res, ts) == [id |-> id, result |-> res, ts |-> ts]
TsLists == {<<UImplLE>>, <<UExplLE, UImplLE>>, <<UExplBE, UExplLE, UImplLE>>}
RqCtxLists == {<<CtxRQ(1, UVerif, t)>> : t \in TsLists}
              \cup {<<CtxRQ(1, UCT, t), CtxRQ(3, UShort, <<UImplLE>>)>> : t \in TsLists}
              \cup {<<CtxRQ(255, ULong, <<ULong>>), CtxRQ(1, UVerif, <<UImplLE>>), CtxRQ(127, UCT, <<UExplLE>>)>>}
AcCtxLists == {<<CtxAC(1, r, UImplLE)>> : r \in 0..4}
              \cup {<<CtxAC(1, 0, UExplLE), CtxAC(3, 3, UImplLE)>>, <<CtxAC(255, 4, ULong), CtxAC(1, 0, UImplLE), CtxAC(127, 0, UExplBE)>>}
Base(n) == <<[k |-> "maxlen", n |-> n], [k |-> "implcls", uid |-> UImpl]>>
Opt == { <<>>,
         <<[k |-> "implver", name |-> VerName]>>,
         <<[k |-> "implver", name |-> VerShort]>>,
         <<[k |-> "async", invoked |-> 1, performed |-> 1]>>,
         <<[k |-> "async", invoked |-> 0, performed |-> 65535]>>,
         <<[k |-> "role", uid |-> UCT, scu |-> 1, scp |-> 0]>>,
         <<[k |-> "role", uid |-> UCT, scu |-> 0, scp |-> 1], [k |-> "role", uid |-> UShort, scu |-> 1, scp |-> 1]>>,
         <<[k |-> "sopext", uid |-> UCT, info |-> <<1, 0, 255>>]>>,
         <<[k |-> "sopext", uid |-> ULong, info |-> <<>>]>>,
         <<[k |-> "common", uid |-> UCT, svc |-> USvc, related |-> <<>>]>>,
         <<[k |-> "common", uid |-> UShort, svc |-> USvc, related |-> <<UCT, UVerif>>]>> }
IdRQ == { <<>>,
          <<[k |-> "uidrq", type |-> 1, positive |-> 0, primary |-> <<117, 115, 101, 114>>, secondary |-> <<>>]>>,
          <<[k |-> "uidrq", type |-> 2, positive |-> 1, primary |-> <<117>>, secondary |-> <<112, 119>>]>>,
          <<[k |-> "uidrq", type |-> 3, positive |-> 1, primary |-> Rep(75, 300), secondary |-> <<>>]>>,
          <<[k |-> "uidrq", type |-> 4, positive |-> 0, primary |-> <<0, 255, 1>>, secondary |-> <<>>]>>,
          <<[k |-> "uidrq", type |-> 5, positive |-> 1, primary |-> <<106, 119, 116>>, secondary |-> <<>>]>>,
          \* an empty primary field with a non-empty secondary field (type 2: user name / passcode)
          <<[k |-> "uidrq", type |-> 2, positive |-> 0, primary |-> <<>>, secondary |-> <<97, 98, 99>>]>> }
IdAC == { <<>>, <<[k |-> "uidac", response |-> <<1, 2, 3>>]>>, <<[k |-> "uidac", response |-> <<>>]>> }

RqValues == {[pdu |-> "RQ", called |-> cd, calling |-> cg, appctx |-> UAppCtx, contexts |-> cx, userinfo |-> Base(n) \o o1 \o o2 \o idr] :
               cd \in Aes, cg \in {AeA, AeLong}, cx \in RqCtxLists, n \in MaxLens, o1 \in Opt, o2 \in {<<>>, <<[k |-> "implver", name |-> VerName]>>}, idr \in IdRQ}
AcValues == {[pdu |-> "AC", called |-> cd, calling |-> cg, appctx |-> UAppCtx, contexts |-> cx, userinfo |-> Base(n) \o o1 \o ida] :
               cd \in Aes, cg \in {AeA, AeLong}, cx \in AcCtxLists, n \in MaxLens, o1 \in Opt, ida \in IdAC}
\* A-ASSOCIATE-RJ: PS3.8 Table 9-21 result x source x reason
RjValues == {[pdu |-> "RJ", result |-> r, source |-> s, reason |-> d] : r \in {1, 2}, s \in {1}, d \in {1, 2, 3, 7}}
            \cup {[pdu |-> "RJ", result |-> r, source |-> 2, reason |-> d] : r \in {1, 2}, d \in {1, 2}}
            \cup {[pdu |-> "RJ", result |-> r, source |-> 3, reason |-> d] : r \in {1, 2}, d \in {1, 2}}
AbortValues == {[pdu |-> "ABORT", source |-> 0, reason |-> 0]} \cup {[pdu |-> "ABORT", source |-> 2, reason |-> d] : d \in {0, 1, 2, 4, 5, 6}}
Datas == {<<>>, <<7>>, <<1, 2, 3>>, Rep(170, 40)}
Pdv(c, h, d) == [ctx |-> c, hdr |-> h, data |-> d]
PdataValues == {[pdu |-> "PDATA", pdvs |-> <<Pdv(c, h, d)>>] : c \in {1, 3, 255}, h \in 0..3, d \in Datas}
               \cup {[pdu |-> "PDATA", pdvs |-> <<Pdv(1, 1, d1), Pdv(1, 3, d2)>>] : d1 \in Datas, d2 \in Datas}
               \cup {[pdu |-> "PDATA", pdvs |-> <<Pdv(1, 3, <<9>>), Pdv(1, 0, d1), Pdv(3, 2, d2)>>] : d1 \in Datas, d2 \in Datas}
SmallValues == RjValues \cup AbortValues \cup PdataValues \cup {[pdu |-> "RELRQ"], [pdu |-> "RELRP"]}
Values == IF Part = "RQ" THEN RqValues ELSE IF Part = "AC" THEN AcValues ELSE SmallValues

VARIABLE v
Init == v \in Values
Next == FALSE /\ v' = v
Spec == Init /\ [][Next]_v

\* ---- layout lemmas on the model itself ----
B == Bytes(v)
L_Length == Len(B) = 6 + (B[3] * 16777216 + B[4] * 65536 + B[5] * 256 + B[6])
L_Type == B[1] = (CASE v.pdu = "RQ" -> 1 [] v.pdu = "AC" -> 2 [] v.pdu = "RJ" -> 3 [] v.pdu = "PDATA" -> 4 [] v.pdu = "RELRQ" -> 5 [] v.pdu = "RELRP" -> 6 [] v.pdu = "ABORT" -> 7)
L_Fixed == v.pdu \in {"RJ", "RELRQ", "RELRP", "ABORT"} => Len(B) = 10
L_ItemsSplit == v.pdu \in {"RQ", "AC"} => LET it == VarItems(B) IN
                  /\ \A i \in 1..Len(it) : it[i].t # -1
                  /\ Len(it) = 2 + Len(v.contexts)
                  /\ \A i \in Idx(it, 80) : Len(SplitItems(it[i].body)) = Len(v.userinfo)
L_WellFormed == (v.pdu = "RQ" => WellFormedRQ(B)) /\ (v.pdu = "AC" => HeaderOK(B, 2))
\* export of all (value, bytes) pairs as newline-delimited JSON (one TLC run with a single initial state)
DumpInit == /\ ndJsonSerialize(IOEnv.OUT, SetToSeq({[v |-> x, bytes |-> Bytes(x)] : x \in Values}))
            /\ v = CHOOSE x \in Values : TRUE
DumpSpec == DumpInit /\ [][Next]_v
=============================================================================
