SPECIFICATION Spec
INVARIANT TypeOK
INVARIANT C04_IdleOnlyStarts
INVARIANT C04_CloseAlwaysHandled
INVARIANT C04_PeerAbortHandled
INVARIANT C04_ArtimOnlyWhereArmed
