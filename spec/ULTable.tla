---------------------------- MODULE ULTable ----------------------------
(***************************************************************************)
(* PS3.8 section 9.2 as data: the DICOM Upper Layer state machine.         *)
(*                                                                         *)
(*   Tbl(e, s)      Table 9-10, written by structure from the standard     *)
(*   Effect(a, c)   Tables 9-6 .. 9-9: what each action does               *)
(*                                                                         *)
(* Transcribed from the standard's text, not from fsm.TRANSITION_TABLE.    *)
(* Census ASSUMEs pin the transcription so that a typo here cannot         *)
(* silently agree with a typo in the code.                                 *)
(***************************************************************************)
EXTENDS Naturals, FiniteSets, Sequences

States == 1..13
Events == 1..19

\* states in which an association/connection exists, other than 2, 4, 13
Conn(s)   == s \in {3,5,6,7,8,9,10,11,12}
AA8set(s) == s \in {3,6,7,8,9,10,11,12}

Tbl(e, s) ==
  CASE e = 1  -> IF s = 1 THEN "AE-1" ELSE ""
    [] e = 2  -> IF s = 4 THEN "AE-2" ELSE ""
    [] e = 3  -> IF s = 2 THEN "AA-1" ELSE IF s = 5 THEN "AE-3" ELSE IF AA8set(s) THEN "AA-8"
                 ELSE IF s = 13 THEN "AA-6" ELSE ""
    [] e = 4  -> IF s = 2 THEN "AA-1" ELSE IF s = 5 THEN "AE-4" ELSE IF AA8set(s) THEN "AA-8"
                 ELSE IF s = 13 THEN "AA-6" ELSE ""
    [] e = 5  -> IF s = 1 THEN "AE-5" ELSE ""
    [] e = 6  -> IF s = 2 THEN "AE-6" ELSE IF Conn(s) THEN "AA-8" ELSE IF s = 13 THEN "AA-7" ELSE ""
    [] e = 7  -> IF s = 3 THEN "AE-7" ELSE ""
    [] e = 8  -> IF s = 3 THEN "AE-8" ELSE ""
    [] e = 9  -> IF s = 6 THEN "DT-1" ELSE IF s = 8 THEN "AR-7" ELSE ""
    [] e = 10 -> IF s = 2 THEN "AA-1" ELSE IF s = 6 THEN "DT-2" ELSE IF s = 7 THEN "AR-6"
                 ELSE IF s \in {3,5,8,9,10,11,12} THEN "AA-8" ELSE IF s = 13 THEN "AA-6" ELSE ""
    [] e = 11 -> IF s = 6 THEN "AR-1" ELSE ""
    [] e = 12 -> IF s = 2 THEN "AA-1" ELSE IF s = 6 THEN "AR-2" ELSE IF s = 7 THEN "AR-8"
                 ELSE IF s \in {3,5,8,9,10,11,12} THEN "AA-8" ELSE IF s = 13 THEN "AA-6" ELSE ""
    [] e = 13 -> IF s = 2 THEN "AA-1" ELSE IF s \in {7,11} THEN "AR-3" ELSE IF s = 10 THEN "AR-10"
                 ELSE IF s \in {3,5,6,8,9,12} THEN "AA-8" ELSE IF s = 13 THEN "AA-6" ELSE ""
    [] e = 14 -> IF s \in {8,12} THEN "AR-4" ELSE IF s = 9 THEN "AR-9" ELSE ""
    [] e = 15 -> IF s = 4 THEN "AA-2" ELSE IF Conn(s) THEN "AA-1" ELSE ""
    [] e = 16 -> IF s \in {2,13} THEN "AA-2" ELSE IF Conn(s) THEN "AA-3" ELSE ""
    [] e = 17 -> IF s = 2 THEN "AA-5" ELSE IF s = 4 \/ Conn(s) THEN "AA-4" ELSE IF s = 13 THEN "AR-5" ELSE ""
    [] e = 18 -> IF s \in {2,13} THEN "AA-2" ELSE ""
    [] e = 19 -> IF s = 2 THEN "AA-1" ELSE IF Conn(s) THEN "AA-8" ELSE IF s = 13 THEN "AA-7" ELSE ""

Defined(e, s) == Tbl(e, s) # ""

Actions == {"AE-1","AE-2","AE-3","AE-4","AE-5","AE-6","AE-7","AE-8","DT-1","DT-2",
            "AR-1","AR-2","AR-3","AR-4","AR-5","AR-6","AR-7","AR-8","AR-9","AR-10",
            "AA-1","AA-2","AA-3","AA-4","AA-5","AA-6","AA-7","AA-8"}

(***************************************************************************)
(* Effect(a, ctx).  ctx = [requestor, pvOK, abortSrc, headAbort]           *)
(*   requestor : local node is the association requestor (AR-8)            *)
(*   pvOK      : received A-ASSOCIATE-RQ has protocol version bit 0 (AE-6) *)
(*   abortSrc  : source field of the received A-ABORT PDU: 0 user, 2 prov  *)
(*               (AA-3)                                                    *)
(*   headAbort : an abort request primitive is at the head of the queue of *)
(*               local requests: "none" | "user" (A-ABORT) | "provider"    *)
(*               (A-P-ABORT issued by the local provider)        (AA-1)    *)
(* Fields (Open == -1 / "*" marks what the standard leaves open):           *)
(*   next   next state                                                     *)
(*   send   PDU put on the wire: "" | RQ AC RJ PDATA RELRQ RELRP ABORT      *)
(*   src    A-ABORT source (0 service-user, 2 service-provider) or RJ      *)
(*          source, Open if open / not applicable                           *)
(*   ind    primitive issued to the local user: "" | ASSOC (indication or  *)
(*          confirmation), PDATA, RELEASE, ABORT, PABORT                   *)
(*   artim  none | start | stop | restart | stopstart (stop then start)    *)
(*   close  this side closes the transport connection                      *)
(*   pop    the request/response primitive that triggered it is consumed   *)
(***************************************************************************)
Open == 99
E(next, send, src, ind, artim, close, pop) ==
  [next |-> next, send |-> send, src |-> src, ind |-> ind, artim |-> artim,
   close |-> close, pop |-> pop]

Effect(a, ctx) ==
  CASE a = "AE-1" -> E(4,  "",      Open, "",        "none",    FALSE, TRUE)
    [] a = "AE-2" -> E(5,  "RQ",    Open, "",        "none",    FALSE, TRUE)
    [] a = "AE-3" -> E(6,  "",      Open, "ASSOC",   "none",    FALSE, FALSE)
    [] a = "AE-4" -> E(1,  "",      Open, "ASSOC",   "none",    TRUE,  FALSE)
    [] a = "AE-5" -> E(2,  "",      Open, "",        "start",   FALSE, FALSE)
    [] a = "AE-6" -> IF ctx.pvOK
                     THEN E(3,  "",   Open, "ASSOC", "stop",      FALSE, FALSE)
                     ELSE E(13, "RJ", 2,   "",      "stopstart", FALSE, FALSE)
    [] a = "AE-7" -> E(6,  "AC",    Open, "",        "none",    FALSE, TRUE)
    [] a = "AE-8" -> E(13, "RJ",    Open, "",        "start",   FALSE, TRUE)
    [] a = "DT-1" -> E(6,  "PDATA", Open, "",        "none",    FALSE, TRUE)
    [] a = "DT-2" -> E(6,  "",      Open, "PDATA",   "none",    FALSE, FALSE)
    [] a = "AR-1" -> E(7,  "RELRQ", Open, "",        "none",    FALSE, TRUE)
    [] a = "AR-2" -> E(8,  "",      Open, "RELEASE", "none",    FALSE, FALSE)
    [] a = "AR-3" -> E(1,  "",      Open, "RELEASE", "none",    TRUE,  FALSE)
    [] a = "AR-4" -> E(13, "RELRP", Open, "",        "start",   FALSE, TRUE)
    [] a = "AR-5" -> E(1,  "",      Open, "",        "stop",    FALSE, FALSE)
    [] a = "AR-6" -> E(7,  "",      Open, "PDATA",   "none",    FALSE, FALSE)
    [] a = "AR-7" -> E(8,  "PDATA", Open, "",        "none",    FALSE, TRUE)
    [] a = "AR-8" -> E(IF ctx.requestor THEN 9 ELSE 10,
                           "",      Open, "RELEASE", "none",    FALSE, FALSE)
    [] a = "AR-9" -> E(11, "RELRP", Open, "",        "none",    FALSE, TRUE)
    [] a = "AR-10"-> E(12, "",      Open, "RELEASE", "none",    FALSE, FALSE)
    \* the abort request that triggered AA-1 (A-ABORT, or pynetdicom's local A-P-ABORT request) is
    \* consumed; the PDU source is service-user unless the local *provider* asked for the abort
    [] a = "AA-1" -> E(13, "ABORT", IF ctx.headAbort = "provider" THEN Open ELSE 0,
                                         "",        "restart", FALSE, ctx.headAbort # "none")
    [] a = "AA-2" -> E(1,  "",      Open, "",        "stop",    TRUE,  FALSE)
    [] a = "AA-3" -> E(1,  "",      Open, IF ctx.abortSrc = 0 THEN "ABORT" ELSE "PABORT",
                                                    "none",    TRUE,  FALSE)
    [] a = "AA-4" -> E(1,  "",      Open, "PABORT",  "none",    FALSE, FALSE)
    [] a = "AA-5" -> E(1,  "",      Open, "",        "stop",    FALSE, FALSE)
    [] a = "AA-6" -> E(13, "",      Open, "",        "none",    FALSE, FALSE)
    [] a = "AA-7" -> E(13, "ABORT", Open, "",        "none",    FALSE, FALSE)
    [] a = "AA-8" -> E(13, "ABORT", 2,   "PABORT",  "start",   FALSE, FALSE)

Ctxs == [requestor : BOOLEAN, pvOK : BOOLEAN, abortSrc : {0, 2}, headAbort : {"none", "user", "provider"}]
Ctx0 == [requestor |-> TRUE, pvOK |-> TRUE, abortSrc |-> 0, headAbort |-> "none"]

\* The possible next states of a cell (over all contexts)
NextStates(e, s) == {Effect(Tbl(e, s), c).next : c \in Ctxs}

(***************************************************************************)
(* Census of the transcription (PS3.8 Table 9-10 counts)                   *)
(***************************************************************************)
Cells        == Events \X States
DefinedCells == {c \in Cells : Defined(c[1], c[2])}
CellsOf(a)   == {c \in Cells : Tbl(c[1], c[2]) = a}

ASSUME Cardinality(Cells) = 247
ASSUME Cardinality(DefinedCells) = 123
ASSUME \A c \in DefinedCells : Tbl(c[1], c[2]) \in Actions
ASSUME \A a \in Actions : CellsOf(a) # {}
ASSUME Cardinality(CellsOf("AA-8")) = 54
ASSUME Cardinality(CellsOf("AA-1")) = 15
ASSUME Cardinality(CellsOf("AA-4")) = 10
ASSUME Cardinality(CellsOf("AA-3")) = 9
ASSUME Cardinality(CellsOf("AA-6")) = 5
ASSUME Cardinality(CellsOf("AA-2")) = 5
ASSUME Cardinality(CellsOf("AA-7")) = 2
ASSUME Cardinality(CellsOf("AR-3")) = 2
ASSUME Cardinality(CellsOf("AR-4")) = 2
\* Sta1 reacts only to Evt1 and Evt5
ASSUME {c[1] : c \in {d \in DefinedCells : d[2] = 1}} = {1, 5}
\* every action's next state is a state; every action that returns to idle either closes the
\* connection itself or is triggered by the connection having been closed by the peer (Evt17)
ASSUME \A a \in Actions, c \in Ctxs : Effect(a, c).next \in States
ASSUME \A d \in DefinedCells, c \in Ctxs :
          Effect(Tbl(d[1], d[2]), c).next = 1 => Effect(Tbl(d[1], d[2]), c).close \/ d[1] = 17
\* every transition into Sta13 (other than the self loops) has an ARTIM timer running
ASSUME \A d \in DefinedCells, c \in Ctxs :
          LET ef == Effect(Tbl(d[1], d[2]), c) IN
          (ef.next = 13 /\ d[2] # 13) => ef.artim \in {"start", "restart", "stopstart"}
=============================================================================
