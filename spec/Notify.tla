------------------------------- MODULE Notify -------------------------------
(***************************************************************************)
(* C26 - a failing handler never changes the protocol exchange.            *)
(*                                                                         *)
(* events.trigger(assoc, event, attrs) is the single place where user code *)
(* is called.  A protocol thread runs a script of protocol steps; before   *)
(* (or after) each step it triggers the notification events of that step,  *)
(* and a request step calls one intervention handler whose result decides  *)
(* the response.  User handlers are the environment: every invocation may  *)
(* return or raise.                                                        *)
(*   notification event : trigger() calls the bound handlers in order; an  *)
(*        exception is caught and logged (the remaining handlers of that    *)
(*        event are skipped), the protocol step goes on unchanged          *)
(*   intervention event : the exception propagates to the caller, which    *)
(*        turns it into the documented reaction: a DIMSE failure response, *)
(*        a rejection (EVT_USER_ID) or the default item (EVT_ASYNC_OPS,    *)
(*        EVT_SOP_COMMON, EVT_SOP_EXTENDED)                                *)
(* The logging of a caught exception is itself code that can fail (it      *)
(* reads func.__name__ of the handler): LogSafe = FALSE models a report    *)
(* line that raises for some handler / exception flavours, which makes the *)
(* exception escape into the protocol thread.                              *)
(*                                                                         *)
(* C26_SameExchange: whatever subset of notification invocations raises,   *)
(* the wire history equals that of the run in which none raises.           *)
(* C26_Contained: an intervention handler's exception never kills the      *)
(* protocol thread; the reaction is the documented one.                    *)
(***************************************************************************)
EXTENDS Integers, Sequences, FiniteSets, TLC
CONSTANTS CatchNotifications,   \* trigger() catches what notification handlers raise
          LogSafe,              \* reporting a caught exception cannot itself raise
          Script,               \* the protocol steps of one association: sequence of records [act, notes, iv]
          Handlers,             \* how many handlers the application bound to each notification event (they are called in order)
          Continue,             \* what trigger() does with the handlers after one that raised: "skip" (the code: the loop is left),
                                \* "protected" (each later handler is called under its own try), "unprotected" (later handlers are
                                \* called from the except branch: what a second one raises escapes)
          Flavours              \* kinds of raising handler: "plain" and kinds whose report may fail ("noname", "noargs")

VARIABLES pos,       \* next step of the script
          wire,      \* protocol actions performed (PDUs / DIMSE messages, abstractly)
          dead,      \* the protocol thread died from an exception that escaped
          nraised,   \* did any notification invocation raise so far (the subsets themselves are not kept: they multiply
                     \* the states without changing the behaviour)
          flavour    \* the kind of raising handler bound in this run
vars == <<pos, wire, dead, nraised, flavour>>

\* what an intervention handler's exception is turned into
Reaction(iv) == CASE iv = "dimse"   -> "FAILURE_RESPONSE"
                  [] iv = "user_id" -> "REJECT"
                  [] iv = "ext_neg" -> "DEFAULT_ITEM"
                  [] OTHER          -> "NONE"

Init == pos = 1 /\ wire = <<>> /\ dead = FALSE /\ nraised = FALSE /\ flavour \in Flavours

\* the report line works for this flavour
ReportOK == LogSafe \/ flavour = "plain"

\* one protocol step: its notifications (any subset raises), its intervention handler (returns or raises), its action
Step ==
  /\ pos <= Len(Script) /\ ~dead
  /\ LET s == Script[pos] IN
     \* R: the invocations that would raise if made - (event, position of the handler among those bound to it)
     \E R \in SUBSET (s.notes \X (1..Handlers)) : \E ivraises \in BOOLEAN :
        /\ (s.iv = "none" => ~ivraises)
        /\ nraised' = (nraised \/ R # {})
        /\ IF \/ R # {} /\ (~CatchNotifications \/ ~ReportOK)
              \/ Continue = "unprotected" /\ \E e \in s.notes : Cardinality({h \in 1..Handlers : <<e, h>> \in R}) >= 2
           THEN dead' = TRUE /\ UNCHANGED wire                     \* escaped into the protocol machinery
           ELSE /\ dead' = FALSE
                /\ wire' = Append(wire, IF ivraises THEN Reaction(s.iv) ELSE s.act)
        /\ pos' = pos + 1
        /\ UNCHANGED flavour
Next == Step
Spec == Init /\ [][Next]_vars

Reference == [i \in 1..Len(Script) |-> Script[i].act]
\* positions whose intervention handler raised are compared modulo the documented reaction
SameModuloReactions == /\ Len(wire) = pos - 1
                       /\ \A i \in 1..Len(wire) : wire[i] = Reference[i] \/ wire[i] = Reaction(Script[i].iv)
C26_SameExchange == ~dead => SameModuloReactions
C26_Contained == ~dead
C26_Completes == (pos > Len(Script)) => (~dead /\ Len(wire) = Len(Script))
=============================================================================
