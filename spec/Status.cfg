SPECIFICATION Spec
INVARIANT C28_Total
INVARIANT C28_Standard
INVARIANT C28_TablesAgree
INVARIANT C28_Finality
