SPECIFICATION Spec
CONSTANTS MaxCancels = 3
          MaxPolls = 2
INVARIANT C23_Match
INVARIANT Export
