--------------------------- MODULE Trace_CtxGuard ---------------------------
(* C2S for C19: observations of the real receive paths judged with CtxGuard's predicates.       *)
(* o: [id, kind, path, accepted (sequence of ids), ctxCmd, ctxData, invoked, answered]          *)
EXTENDS CtxGuard, Json, IOUtils, Sequences
Obs == ndJsonDeserialize(IOEnv.TRACE)
VARIABLE i
SetOf(q) == {q[j] : j \in 1..Len(q)}
C19v(o) == IF ~C19_NoHandlerP(SetOf(o.accepted), o.ctxCmd, o.ctxData, o.invoked) THEN "C19_HandlerOnUnaccepted"
           ELSE IF ~C19_NotAnsweredP(SetOf(o.accepted), o.ctxCmd, o.ctxData, o.answered) THEN "C19_AnsweredAsValid"
           ELSE "ok"
TInit == i = 1 /\ kind = "ECHO" /\ ctxCmd = 1 /\ ctxData = 1 /\ invoked = FALSE /\ answered = FALSE /\ aborted = FALSE /\ done = TRUE
TNext == /\ i <= Len(Obs) /\ PrintT(<<"VERDICT", Obs[i].id, C19v(Obs[i])>>) /\ i' = i + 1 /\ UNCHANGED vars
TSpec == TInit /\ [][TNext]_<<i, vars>>
=============================================================================
