------------------------------ MODULE Trace_QR ------------------------------
(***************************************************************************)
(* C2S for C29: one record per MC_QR case run on the real qrscp database   *)
(* code (db.add_instance, db.search, handlers.handle_find):                *)
(*  o = [id, op, level, exp_ok, exp_sel (sequence of entity keys the       *)
(*       specification selects), status ("ok" | "invalid" | "error"),      *)
(*       sel (sequence of distinct entity keys observed), sel_ci / nhits (classification aids from MC_QR), nresp (number of *)
(*       pending C-FIND responses; for C-GET/C-MOVE the number of matches)]*)
(***************************************************************************)
EXTENDS Integers, Sequences, FiniteSets, Json, IOUtils, TLC
Obs == ndJsonDeserialize(IOEnv.TRACE)
VARIABLE i
SetOf(s) == {s[j] : j \in 1..Len(s)}
C29v(o) ==
  IF o.exp_ok /\ o.status = "invalid" THEN "C29_RejectedValid"
  ELSE IF ~o.exp_ok /\ o.status # "invalid" THEN "C29_AcceptedInvalid"
  ELSE IF ~o.exp_ok THEN "ok"
  ELSE IF o.status = "error" THEN "C29_Error"
  \* (two named deviations, listed as known findings: wild card matching that ignores case for every key, and one C-FIND
  \*  response per matching instance instead of one per entity)
  ELSE IF SetOf(o.sel) # SetOf(o.exp_sel) /\ SetOf(o.sel) = SetOf(o.sel_ci) THEN "C29_WildcardIgnoresCase"
  ELSE IF ~(SetOf(o.sel) \subseteq SetOf(o.exp_sel)) THEN "C29_TooMany"
  ELSE IF SetOf(o.sel) # SetOf(o.exp_sel) THEN "C29_TooFew"
  ELSE IF o.op = "find" /\ o.nresp # Cardinality(SetOf(o.exp_sel)) THEN (IF o.nresp = o.nhits THEN "C29_OneResponsePerInstance" ELSE "C29_OnePerEntity")
  ELSE "ok"
TInit == i = 1
TNext == /\ i <= Len(Obs) /\ PrintT(<<"VERDICT", Obs[i].id, C29v(Obs[i])>>) /\ i' = i + 1
TSpec == TInit /\ [][TNext]_i
=============================================================================
