SPECIFICATION TSpec
