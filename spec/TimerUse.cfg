SPECIFICATION Spec
CONSTANTS IdleT = 4
          ArtimT = 3
          MaxT = 12
CONSTRAINT WallBound
INVARIANT TypeOK
PROPERTY C09_WallIndependent
