--------------------------- MODULE Trace_Lifecycle ---------------------------
(***************************************************************************)
(* C2S for Lifecycle.tla: a history of start / stop / connect / out /      *)
(* release / echo / aeshutdown operations run on a real AE.                *)
(*  o = [id, ops, obs : per step [up : <<bool, bool>> (a TCP connection to *)
(*       the server's last port is accepted), as : per slot what the PEER  *)
(*       side of the association shows, active : number of associations in *)
(*       AE.active_associations that are established, echo : "ok" | "fail" *)
(*       | "none"]]                                                        *)
(***************************************************************************)
EXTENDS Lifecycle, Json, IOUtils
Obs == ndJsonDeserialize(IOEnv.TRACE)
VARIABLE i
RECURSIVE StateAt(_, _)
StateAt(ops, k) == IF k = 0 THEN S0 ELSE Apply(StateAt(ops, k - 1), ops[k])
StepV(o, k) ==
  LET s == StateAt(o.ops, k) ob == o.obs[k] op == o.ops[k] IN
  IF \E sv \in Servers : s.ever[sv] /\ ob.up[sv] # s.up[sv] THEN
       (IF op.k = "aeshutdown" THEN "L_ShutdownLeavesListener" ELSE IF op.k = "stop" THEN "L_StopLeavesListener" ELSE "L_Listening")
  ELSE IF \E x \in Slots : ob.as[x] # s.as[x] THEN
       (IF op.k = "aeshutdown" THEN "L_ShutdownLeavesAssociation" ELSE IF op.k = "stop" THEN "L_StopEndsAssociation"
        ELSE IF op.k = "connect" THEN "L_Connect" ELSE "L_Association")
  ELSE IF ob.active # Active(s) THEN "L_ActiveAssociations"
  ELSE IF op.k = "echo" /\ (ob.echo = "ok") # EchoOK(s, op.x) THEN "L_Echo"
  ELSE "ok"
RECURSIVE FirstBad(_, _)
FirstBad(o, k) == IF k > Len(o.ops) THEN <<"ok", 0>>
                  ELSE IF StepV(o, k) # "ok" THEN <<StepV(o, k), k>> ELSE FirstBad(o, k + 1)
TInit == i = 1 /\ st = S0 /\ hist = <<>>
TNext == /\ i <= Len(Obs)
         /\ LET v == FirstBad(Obs[i], 1) IN PrintT(<<"VERDICT", Obs[i].id, v[1], v[2]>>)
         /\ i' = i + 1 /\ UNCHANGED vars
TSpec == TInit /\ [][TNext]_<<i, vars>>
=============================================================================
