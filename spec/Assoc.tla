------------------------------- MODULE Assoc -------------------------------
(***************************************************************************)
(* pynetdicom's association machinery as a transition system.              *)
(*                                                                         *)
(* One record per node holds the state of its three kinds of threads:      *)
(*   - the DUL provider thread (dul.py run_reactor + fsm.py actions)       *)
(*   - the association thread (association.py run_reactor/_run_reactor,    *)
(*     acse.py negotiation)                                                *)
(*   - a user thread calling the public API (associate/release/abort/      *)
(*     send_c_echo)                                                        *)
(* Actions are the pieces of code between two consecutive reads of shared  *)
(* state (queue get/peek, event wait, spin-loop sleep, timer query): these *)
(* are exactly the points at which the replay harness can park the real    *)
(* threads (harness/sched.py), so every action here can be executed on the *)
(* real objects and compared (S2C).                                        *)
(*                                                                         *)
(* Instantiations: one node against an adversarial peer (Adversary = TRUE) *)
(* or a requestor/acceptor pair joined by FIFO channels.                   *)
(***************************************************************************)
EXTENDS ULTable, Integers, TLC

CONSTANTS Nodes,        \* e.g. {"A"} or {"R", "A"}
          Role,         \* [Nodes -> {"requestor", "acceptor"}]
          Other,        \* [Nodes -> Nodes]  (the peer node; unused with an adversary)
          Adversary,    \* TRUE: frames come from an adversarial peer
          PeerFrames,   \* set of frame kinds the adversary may send
          MaxPeer,      \* number of adversarial frames
          MaxTick,      \* number of timer expiries / timeouts
          UserOps,      \* [Nodes -> SUBSET {"release", "abort", "echo"}]
          MaxOps,       \* user API calls per node
          Policy,       \* [Nodes -> SUBSET {"accept", "reject"}] acceptor decision
          KnownCrash,   \* set of <<role, event, state>> signatures recorded in known_findings.json
          HandlerAbort  \* [Nodes -> SUBSET BOOLEAN] may the C-ECHO handler call assoc.abort() ?

VARIABLES nd,      \* [Nodes -> node record]
          wire,    \* [Nodes -> Seq(frame kind)]  inbound byte stream as frames
          weof,    \* [Nodes -> BOOLEAN] the peer closed the connection (EOF after wire)
          npeer, ntick   \* budgets used
vars == <<nd, wire, weof, npeer, ntick>>

------------------------------------------------------------------------------
(* Frames on the wire.  PD_* are P-DATA-TF PDUs classified by what the DIMSE layer makes    *)
(* of them: REQ completes a request message, RSP completes a response message, FRAG is an   *)
(* incomplete fragment, BADMSG completes a message that cannot be converted (-> Evt19).     *)
FrameEvent(f) ==
  CASE f = "RQ" -> 6 [] f = "RQBADPV" -> 6 [] f = "AC" -> 3 [] f = "RJ" -> 4
    [] f \in {"PD_REQ", "PD_RSP", "PD_FRAG", "PD_BADMSG"} -> 10
    [] f = "RELRQ" -> 12 [] f = "RELRP" -> 13 [] f \in {"ABORT0", "ABORT2"} -> 16
    [] f \in {"BADTYPE", "UNDEC"} -> 19

\* Event for the primitive at the head of to_provider_queue (dul._process_recv_primitive)
PrimEvent(p) ==
  CASE p = "ASSOC_RQ" -> 1 [] p = "TCONN_OK" -> 2 [] p = "TCONN_FAIL" -> 17
    [] p = "ASSOC_AC" -> 7 [] p = "ASSOC_RJ" -> 8 [] p = "PDATA" -> 9
    [] p = "PDATA_RSP" -> 9
    [] p = "REL_RQ" -> 11 [] p = "REL_RP" -> 14 [] p \in {"ABORT", "ABORT_P"} -> 15

PduOfPrim(p) ==
  CASE p = "ASSOC_RQ" -> "RQ" [] p = "ASSOC_AC" -> "AC" [] p = "ASSOC_RJ" -> "RJ"
    [] p = "PDATA" -> "PD_REQ" [] p = "PDATA_RSP" -> "PD_RSP"
    [] p = "REL_RQ" -> "RELRQ" [] p = "REL_RP" -> "RELRP"

InitNode(n) ==
  [ \* --- DUL provider -------------------------------------------------------
    \* an accepted connection: the socket wrapper queued Evt5 (transport connection indication)
    st |-> 1, evq |-> IF Role[n] = "acceptor" THEN <<5>> ELSE <<>>,
    provq |-> <<>>, userq |-> <<>>, recvq |-> <<>>,
    sock |-> IF Role[n] = "acceptor" THEN "open" ELSE "unconn",   \* unconn | open | shut | closed
    conn |-> FALSE,           \* AssociationSocket._ready: the connect attempt has finished
    artim |-> "off",          \* off | run | exp | stopped | stoppedExp
    dkill |-> FALSE, dalive |-> FALSE, dpc |-> "none",            \* none | top | ev | done | dead
    crash |-> <<>>,
    \* --- association --------------------------------------------------------
    est |-> FALSE, rel |-> FALSE, abt |-> FALSE, rej |-> FALSE,
    sentAbort |-> FALSE, akill |-> FALSE, paused |-> FALSE, ckpt |-> TRUE,
    apc |-> IF Role[n] = "acceptor" THEN "a_start" ELSE "none",
    msgq |-> <<>>, fired |-> <<>>,
    \* --- user thread --------------------------------------------------------
    upc |-> IF Role[n] = "requestor" THEN "q_start" ELSE "u_idle",
    ucoll |-> FALSE, nops |-> 0, sentRel |-> FALSE, aret |-> "", uret |-> "",
    \* --- a second user thread holding the same Association object (idle unless UserOps2 gives it something to call) ---
    upc2 |-> "u_idle", ucoll2 |-> FALSE, nops2 |-> 0, uret2 |-> "",
    sent |-> <<>> ]

Init == /\ nd = [n \in Nodes |-> InitNode(n)]
        /\ wire = [n \in Nodes |-> <<>>]
        /\ weof = [n \in Nodes |-> FALSE]
        /\ npeer = 0 /\ ntick = 0

------------------------------------------------------------------------------
(* Helpers on a node record r *)
Put(r, q, x) == [r EXCEPT ![q] = Append(@, x)]
Fire(r, e)   == [r EXCEPT !.fired = Append(@, e)]

\* AssociationSocket.close(): shutdown, then (if still connected) mark closed and queue Evt17
SockClose(r) == IF r.sock \in {"open", "shut"}
                THEN [r EXCEPT !.sock = "closed", !.evq = Append(@, 17)]
                ELSE r
\* AssociationSocket._shutdown_socket(): OS-level close only
SockShut(r) == IF r.sock = "open" THEN [r EXCEPT !.sock = "shut"] ELSE r
\* did this step close the connection as seen by the peer?
ClosedNow(r, r2) == r.sock = "open" /\ r2.sock # "open"

ArtimStart(r) == [r EXCEPT !.artim = "run"]
ArtimStop(r)  == [r EXCEPT !.artim = IF @ = "run" THEN "stopped"
                                     ELSE IF @ = "exp" THEN "stoppedExp" ELSE @]
ArtimExpiredFlag(r) == r.artim \in {"exp", "stoppedExp"}   \* Timer.expired stays true after a late stop

\* dul._send: a send on a socket that is no longer usable queues Evt17 (transport.send except branch)
Send(r, pdu) == IF r.sock = "open" THEN [r EXCEPT !.sent = Append(@, pdu)]
                ELSE [r EXCEPT !.evq = Append(@, 17)]

KillDul(r) == [r EXCEPT !.dkill = TRUE]
Sentinel(r) == Put(r, "msgq", "NONE")       \* dimse.msg_queue.put((None, None))

\* dimse.receive_primitive on a received P-DATA-TF
Dimse(r, f) == CASE f = "PD_REQ"    -> Put(r, "msgq", "REQ")
                 [] f = "PD_RSP"    -> Put(r, "msgq", "RSP")
                 [] f = "PD_BADMSG" -> Put(r, "evq", 19)
                 [] OTHER           -> r

PopProv(r) == [r EXCEPT !.provq = Tail(@)]
PopRecv(r) == [r EXCEPT !.recvq = Tail(@)]

(* fsm.py actions, as coded.  Returns the new node record (without st). *)
Act(r, a, n) ==
  CASE a = "AE-1" -> PopProv(r)   \* connect is performed by DulEvent (needs the environment)
    [] a = "AE-2" -> Send(PopProv(r), "RQ")
    [] a = "AE-3" -> Put(PopRecv(r), "userq", "ASSOC_AC")
    [] a = "AE-4" -> KillDul(SockClose(Put(PopRecv(r), "userq", "ASSOC_RJ")))
    [] a = "AE-5" -> ArtimStart(r)
    [] a = "AE-6" -> IF Head(r.recvq) = "RQBADPV"
                     THEN ArtimStart(Send(PopRecv(ArtimStop(r)), "RJ"))
                     ELSE Put(PopRecv(ArtimStop(r)), "userq", "ASSOC_IND")
    [] a = "AE-7" -> Send(PopProv(r), "AC")
    [] a = "AE-8" -> ArtimStart(Send(PopProv(r), "RJ"))
    [] a = "DT-1" -> Send(PopProv(r), PduOfPrim(Head(r.provq)))
    [] a = "DT-2" -> Dimse(PopRecv(r), Head(r.recvq))
    [] a = "AR-1" -> Send(PopProv(r), "RELRQ")
    \* (the release indication also ends a pending wait for a DIMSE response, as A-ABORT does: C07 repair 3a6ff71)
    [] a = "AR-2" -> Sentinel(Put(PopRecv(r), "userq", "REL_IND"))
    [] a = "AR-3" -> KillDul(SockClose(Put(PopRecv(r), "userq", "REL_CONF")))
    [] a = "AR-4" -> ArtimStart(Send(PopProv(r), "RELRP"))
    [] a = "AR-5" -> KillDul(ArtimStop(SockShut(r)))
    [] a = "AR-6" -> Dimse(PopRecv(r), Head(r.recvq))
    [] a = "AR-7" -> Send(PopProv(r), PduOfPrim(Head(r.provq)))
    [] a = "AR-8" -> Put(PopRecv(r), "userq", "REL_IND")
    [] a = "AR-9" -> Send(PopProv(r), "RELRP")
    [] a = "AR-10" -> Put(PopRecv(r), "userq", "REL_CONF")
    [] a = "AA-1" -> IF r.provq # <<>> /\ Head(r.provq) \in {"ABORT", "ABORT_P"}
                     THEN ArtimStart(Send(PopProv(r), IF Head(r.provq) = "ABORT" THEN "ABORT0" ELSE "ABORT2"))
                     ELSE ArtimStart(Send(r, "ABORT0"))
    [] a = "AA-2" -> KillDul(Sentinel(SockClose(ArtimStop(r))))
    [] a = "AA-3" -> KillDul(Sentinel(SockClose(
                        Put(PopRecv(r), "userq", IF Head(r.recvq) = "ABORT0" THEN "ABORT" ELSE "PABORT"))))
    [] a = "AA-4" -> KillDul(Put(Sentinel(SockShut(r)), "userq", "PABORT"))
    [] a = "AA-5" -> KillDul(ArtimStop(SockShut(r)))
    [] a = "AA-6" -> IF r.recvq # <<>> THEN PopRecv(r) ELSE r
    [] a = "AA-7" -> Send(r, "ABORT2")
    [] a = "AA-8" -> ArtimStart(Put(Send(r, "ABORT2"), "userq", "PABORT"))

NextSt(r, a, n) == Effect(a, [requestor |-> Role[n] = "requestor",
                              pvOK |-> ~(r.recvq # <<>> /\ Head(r.recvq) = "RQBADPV"),
                              abortSrc |-> 0, headAbort |-> "none"]).next

------------------------------------------------------------------------------
(* Delivery of what a node sent / closed during a step to its environment *)
NewSent(r, r2) == SubSeq(r2.sent, Len(r.sent) + 1, Len(r2.sent))

RECURSIVE Concat(_, _)
Concat(s, t) == s \o t

\* The frame the peer node receives for a PDU kind we sent (pair mode)
Deliver(n, r, r2) ==
  IF Adversary
  THEN /\ UNCHANGED <<wire, weof>>
  ELSE LET o == Other[n] IN
       /\ wire' = [wire EXCEPT ![o] = @ \o NewSent(r, r2)]
       /\ weof' = [weof EXCEPT ![o] = @ \/ ClosedNow(r, r2)]

Upd(n, r2) == /\ nd' = [nd EXCEPT ![n] = r2]
              /\ Deliver(n, nd[n], r2)
              /\ UNCHANGED <<npeer, ntick>>

------------------------------------------------------------------------------
(* DUL provider thread *)

\* reading one PDU from the socket (dul._read_pdu_data), or noticing EOF
ReadPdu(n, r) ==
  IF wire[n] = <<>>
  THEN \* select says readable because of EOF: recv returns b"" -> struct.error -> Evt17
       [node |-> Put(r, "evq", 17), consume |-> FALSE]
  ELSE LET f == Head(wire[n]) IN
       IF f \in {"BADTYPE", "UNDEC"}
       THEN [node |-> Put(r, "evq", 19), consume |-> TRUE]
       ELSE [node |-> Put(Put(r, "recvq", f), "evq", FrameEvent(f)), consume |-> TRUE]

Ready(n, r) == r.sock = "open" /\ (wire[n] # <<>> \/ weof[n])

\* Time-progress assumption: a timeout (seconds) can only fire while the provider loop (which
\* iterates every millisecond) has nothing to do; a provider that is dead/finished is quiet too.
Quiet(n) == LET r == nd[n] IN
  \/ ~r.dalive
  \/ /\ r.dpc = "top" /\ r.evq = <<>> /\ r.provq = <<>> /\ ~r.dkill
     /\ ~ArtimExpiredFlag(r) /\ ~Ready(n, r) /\ r.sock # "shut"
     /\ ~(r.st = 13 /\ r.sock = "open")
\* ... except that a peer may dribble a PDU so slowly that time passes during the blocking read
SlowRead(n) == LET r == nd[n] IN Adversary /\ r.dalive /\ r.dpc = "top" /\ r.provq = <<>> /\ ~r.dkill
                                 /\ r.sock = "open" /\ wire[n] # <<>>
TimePasses(n) == ntick < MaxTick /\ Quiet(n)

\* One I/O half iteration: kill check, ARTIM check, then primitive peek OR transport
DulIO(n) ==
  LET r == nd[n] IN
  /\ r.dpc = "top"
  /\ IF r.dkill
     THEN /\ nd' = [nd EXCEPT ![n] = [r EXCEPT !.dpc = "done", !.dalive = FALSE]]
          /\ UNCHANGED <<wire, weof, npeer, ntick>>
     ELSE LET r1 == IF ArtimExpiredFlag(r) THEN Put(r, "evq", 18) ELSE r IN
          IF r1.provq # <<>>
          THEN \* a primitive from the local user is waiting: its event (peek, no pop)
               /\ nd' = [nd EXCEPT ![n] = [Put(r1, "evq", PrimEvent(Head(r1.provq))) EXCEPT !.dpc = "ev"]]
               /\ UNCHANGED <<wire, weof, npeer, ntick>>
          ELSE IF Ready(n, r1)
          THEN LET rd == ReadPdu(n, r1) IN
               /\ nd' = [nd EXCEPT ![n] = [rd.node EXCEPT !.dpc = "ev"]]
               /\ wire' = [wire EXCEPT ![n] = IF rd.consume THEN Tail(@) ELSE @]
               /\ UNCHANGED <<weof, npeer, ntick>>
          ELSE IF r1.sock = "shut"
          THEN \* select() on a descriptor closed by _shutdown_socket raises -> Evt17; in Sta13 the
               \* wrapper is then closed as well (a second Evt17)
               LET r2 == Put(r1, "evq", 17)
                   r3 == IF r2.st = 13 THEN SockClose(r2) ELSE r2 IN
               /\ nd' = [nd EXCEPT ![n] = [r3 EXCEPT !.dpc = "ev"]]
               /\ UNCHANGED <<wire, weof, npeer, ntick>>
          ELSE IF r1.st = 13
          THEN \* nothing more to read while waiting for the close: close the socket ourselves
               LET r2 == [SockClose(r1) EXCEPT !.dpc = "ev"] IN
               /\ nd' = [nd EXCEPT ![n] = r2]
               /\ Deliver(n, r1, r2)
               /\ UNCHANGED <<npeer, ntick>>
          ELSE /\ nd' = [nd EXCEPT ![n] = [r1 EXCEPT !.dpc = "ev"]]
               /\ UNCHANGED <<wire, weof, npeer, ntick>>

\* Events raised by the local user's primitives (A-ASSOCIATE response 7/8, P-DATA 9, A-RELEASE request 11 / response 14, A-ABORT 15)
\* and by the ARTIM timer (18).  As found, such an event reaching the provider in a state where Table 9-10 does not define it
\* kills the provider thread (InvalidEventError) - the code as found, DiscardUndefinedLocal = FALSE.  TRUE is the repair
\* proposed in /verif/proposed (the provider discards the event and its primitive): a configuration sets
\* DiscardUndefinedLocal <- ...  to check it; it is not applied because test_fsm.py waits for the thread to die.
LocalEvents == {7, 8, 9, 11, 14, 15, 18}
DiscardUndefinedLocal == FALSE

\* One event half iteration: pop at most one event and run its action
DulEvent(n) ==
  LET r == nd[n] IN
  /\ r.dpc = "ev"
  /\ IF r.evq = <<>>
     THEN /\ nd' = [nd EXCEPT ![n] = [r EXCEPT !.dpc = "top"]]
          /\ UNCHANGED <<wire, weof, npeer, ntick>>
     ELSE LET e  == Head(r.evq)
              r0 == [r EXCEPT !.evq = Tail(@)] IN
          IF ~Defined(e, r.st)
          THEN IF DiscardUndefinedLocal /\ e \in LocalEvents
               THEN \* (proposed C05 repair) an event raised by a local primitive or by the ARTIM timer that is not defined in the
                    \* current state is discarded together with its primitive; the loop goes on
                    /\ nd' = [nd EXCEPT ![n] = [r0 EXCEPT !.provq = IF e # 18 /\ r0.provq # <<>> THEN Tail(@) ELSE @, !.dpc = "top"]]
                    /\ UNCHANGED <<wire, weof, npeer, ntick>>
               ELSE \* InvalidEventError propagates out of run_reactor: the provider thread dies
                    /\ nd' = [nd EXCEPT ![n] = [r0 EXCEPT !.dpc = "dead", !.dalive = FALSE,
                                                         !.crash = <<Role[n], e, r.st>>]]
                    /\ UNCHANGED <<wire, weof, npeer, ntick>>
          ELSE LET a == Tbl(e, r.st) IN
               IF a = "AE-1"
               THEN \* transport connect: succeeds or is refused (environment)
                    \E ok \in BOOLEAN :
                      LET r1 == PopProv(r0)
                          r2 == IF ok THEN Put([r1 EXCEPT !.sock = "open"], "provq", "TCONN_OK")
                                      ELSE Put([r1 EXCEPT !.sock = "closed"], "provq", "TCONN_FAIL") IN
                      /\ (~Adversary => ok)
                      /\ nd' = [nd EXCEPT ![n] = [r2 EXCEPT !.st = 4, !.dpc = "top", !.conn = TRUE]]
                      /\ UNCHANGED <<wire, weof, npeer, ntick>>
               ELSE LET r2 == [Act(r0, a, n) EXCEPT !.st = NextSt(r0, a, n), !.dpc = "top"] IN
                    Upd(n, r2)

------------------------------------------------------------------------------
(* Thread continuations.                                                                       *)
(* kill() and abort() are called from several places of the association thread (pc field      *)
(* "apc", return label in "aret") and of user threads ("upc"/"uret").  When they return, the    *)
(* caller runs on to its next boundary; Cont() is that piece of code for each return label.     *)
RetF(f) == CASE f = "apc" -> "aret" [] f = "upc" -> "uret" [] OTHER -> "uret2"
NopsF(f) == IF f = "upc" THEN "nops" ELSE "nops2"
CollF(f) == IF f = "upc" THEN "ucoll" ELSE "ucoll2"
\* what the second user thread may call (a configuration overrides it with  UserOps2 <- ...)
UserOps2 == [n \in Nodes |-> {}]
OpsOf(n, f) == IF f = "upc" THEN UserOps[n] ELSE UserOps2[n]
AbortShutsSocket == FALSE
AbShut(r) == IF AbortShutsSocket THEN SockShut(r) ELSE r
KillFlags(r) == [r EXCEPT !.ckpt = TRUE, !.akill = TRUE, !.est = FALSE, !.paused = TRUE]

RECURSIVE Cont(_, _, _, _), KillEnter(_, _, _, _)
Cont(r, n, f, ret) ==
  CASE ret = "fin"     -> \* end of Association.run_reactor: an acceptor shuts the accepted socket down
                          [(IF Role[n] = "acceptor" THEN SockShut(r) ELSE r) EXCEPT !.apc = "done"]
    [] ret = "uret"    -> [r EXCEPT ![f] = "u_idle"]            \* the API call returns to the user (thread f)
    [] ret = "qend"    -> [r EXCEPT ![f] = "q_end"]             \* AE.associate() returns, not established
    [] ret = "rlend"   -> [r EXCEPT !.ckpt = TRUE, ![f] = "u_idle"]    \* release(): checkpoint.set()
    \* back in _run_reactor: `if self.acse.is_release_requested() and self.is_established:` - the queue is looked at
    \* first (since the C06 repair 54b6f12), whether or not the association is still established
    [] ret = "loop"    -> [r EXCEPT !.apc = "r_rel"]
    [] ret = "rkill"   -> KillEnter(r, n, f, "fin")             \* idle path: abort(); kill()
    \* after kill() inside abort(): the code means to shut the socket down here, but as coded
    \* (`cast(AssociationSocket, ...)` with a name imported only under TYPE_CHECKING) the call
    \* raises NameError inside `try/except Exception: pass`, so nothing happens; then a short
    \* pause and the return to the caller.  AbortShutsSocket = TRUE models the intended code.
    [] ret = "ab_fin"   -> Cont(AbShut(r), n, f, "fin")
    [] ret = "ab_uret"  -> Cont(AbShut(r), n, f, "uret")
    [] ret = "ab_qend"  -> Cont(AbShut(r), n, f, "qend")
    [] ret = "ab_loop"  -> Cont(AbShut(r), n, f, "loop")
    [] ret = "ab_rkill" -> Cont(AbShut(r), n, f, "rkill")

\* Association.kill(): flags, then `while dul.is_alive() and not dul.stop_dul(): sleep`
KillEnter(r, n, f, ret) ==
  LET r1 == KillFlags(r) IN
  IF ~r1.dalive THEN Cont(r1, n, f, ret)
  ELSE IF r1.st = 1 THEN [r1 EXCEPT !.dkill = TRUE, ![f] = "k_join", ![RetF(f)] = ret]
  ELSE [r1 EXCEPT ![f] = "k_spin", ![RetF(f)] = ret]

\* spinning in kill(): progress only when the provider is dead or idle
KillSpin(n, f) ==
  LET r == nd[n] IN
    \/ /\ r[f] = "k_spin"
       /\ \/ /\ ~r.dalive /\ Upd(n, Cont(r, n, f, r[RetF(f)]))
          \/ /\ r.dalive /\ r.st = 1
             /\ Upd(n, [r EXCEPT !.dkill = TRUE, ![f] = "k_join"])
    \/ /\ r[f] = "k_join"
       /\ ~r.dalive
       /\ Upd(n, Cont(r, n, f, r[RetF(f)]))

AbRet(ret) == CASE ret = "fin" -> "ab_fin" [] ret = "uret" -> "ab_uret" [] ret = "qend" -> "ab_qend"
                [] ret = "loop" -> "ab_loop" [] ret = "rkill" -> "ab_rkill"

(* Association.abort() == _abort_blocking(block=True) called on thread f; `ret` = what follows *)
\* AtomicOutcome: "test the outcome flags ... queue the primitive, set the flags, notify" as one step.  The code takes no
\* lock there; TRUE is the (named) idealisation the exhaustive configurations use, FALSE splits abort() and the reactor's
\* release branch at the point where another thread can get in between (the open finding "unsynchronised outcome flags":
\* TLC then finds two terminal notifications).  A configuration overrides it with  AtomicOutcome <- ... .
AtomicOutcome == TRUE
AbortCommit(r1, n, f, ret) ==
  LET r2 == [Put(r1, "provq", "ABORT") EXCEPT !.abt = TRUE, !.est = FALSE]
      r3 == Fire(r2, "ABORTED") IN
  KillEnter(r3, n, f, AbRet(ret))
AbortCall(r, n, f, ret) ==
  \* (the guard also tests is_aborted / is_rejected since the repair of the repeated EVT_ABORTED, C06)
  IF r.sentAbort \/ r.rel \/ r.abt \/ r.rej THEN Cont(r, n, f, ret)
  ELSE LET r1 == [r EXCEPT !.sentAbort = TRUE, !.ckpt = TRUE] IN
       IF AtomicOutcome THEN AbortCommit(r1, n, f, ret)
       ELSE [r1 EXCEPT ![f] = "ab_mid", ![RetF(f)] = ret]      \* guard passed; send_abort / flags / EVT_ABORTED still to come
\* the second half of abort() when it is not atomic
AbortMid(n, f) ==
  LET r == nd[n] IN
  /\ r[f] = "ab_mid"
  /\ Upd(n, AbortCommit(r, n, f, r[RetF(f)]))

\* _run_reactor entry: `_is_paused = False; while not self._kill:` -> parked in the loop-top sleep
\* _run_reactor left through `_kill` set by another thread: an acceptor's run_reactor then calls kill() itself
\* (waits for the provider) before it shuts the accepted socket down (C06 repair); a requestor's just ends
LeaveReactor(r, n) == IF Role[n] = "acceptor" THEN KillEnter(r, n, "apc", "fin") ELSE Cont(r, n, "apc", "fin")
EnterReactor(r, n) == LET r1 == [r EXCEPT !.paused = FALSE] IN
                      IF r1.akill THEN LeaveReactor(r1, n) ELSE [r1 EXCEPT !.apc = "r_top"]

------------------------------------------------------------------------------
(* Association thread: acceptor negotiation, then the reactor loop *)

AStart(n) ==   \* Association.start(): start the provider thread (acceptor), wait for _dul_ready
  LET r == nd[n] IN
  /\ r.apc = "a_start"
  /\ Upd(n, [r EXCEPT !.dalive = TRUE, !.dpc = "top", !.apc = "acc_wait"])

AccWait(n) ==   \* receive_pdu(wait=True, timeout=acse_timeout), EVT_REQUESTED, negotiation
  LET r == nd[n] IN
  /\ r.apc = "acc_wait"
  /\ \/ /\ r.userq # <<>>
        /\ LET r1 == Fire([r EXCEPT !.userq = Tail(@)], "REQUESTED") IN
           \E d \in Policy[n] :
             IF r1.abt \/ r1.rej
             THEN \* aborted (or rejected) meanwhile: negotiation is skipped, the thread ends
                  Upd(n, Cont(r1, n, "apc", "fin"))
             ELSE IF d = "reject"
             THEN Upd(n, KillEnter(Fire([Put(r1, "provq", "ASSOC_RJ") EXCEPT !.rej = TRUE], "REJECTED"),
                                   n, "apc", "fin"))
             ELSE LET r2 == Fire(Fire([Put(r1, "provq", "ASSOC_AC") EXCEPT !.est = TRUE], "ACCEPTED"), "ESTABLISHED") IN
                  Upd(n, EnterReactor(r2, n))
     \/ /\ r.userq = <<>> /\ TimePasses(n)      \* ACSE timeout: kill(), shutdown
        /\ nd' = [nd EXCEPT ![n] = KillEnter(r, n, "apc", "fin")]
        /\ ntick' = ntick + 1
        /\ UNCHANGED <<wire, weof, npeer>>

RTop(n) ==      \* the loop-top sleep returns; _is_paused = True
  LET r == nd[n] IN
  /\ r.apc = "r_top"
  /\ Upd(n, [r EXCEPT !.paused = TRUE, !.apc = "r_wait"])

RWait(n) ==     \* _reactor_checkpoint.wait(); _is_paused = False
  LET r == nd[n] IN
  /\ r.apc = "r_wait" /\ r.ckpt
  /\ Upd(n, [r EXCEPT !.paused = FALSE, !.apc = "r_msg"])

\* abort() called from inside a service handler is the non-blocking variant: guard, mark, A-ABORT
\* request, flags, EVT_ABORTED - and return (no kill, no shutdown)
AbortNonBlocking(r) ==
  IF r.sentAbort \/ r.rel THEN r
  ELSE Fire([Put([r EXCEPT !.sentAbort = TRUE, !.ckpt = TRUE], "provq", "ABORT") EXCEPT !.abt = TRUE, !.est = FALSE],
            "ABORTED")

RMsg(n) ==      \* dimse.get_msg(block=False) and _serve_request
  LET r == nd[n] IN
  /\ r.apc = "r_msg"
  /\ LET r1 == IF r.msgq = <<>> THEN r ELSE [r EXCEPT !.msgq = Tail(@)] IN
     IF r.msgq # <<>> /\ Head(r.msgq) = "REQ" /\ ~r.sentRel
     THEN \* a valid request (and no release sent yet) is served: _is_paused set around the SCP;
          \* the handler may abort; the SCP answers only if the association is still established
          \E ha \in HandlerAbort[n] :
            LET r2 == IF ha THEN AbortNonBlocking(r1) ELSE r1
                r3 == [(IF r2.est THEN Put(r2, "provq", "PDATA_RSP") ELSE r2) EXCEPT !.paused = FALSE] IN
            Upd(n, Cont(r3, n, "apc", "loop"))
     ELSE Upd(n, Cont(r1, n, "apc", "loop"))

RRel(n) ==      \* if acse.is_release_requested() [takes a pending A-RELEASE indication] and is_established
  LET r == nd[n] IN
  /\ r.apc = "r_rel"
  /\ IF r.userq # <<>> /\ Head(r.userq) = "REL_IND"
     THEN LET r0 == [r EXCEPT !.userq = Tail(@)] IN
          IF ~r0.est THEN Upd(n, [r0 EXCEPT !.apc = "r_abt"])        \* taken, not answered: the association has ended
          ELSE IF AtomicOutcome
          THEN Upd(n, KillEnter(Fire([Put(r0, "provq", "REL_RP") EXCEPT !.rel = TRUE, !.est = FALSE, !.sentRel = TRUE], "RELEASED"),
                                n, "apc", "fin"))
          ELSE \* test passed, A-RELEASE-RP queued; is_released / EVT_RELEASED still to come
               Upd(n, [Put(r0, "provq", "REL_RP") EXCEPT !.sentRel = TRUE, !.apc = "r_rel_mid"])
     ELSE Upd(n, [r EXCEPT !.apc = "r_abt"])
RRelMid(n) ==
  LET r == nd[n] IN
  /\ r.apc = "r_rel_mid"
  /\ Upd(n, KillEnter(Fire([r EXCEPT !.rel = TRUE, !.est = FALSE], "RELEASED"), n, "apc", "fin"))

RAbt(n) ==      \* if acse.is_aborted(): ...; if not dul.is_alive(): ...
  LET r == nd[n] IN
  /\ r.apc = "r_abt"
  /\ IF r.userq # <<>> /\ Head(r.userq) \in {"ABORT", "PABORT"}
     \* (a local abort() that got there first has already reported it: no second EVT_ABORTED, C06 repair)
     THEN Upd(n, KillEnter(IF r.sentAbort \/ r.rel THEN [r EXCEPT !.userq = Tail(@)]
                           ELSE Fire([r EXCEPT !.userq = Tail(@), !.abt = TRUE, !.est = FALSE], "ABORTED"),
                           n, "apc", "fin"))
     ELSE IF ~r.dalive THEN Upd(n, KillEnter(r, n, "apc", "fin"))
     ELSE Upd(n, [r EXCEPT !.apc = "r_idle"])

RIdle(n) ==     \* network (idle) timeout check, then the `while not self._kill` test
  LET r == nd[n] IN
  /\ r.apc = "r_idle"
  \* (left through `_kill` set by another thread: run_reactor calls kill() itself, i.e. waits for the provider,
  \*  before an acceptor shuts the socket down - C06 repair)
  /\ \/ Upd(n, IF r.akill THEN LeaveReactor(r, n) ELSE [r EXCEPT !.apc = "r_top"])
     \/ /\ TimePasses(n)
        /\ nd' = [nd EXCEPT ![n] = AbortCall(r, n, "apc", "rkill")]
        /\ ntick' = ntick + 1
        /\ UNCHANGED <<wire, weof, npeer>>

------------------------------------------------------------------------------
(* User thread: AE.associate() for the requestor *)

QStart(n) ==    \* dul.start(); send_request(); EVT_REQUESTED
  LET r == nd[n] IN
  /\ r.upc = "q_start"
  /\ Upd(n, [Fire(Put(r, "provq", "ASSOC_RQ"), "REQUESTED") EXCEPT !.dalive = TRUE, !.dpc = "top", !.upc = "q_conn"])

QConn(n) ==     \* socket._ready.wait(); if not connected: abort()
  LET r == nd[n] IN
  /\ r.upc = "q_conn" /\ r.conn
  /\ IF r.sock # "open" THEN Upd(n, AbortCall(r, n, "upc", "qend"))
     ELSE Upd(n, [r EXCEPT !.upc = "q_wait"])

QWait(n) ==     \* receive_pdu(wait=True, timeout=acse_timeout) and the reaction
  LET r == nd[n] IN
  /\ r.upc = "q_wait"
  /\ \/ /\ r.userq # <<>>
        /\ LET p  == Head(r.userq)
               r1 == [r EXCEPT !.userq = Tail(@)] IN
           IF p = "ASSOC_AC"
           THEN \* accepted: established; AE.associate() starts the association thread and returns
                LET r2 == Fire(Fire([r1 EXCEPT !.est = TRUE], "ACCEPTED"), "ESTABLISHED") IN
                Upd(n, [EnterReactor(r2, n) EXCEPT !.upc = "u_idle"])
           ELSE IF p = "ASSOC_RJ"
           THEN Upd(n, [Fire([r1 EXCEPT !.rej = TRUE], "REJECTED") EXCEPT !.dkill = TRUE, !.upc = "q_end"])
           ELSE IF p \in {"ABORT", "PABORT"}
           THEN Upd(n, [Fire([r1 EXCEPT !.abt = TRUE], "ABORTED") EXCEPT !.dkill = TRUE, !.upc = "q_end"])
           ELSE Upd(n, [r1 EXCEPT !.dkill = TRUE, !.upc = "q_end"])
     \/ /\ r.userq = <<>> /\ TimePasses(n)    \* ACSE timeout -> abort()
        /\ nd' = [nd EXCEPT ![n] = AbortCall(r, n, "upc", "qend")]
        /\ ntick' = ntick + 1
        /\ UNCHANGED <<wire, weof, npeer>>

------------------------------------------------------------------------------
(* User threads: public API calls on an association object; f is the thread ("upc", or "upc2" for a second one) *)
CanCall(n, op, f) == /\ nd[n][f] = "u_idle" /\ op \in OpsOf(n, f) /\ nd[n][NopsF(f)] < MaxOps
                     /\ nd[n].apc # "a_start" /\ nd[n].upc \notin {"q_start", "q_conn", "q_wait"}

UAbort(n, f) ==
  LET r == nd[n] IN
  /\ CanCall(n, "abort", f)
  /\ Upd(n, AbortCall([r EXCEPT ![NopsF(f)] = @ + 1], n, f, "uret"))

\* negotiate_release(): send_release(request) up to the blocking receive_pdu
SendRelRq(r, f) == [Put(r, "provq", "REL_RQ") EXCEPT !.sentRel = TRUE, ![f] = "rl_wait"]

\* release(): est test; checkpoint.clear(); spin until paused; negotiate_release()
URelease(n, f) ==
  LET r == nd[n] IN
  /\ CanCall(n, "release", f)
  /\ IF ~r.est THEN Upd(n, [r EXCEPT ![NopsF(f)] = @ + 1])
     ELSE LET r1 == [r EXCEPT ![NopsF(f)] = @ + 1, !.ckpt = FALSE, ![CollF(f)] = FALSE] IN
          IF r1.paused THEN Upd(n, SendRelRq(r1, f))
          ELSE Upd(n, [r1 EXCEPT ![f] = "rl_spin"])

RlSpin(n, f) ==
  LET r == nd[n] IN
  /\ r[f] = "rl_spin" /\ r.paused
  \* (the association may have ended while release() waited for the reactor: re-test, C06 repair)
  /\ Upd(n, IF r.est THEN SendRelRq(r, f) ELSE Cont(r, n, f, "rlend"))

RlWait(n, f) ==    \* negotiate_release loop: receive_pdu(wait=True, timeout=acse_timeout)
  LET r == nd[n] IN
  /\ r[f] = "rl_wait"
  /\ \/ /\ r.userq # <<>>
        /\ LET p  == Head(r.userq)
               r1 == [r EXCEPT !.userq = Tail(@)] IN
           IF p \in {"ABORT", "PABORT"}
           THEN \* (a concurrent abort() has already reported it: no second EVT_ABORTED, C06 repair)
                Upd(n, KillEnter(IF r1.abt \/ r1.rel THEN r1 ELSE Fire([r1 EXCEPT !.abt = TRUE, !.est = FALSE], "ABORTED"), n, f, "rlend"))
           ELSE IF p = "REL_IND"
           THEN \* release collision
                IF Role[n] = "requestor"
                THEN Upd(n, [Put(r1, "provq", "REL_RP") EXCEPT ![CollF(f)] = TRUE])
                ELSE Upd(n, [r1 EXCEPT ![CollF(f)] = TRUE])
           ELSE \* a primitive with a result: the release confirmation
                LET r2 == IF Role[n] = "acceptor" /\ r1[CollF(f)] THEN Put(r1, "provq", "REL_RP") ELSE r1 IN
                \* (not reported if a concurrent abort() has already reported the abort, or the reactor the release: C06 repairs)
                Upd(n, KillEnter(IF r2.abt \/ r2.rel THEN r2 ELSE Fire([r2 EXCEPT !.rel = TRUE, !.est = FALSE], "RELEASED"), n, f, "rlend"))
     \/ /\ r.userq = <<>> /\ TimePasses(n)    \* ACSE timeout: send_abort(0x02), kill
        /\ nd' = [nd EXCEPT ![n] = KillEnter(IF r.abt \/ r.rel THEN r
                                             ELSE Fire([Put(r, "provq", "ABORT_P") EXCEPT !.abt = TRUE, !.est = FALSE], "ABORTED"),
                                             n, f, "rlend")]
        /\ ntick' = ntick + 1
        /\ UNCHANGED <<wire, weof, npeer>>

\* send_c_echo(): est test; checkpoint.clear(); spin; send_msg; get_msg(block=True); checkpoint.set()
UEcho(n, f) ==
  LET r == nd[n] IN
  /\ CanCall(n, "echo", f)
  /\ IF ~r.est THEN Upd(n, [r EXCEPT ![NopsF(f)] = @ + 1])    \* raises RuntimeError
     ELSE LET r1 == [r EXCEPT ![NopsF(f)] = @ + 1, !.ckpt = FALSE] IN
          IF r1.paused THEN Upd(n, [Put(r1, "provq", "PDATA") EXCEPT ![f] = "e_wait"])
          ELSE Upd(n, [r1 EXCEPT ![f] = "e_spin"])

ESpin(n, f) ==
  LET r == nd[n] IN
  /\ r[f] = "e_spin" /\ r.paused
  /\ Upd(n, [Put(r, "provq", "PDATA") EXCEPT ![f] = "e_wait"])

\* _handle_no_response
\* (an A-ABORT / A-P-ABORT indication, and since the C06 repair a pending A-RELEASE request, is left to the reactor)
NoResponse(r, n, f) == IF r.userq # <<>> /\ Head(r.userq) \in {"ABORT", "PABORT", "REL_IND"} THEN Cont(r, n, f, "uret")
                       ELSE IF r.est THEN AbortCall(r, n, f, "uret")
                       ELSE Cont(r, n, f, "uret")

EWait(n, f) ==     \* get_msg(block=True) with the DIMSE timeout; then checkpoint.set(); then the result
  LET r == nd[n] IN
  /\ r[f] = "e_wait"
  /\ \/ /\ r.msgq # <<>>
        /\ LET m  == Head(r.msgq)
               r1 == [r EXCEPT !.msgq = Tail(@), !.ckpt = TRUE] IN
           IF m = "NONE" THEN Upd(n, NoResponse(r1, n, f))
           ELSE IF m = "RSP" THEN Upd(n, Cont(r1, n, f, "uret"))
           ELSE \* a request where a response was expected: invalid response -> abort()
                Upd(n, AbortCall(r1, n, f, "uret"))
     \/ /\ r.msgq = <<>> /\ TimePasses(n)     \* DIMSE timeout
        /\ nd' = [nd EXCEPT ![n] = NoResponse([r EXCEPT !.ckpt = TRUE], n, f)]
        /\ ntick' = ntick + 1
        /\ UNCHANGED <<wire, weof, npeer>>

------------------------------------------------------------------------------
(* Environment: clock and adversarial peer *)
ArtimTick(n) ==
  /\ nd[n].artim = "run" /\ ntick < MaxTick /\ (Quiet(n) \/ SlowRead(n))
  /\ nd' = [nd EXCEPT ![n].artim = "exp"]
  /\ ntick' = ntick + 1
  /\ UNCHANGED <<wire, weof, npeer>>

PeerSend(n, f) ==
  /\ Adversary /\ npeer < MaxPeer /\ ~weof[n]
  /\ nd[n].sock \in {"open", "shut", "closed"}     \* a connection exists / existed
  /\ wire' = [wire EXCEPT ![n] = Append(@, f)]
  /\ npeer' = npeer + 1
  /\ UNCHANGED <<nd, weof, ntick>>

PeerClose(n) ==
  /\ Adversary /\ ~weof[n] /\ nd[n].sock # "unconn"
  /\ weof' = [weof EXCEPT ![n] = TRUE]
  /\ UNCHANGED <<nd, wire, npeer, ntick>>

------------------------------------------------------------------------------
DulStep(n)   == DulIO(n) \/ DulEvent(n)
AssocStep(n) == AStart(n) \/ AccWait(n) \/ RTop(n) \/ RWait(n) \/ RMsg(n) \/ RRel(n) \/ RRelMid(n) \/ RAbt(n)
                \/ RIdle(n) \/ KillSpin(n, "apc") \/ AbortMid(n, "apc")
UThread(n, f) == UAbort(n, f) \/ URelease(n, f) \/ RlSpin(n, f) \/ RlWait(n, f) \/ UEcho(n, f) \/ ESpin(n, f) \/ EWait(n, f)
                 \/ KillSpin(n, f) \/ AbortMid(n, f)
UserStep(n)  == QStart(n) \/ QConn(n) \/ QWait(n) \/ UThread(n, "upc") \/ UThread(n, "upc2")
EnvStep(n)   == ArtimTick(n) \/ PeerClose(n) \/ \E f \in PeerFrames : PeerSend(n, f)

Next == \E n \in Nodes : DulStep(n) \/ AssocStep(n) \/ UserStep(n) \/ EnvStep(n)
Spec == Init /\ [][Next]_vars
FairSpec == Spec /\ \A n \in Nodes : WF_vars(DulStep(n)) /\ WF_vars(AssocStep(n)) /\ WF_vars(UserStep(n))

------------------------------------------------------------------------------
(* Properties *)
Terminals(r) == Len(SelectSeq(r.fired, LAMBDA e : e \in {"RELEASED", "ABORTED", "REJECTED"}))

\* C05: the provider never processes an event that is undefined for its state
C05_DefinedEventsOnly == \A n \in Nodes : nd[n].crash = <<>> \/ nd[n].crash \in KnownCrash

\* every thread of the node has run to completion
ThreadsDone(r) == /\ r.dpc \in {"none", "done", "dead"}
                  /\ r.apc \in {"none", "done"}
                  /\ r.upc \in {"u_idle", "q_end"} /\ r.upc2 = "u_idle"
\* "idle": the provider thread ended normally and the transport connection is closed.  A thread
\* that was told to stop while in Sta1 with the connection indication still queued ends in Sta2
\* (nothing runs any more, socket closed); that is recorded by IdleStrict as an observation only.
Idle(r) == r.sock # "open" /\ ~r.dalive /\ r.dpc \in {"none", "done"}
IdleStrict(r) == Idle(r) /\ r.st = 1
\* C05 (safety half of "returns to idle"): when all threads of a node are done the provider is idle
C05_DoneImpliesIdle == \A n \in Nodes :
   (ThreadsDone(nd[n]) /\ nd[n].dpc # "none" /\ nd[n].crash = <<>>) => Idle(nd[n])
\* ---- C06 (pair instance): one terminal notification, agreement and no leak at quiescence ----
Crashed(r) == r.crash # <<>>
Quiescent == \A n \in Nodes : ThreadsDone(nd[n])
Started(r) == r.dpc # "none"
C06_OneTerminal == \A n \in Nodes : Crashed(nd[n]) \/ Terminals(nd[n]) <= 1
\* "Same outcome" as the property words it: both released, or both rejected, or at least one side aborted and
\* the other sees an abort or just a closed connection (it may have completed its half of a release before).
\* The last case needs a source of aborts: without any abort() call and without any timeout expiring (Calm)
\* two crash-free peers must both end released (or both rejected).
SeesEnd(r) == r.abt \/ ~r.est
Calm == ntick = 0 /\ \A n \in Nodes : ~nd[n].sentAbort
OutcomeOK(r, p) == \/ r.rel /\ p.rel
                   \/ ~Calm /\ (r.abt \/ p.abt) /\ SeesEnd(r) /\ SeesEnd(p)
                   \/ r.rej /\ (p.rej \/ ~Started(p))
                   \/ ~Started(r) \/ ~Started(p)
C06_OneFlag == \A n \in Nodes : Crashed(nd[n]) \/
                  (IF nd[n].rel THEN 1 ELSE 0) + (IF nd[n].abt THEN 1 ELSE 0) + (IF nd[n].rej THEN 1 ELSE 0) <= 1
C06_Agreement == (Quiescent /\ \A n \in Nodes : ~Crashed(nd[n])) =>
                    \A n \in Nodes : Role[n] = "requestor" => OutcomeOK(nd[n], nd[Other[n]])
C06_NoLeak == (Quiescent /\ \A n \in Nodes : ~Crashed(nd[n])) => \A n \in Nodes : Started(nd[n]) => (Idle(nd[n]) /\ ~nd[n].est)
\* C05 liveness: eventually always idle (checked under FairSpec on small configurations)
C05_BackToIdle == \A n \in Nodes : <>[](nd[n].dpc # "none" => Idle(nd[n]))
=============================================================================
