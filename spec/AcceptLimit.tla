---------------------------- MODULE AcceptLimit ----------------------------
(***************************************************************************)
(* C14 - concurrent acceptor associations never exceed the maximum.        *)
(*                                                                         *)
(* Every connection accepted by an AssociationServer starts an acceptor    *)
(* Association thread.  During negotiation (ACSE._negotiate_as_acceptor)   *)
(* the thread takes one reading                                            *)
(*     active_acceptors = [t for t in ae.active_associations               *)
(*                         if t.is_acceptor]        (threading.enumerate)  *)
(* and rejects with (result 2 transient, source 3 provider-presentation,   *)
(* reason 2 local-limit-exceeded) iff  len(active_acceptors) > maximum.    *)
(* The reading counts every acceptor association THREAD that is alive -    *)
(* itself, those still negotiating, those about to be rejected, those      *)
(* established - not only the established ones.  Then, in separate steps,  *)
(* the A-ASSOCIATE-AC is sent and is_established is set.                   *)
(*                                                                         *)
(* Threads are the processes; each step below is one of those code         *)
(* sections, and TLC explores all interleavings of N requests with         *)
(* associations ending at any time.  CountWhat = "alive" is the code;      *)
(* "established" (count only established associations: check-then-act      *)
(* race) and Strict = FALSE (>= instead of >) are refuted / over-strict    *)
(* variants kept to show that the invariants discriminate.                 *)
(***************************************************************************)
EXTENDS Integers, Sequences, FiniteSets, TLC
CONSTANTS Threads,        \* the association requests
          Max,            \* AE.maximum_associations
          CountWhat,      \* "alive" | "established" | "tracked" (only threads of servers still registered with the AE)
          Servers,        \* the AE's listening servers (start_server may be called several times; the limit is the AE's)
          MaxRestarts,    \* how often a server may be shut down and started again (its associations go on)
          Bad,            \* requests that are unacceptable for another reason as well (wrong called AE title while
                          \* require_called_aet is set): over the limit they are still answered with the limit's reason
          MaxLen          \* bound on the exported history (scenario length)

VARIABLES pc,        \* per thread: "idle" "negotiating" "accepting" "established" "rejecting" "ended"
          seen,      \* per thread: the count its reading returned (0 before)
          reason,    \* per thread: the reject reason sent (<<>> if none)
          srv,       \* per thread: <<server, generation>> that accepted its connection
          gen,       \* per server: generation (incremented by shutdown + start_server)
          hist       \* history of steps, for replay on the real AE
vars == <<pc, seen, reason, srv, gen, hist>>

Alive(t) == pc[t] \in {"negotiating", "accepting", "established", "rejecting"}
Count == CASE CountWhat = "alive"       -> Cardinality({t \in Threads : Alive(t)})
           [] CountWhat = "established" -> Cardinality({t \in Threads : pc[t] = "established"}) + 1
           [] CountWhat = "tracked"     -> Cardinality({t \in Threads : Alive(t) /\ srv[t][2] = gen[srv[t][1]]})
Step(s) == hist' = Append(hist, s)

Init == /\ pc = [t \in Threads |-> "idle"] /\ seen = [t \in Threads |-> 0]
        /\ reason = [t \in Threads |-> <<>>] /\ hist = <<>>
        /\ srv = [t \in Threads |-> <<CHOOSE x \in Servers : TRUE, 0>>] /\ gen = [x \in Servers |-> 0]

\* the server accepts the connection, starts the thread; the A-ASSOCIATE-RQ is read; negotiation up to the reading
Spawn(t) == /\ pc[t] = "idle" /\ pc' = [pc EXCEPT ![t] = "negotiating"]
            /\ \E x \in Servers : srv' = [srv EXCEPT ![t] = <<x, gen[x]>>] /\ Step(<<"spawn", t, x>>)
            /\ UNCHANGED <<seen, reason, gen>>
\* server.shutdown() followed by AE.start_server() again: the listener is replaced, the associations it accepted go on
Restart(x) == /\ gen[x] < MaxRestarts /\ gen' = [gen EXCEPT ![x] = @ + 1]
              /\ Step(<<"restart", 0, x>>) /\ UNCHANGED <<pc, seen, reason, srv>>
\* the reading and the decision
Check(t) == /\ pc[t] = "negotiating"
            /\ seen' = [seen EXCEPT ![t] = Count]
            /\ IF Count > Max
               THEN pc' = [pc EXCEPT ![t] = "rejecting"] /\ reason' = [reason EXCEPT ![t] = <<2, 3, 2>>]
               ELSE IF t \in Bad
               THEN pc' = [pc EXCEPT ![t] = "rejecting"] /\ reason' = [reason EXCEPT ![t] = <<1, 1, 7>>]
               ELSE pc' = [pc EXCEPT ![t] = "accepting"] /\ UNCHANGED reason
            /\ Step(<<"check", t, 0>>) /\ UNCHANGED <<srv, gen>>
\* A-ASSOCIATE-AC sent, is_established = True
Establish(t) == /\ pc[t] = "accepting" /\ pc' = [pc EXCEPT ![t] = "established"]
                /\ Step(<<"establish", t, 0>>) /\ UNCHANGED <<seen, reason, srv, gen>>
\* A-ASSOCIATE-RJ sent, the thread ends
Rejected(t) == /\ pc[t] = "rejecting" /\ pc' = [pc EXCEPT ![t] = "ended"]
               /\ Step(<<"rejected", t, 0>>) /\ UNCHANGED <<seen, reason, srv, gen>>
\* an established association ends (released or aborted by the peer) and its thread finishes
End(t) == /\ pc[t] = "established" /\ pc' = [pc EXCEPT ![t] = "ended"]
          /\ Step(<<"end", t, 0>>) /\ UNCHANGED <<seen, reason, srv, gen>>

Next == \/ \E t \in Threads : Spawn(t) \/ Check(t) \/ Establish(t) \/ Rejected(t) \/ End(t)
        \/ \E x \in Servers : Restart(x)
Spec == Init /\ [][Next]_vars

NEstablished == Cardinality({t \in Threads : pc[t] = "established"})
\* C14: never more than Max simultaneously established (nor committed to be: accepting counts too)
C14_Bound == NEstablished <= Max
C14_BoundCommitted == Cardinality({t \in Threads : pc[t] \in {"accepting", "established"}}) <= Max
\* a request is rejected only for the limit, with the transient / presentation-related / local-limit-exceeded reason
C14_Reason == \A t \in Threads : pc[t] \in {"rejecting", "ended"} /\ reason[t] # <<>> =>
                                      IF seen[t] > Max THEN reason[t] = <<2, 3, 2>> ELSE (t \in Bad /\ reason[t] = <<1, 1, 7>>)
\* (observation, not required by the property: when no more than Max requests ever overlap, nobody is rejected)
NoNeedlessReject == Cardinality({t \in Threads : pc[t] # "idle"}) <= Max => \A t \in Threads \ Bad : reason[t] = <<>>

Quiet == \A t \in Threads : pc[t] \in {"idle", "established", "ended"}
Export == (Quiet /\ Len(hist) > 0 /\ (Len(hist) >= MaxLen \/ \A t \in Threads : pc[t] # "idle")) => PrintT(<<"CASE", hist>>)
Bounded == Len(hist) <= MaxLen
\* exhaustive search over the protocol state only; the history rides along (one witness history per state)
View == <<pc, seen, reason, srv, gen>>
=============================================================================
