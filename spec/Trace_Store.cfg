SPECIFICATION TSpec
