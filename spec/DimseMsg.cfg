SPECIFICATION Spec
INVARIANT Export
