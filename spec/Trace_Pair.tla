------------------------------ MODULE Trace_Pair ------------------------------
(* C2S for the pair-level clauses of C06: o = [id, r, a (outcome views of requestor / acceptor), in_time, calm]   *)
(* view = [present, released, aborted, rejected, established, alive, sockopen]                              *)
EXTENDS Integers, Sequences, Json, IOUtils, TLC
Obs == ndJsonDeserialize(IOEnv.TRACE)
VARIABLE i
Outcomes(v) == (IF v.released THEN 1 ELSE 0) + (IF v.aborted THEN 1 ELSE 0) + (IF v.rejected THEN 1 ELSE 0)
\* "Same outcome" as the property words it: both released, both rejected, or at least one side aborted and the
\* other sees an abort or just a closed connection (it may have completed its half of a release before).  The
\* last case needs a source of aborts: in a calm scenario (nobody calls abort(), no timeout can have expired,
\* no thread died) both sides must end released (or rejected).
SeesEnd(v) == v.aborted \/ ~v.established
Agreement(o) == LET r == o.r  a == o.a IN
                   \/ r.released /\ a.released
                   \/ ~o.calm /\ (r.aborted \/ a.aborted) /\ SeesEnd(r) /\ SeesEnd(a)
                   \/ r.rejected /\ (a.rejected \/ ~a.present)
C06p(o) ==
  IF ~o.in_time THEN "C06_Terminates"
  ELSE IF o.r.alive \/ o.a.alive THEN "C06_ThreadLeft"
  ELSE IF o.r.sockopen \/ o.a.sockopen THEN "C06_SocketOpen"
  ELSE IF Outcomes(o.r) > 1 \/ Outcomes(o.a) > 1 THEN "C06_OneOutcome"
  ELSE IF o.a.present /\ ~Agreement(o) THEN "C06_Agreement"
  ELSE IF o.r.established \/ o.a.established THEN "C06_StillEstablished"
  ELSE "ok"
TInit == i = 1
TNext == /\ i <= Len(Obs) /\ PrintT(<<"VERDICT", Obs[i].id, C06p(Obs[i])>>) /\ i' = i + 1
TSpec == TInit /\ [][TNext]_i
=============================================================================
