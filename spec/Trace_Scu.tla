------------------------------ MODULE Trace_Scu ------------------------------
(* C2S for C24: what the real SCU iterators yielded for a scripted peer, judged with Scu's predicates. *)
(* o: [id, op, script (items), y (yields: st, ident, item), aborted, locks (lock held at each yield)]   *)
EXTENDS Scu, Json, IOUtils
Obs == ndJsonDeserialize(IOEnv.TRACE)
VARIABLE i
C24v(o) ==
  LET repo == o.op = "FINDREPO" IN
  IF o.op # "SINGLE" /\ ~C24_OnceInOrderP(o.script, o.y, repo) THEN "C24_OnceInOrder"
  ELSE IF o.op # "SINGLE" /\ ~C24_StopsAtFinalP(o.y, repo) THEN "C24_StopsAtFinal"
  ELSE IF ~C24_FailCleanP(o.script, o.y, o.aborted) THEN "C24_FailClean"
  ELSE IF ~C24_UndecodableP(o.script, o.y) THEN "C24_Undecodable"
  ELSE IF ~C24_NoLockP(o.locks) THEN "C24_LockHeldWhileSuspended"
  ELSE "ok"
TInit == i = 1 /\ Init
TNext == /\ i <= Len(Obs) /\ PrintT(<<"VERDICT", Obs[i].id, C24v(Obs[i])>>) /\ i' = i + 1 /\ UNCHANGED vars
TSpec == TInit /\ [][TNext]_<<i, vars>>
=============================================================================
