SPECIFICATION TraceSpec
CONSTANTS ClockKind = "mono"
          MaxT = 1000000
          Timeouts = {0}
