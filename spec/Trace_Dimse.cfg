SPECIFICATION TSpec
