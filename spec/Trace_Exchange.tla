--------------------------- MODULE Trace_Exchange ---------------------------
(***************************************************************************)
(* C2S for C26: a pair of runs of the same deterministic scenario on two   *)
(* real AEs - ref: notification handlers bound on every notification event *)
(* of both sides, none raises; run: the same handlers raise where the case *)
(* says (Notify.tla: any subset of invocations, several handler flavours). *)
(*  o = [id, stable  (two reference runs gave the same exchange),          *)
(*       ref, run : [wire_r, wire_a  PDU types written / read per side,    *)
(*                   dimse_r, dimse_a DIMSE messages sent / received,      *)
(*                   out_r, out_a     outcome flags, results  user-visible *)
(*                   statuses], crashed (a thread died with an exception), *)
(*       calls (raising invocations that actually happened)]               *)
(***************************************************************************)
EXTENDS Integers, Sequences, Json, IOUtils, TLC
Obs == ndJsonDeserialize(IOEnv.TRACE)
VARIABLE i
C26v(o) ==
  IF ~o.stable THEN "UNSTABLE"
  ELSE IF o.crashed THEN "C26_Escaped"
  ELSE IF o.run.wire_r # o.ref.wire_r \/ o.run.wire_a # o.ref.wire_a THEN "C26_SamePdus"
  ELSE IF o.run.dimse_r # o.ref.dimse_r \/ o.run.dimse_a # o.ref.dimse_a THEN "C26_SameMessages"
  ELSE IF o.run.out_r # o.ref.out_r \/ o.run.out_a # o.ref.out_a THEN "C26_SameOutcome"
  ELSE IF o.run.results # o.ref.results THEN "C26_SameResults"
  ELSE IF o.calls = 0 THEN "VACUOUS"
  ELSE "ok"
TInit == i = 1
TNext == /\ i <= Len(Obs) /\ PrintT(<<"VERDICT", Obs[i].id, C26v(Obs[i])>>) /\ i' = i + 1
TSpec == TInit /\ [][TNext]_i
=============================================================================
