------------------------------- MODULE Framing -------------------------------
(***************************************************************************)
(* C03: PDU framing over a byte stream.  The peer writes the concatenation *)
(* of the frames (PDUs of lengths Lens) in arbitrary pieces and may close  *)
(* the connection after any byte; the kernel hands the reader any non-     *)
(* empty part of what has arrived; the reader first collects a 6-byte      *)
(* header, then the body announced by it.  A frame is delivered when       *)
(* complete; end-of-stream inside a frame is "connection closed" (Evt17),  *)
(* never an invalid PDU.  The reader asks the socket for at most 4096      *)
(* bytes at a time, so a long body is collected over several RecvSome     *)
(* steps whatever the peer's write pattern.                                *)
(***************************************************************************)
EXTENDS Integers, Sequences, FiniteSets, TLC

CONSTANTS Lens,       \* sequence of total PDU lengths (each >= 7), e.g. <<26, 26, 54, 10>>
          MaxCuts,    \* maximum number of writes the peer uses (= cuts + 1)
          Greedy,     \* TRUE: the kernel always hands over everything available (used to enumerate write patterns only)
          WakeOnArrivalOnly   \* FALSE: the code - the reader goes on as long as unread bytes exist, wherever they wait (socket buffer
                              \* or a layer above it: the TLS record already pulled in, SSLSocket.pending());  TRUE: a reader that only
                              \* wakes when something new arrives at the transport (select() alone) - refuted by C03_Prompt

Total == LET RECURSIVE S(_) S(i) == IF i = 0 THEN 0 ELSE S(i - 1) + Lens[i] IN S(Len(Lens))
EndOf(i) == LET RECURSIVE S(_) S(k) == IF k = 0 THEN 0 ELSE S(k - 1) + Lens[k] IN S(i)   \* offset of the last byte of frame i
FrameAt(o) == CHOOSE i \in 1..Len(Lens) : EndOf(i - 1) < o /\ o <= EndOf(i)              \* frame containing byte o (1-based)

VARIABLES w,          \* bytes written by the peer so far
          writes,     \* history: sizes of the peer's writes
          closed,     \* the peer has closed its end
          r,          \* bytes consumed by the reader
          delivered,  \* number of frames delivered, in order
          events,     \* what the provider queued: frame numbers and "Evt17"
          stopped,    \* the reader has seen end-of-stream
          fresh       \* something arrived at the transport since the reader last looked
vars == <<w, writes, closed, r, delivered, events, stopped, fresh>>

Init == w = 0 /\ writes = <<>> /\ closed = FALSE /\ r = 0 /\ delivered = 0 /\ events = <<>> /\ stopped = FALSE /\ fresh = FALSE
PeerWrite(k) == /\ ~closed /\ w + k <= Total /\ Len(writes) < MaxCuts
                /\ (Greedy => r = w)          \* pattern enumeration: one write at a time, fully consumed before the next
                /\ w' = w + k /\ writes' = Append(writes, k) /\ fresh' = TRUE
                /\ UNCHANGED <<closed, r, delivered, events, stopped>>
PeerClose == /\ ~closed /\ (Greedy => r = w) /\ closed' = TRUE /\ fresh' = TRUE /\ UNCHANGED <<w, writes, r, delivered, events, stopped>>
\* the reader's next goal: the end of the current header, or of the current frame body
Goal == IF r >= Total THEN Total
        ELSE LET i == FrameAt(r + 1) s == EndOf(i - 1) IN IF r < s + 6 THEN s + 6 ELSE EndOf(i)
Min(a, b) == IF a < b THEN a ELSE b
RecvSome(j) == /\ ~stopped /\ j >= 1 /\ r + j <= w /\ r + j <= Goal /\ r < Total
               /\ (WakeOnArrivalOnly => fresh) /\ fresh' = FALSE
               /\ (Greedy => j = Min(w, Goal) - r)
               /\ r' = r + j
               /\ IF r + j = EndOf(FrameAt(r + 1)) THEN delivered' = delivered + 1 /\ events' = Append(events, delivered + 1)
                  ELSE UNCHANGED <<delivered, events>>
               /\ UNCHANGED <<w, writes, closed, stopped>>
RecvEOF == /\ ~stopped /\ closed /\ r = w
           /\ stopped' = TRUE /\ events' = Append(events, "Evt17")
           /\ UNCHANGED <<w, writes, closed, r, delivered, fresh>>
Next == (\E k \in 1..Total : PeerWrite(k)) \/ PeerClose \/ (\E j \in 1..Total : RecvSome(j)) \/ RecvEOF
Spec == Init /\ [][Next]_vars
\* the reader needs no further action of the peer: what has arrived is consumed, a close is noticed
FairSpec == Spec /\ WF_vars(\E j \in 1..Total : RecvSome(j)) /\ WF_vars(RecvEOF)
C03_Prompt == []<>(r = w /\ (closed => stopped))

\* frames are delivered in order, each once, exactly those wholly received
C03_Prefix == /\ delivered = Cardinality({i \in 1..Len(Lens) : EndOf(i) <= r})
              /\ \A i \in 1..delivered : events[i] = i
\* a close inside a frame is reported as a closed connection after the complete frames, never as a PDU
C03_CloseIsClose == stopped => (events = [i \in 1..delivered |-> i] \o <<"Evt17">> /\ delivered = Cardinality({i \in 1..Len(Lens) : EndOf(i) <= w}))
\* behaviours exported for replay: the peer's write pattern and whether it closed (after w bytes)
Export == (stopped \/ (r = Total /\ w = Total)) => PrintT(<<"CASE", writes, closed, w>>)
=============================================================================
