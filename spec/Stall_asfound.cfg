SPECIFICATION FairSpec
CONSTANTS RecvDeadline = FALSE
          ArtimEveryLoop = TRUE
          ServerHandshakeDeadline = FALSE
          Dribbles = 2
INVARIANT TypeOK
PROPERTY C08_Ends
CHECK_DEADLOCK FALSE
