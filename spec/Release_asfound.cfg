SPECIFICATION FairSpec
CONSTANTS MaxN = 2
          WrapperConsumes = TRUE
INVARIANT TypeOK
INVARIANT C07_NeverSwallowed
CHECK_DEADLOCK FALSE
