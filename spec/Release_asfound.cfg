SPECIFICATION FairSpec
CONSTANTS MaxN = 2
          WrapperConsumes = TRUE
          ReleaseWakesWaiter = TRUE
          SentinelOnlyIfEmpty = FALSE
          PauseCoversEncode = FALSE
INVARIANT TypeOK
INVARIANT C07_NeverSwallowed
CHECK_DEADLOCK FALSE
