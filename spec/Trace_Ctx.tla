----------------------------- MODULE Trace_Ctx -----------------------------
(***************************************************************************)
(* C2S for C18: one record per MC_Ctx case run on a real Association with  *)
(* the accepted contexts installed and the transport cut at dul.send_pdu:  *)
(*  o = [id, accepted (sequence of contexts), op, refuses (the reference   *)
(*       chooser has no usable context), refids (contexts it prefers),     *)
(*       res = [sent, id (context id of the captured P-DATA), enc (transfer *)
(*       syntax in which the captured data set decodes to the original)]]  *)
(* The five C18 predicates of CtxSelect.tla are evaluated on the observed  *)
(* result; a refusal where a usable context exists, or a choice other than *)
(* the reference's, is reported as drift, not as a violation.              *)
(***************************************************************************)
EXTENDS CtxSelect, Json, IOUtils
Obs == ndJsonDeserialize(IOEnv.TRACE)
VARIABLE i
SetOf(s) == {s[j] : j \in 1..Len(s)}
C18v(o) ==
  LET A == SetOf(o.accepted) IN
  IF ~C18_Accepted(A, o.op, o.res) THEN "C18_Accepted"
  ELSE IF ~o.res.sent THEN (IF o.refuses THEN "ok" ELSE "DRIFT_RefusedThoughUsable")
  ELSE IF ~C18_Abstract(A, o.op, o.res) THEN "C18_Abstract"
  ELSE IF ~C18_Role(A, o.op, o.res) THEN "C18_Role"
  ELSE IF ~C18_Conversion(A, o.op, o.res) THEN "C18_Conversion"
  ELSE IF ~C18_Encoding(A, o.op, o.res) THEN "C18_Encoding"
  ELSE IF o.res.id \notin SetOf(o.refids) THEN "DRIFT_OtherChoice"
  ELSE "ok"
TInit == i = 1
TNext == /\ i <= Len(Obs) /\ PrintT(<<"VERDICT", Obs[i].id, C18v(Obs[i])>>) /\ i' = i + 1
TSpec == TInit /\ [][TNext]_i
=============================================================================
