----------------------------- MODULE PduLayout -----------------------------
(***************************************************************************)
(* PS3.8 9.3 (Tables 9-11 .. 9-26) and PS3.7 Annex D as byte-sequence      *)
(* constructors: an independent reading of the standard.  All integers are *)
(* unsigned big-endian.  Text (UIDs, AE titles, names) is a sequence of    *)
(* byte values.  Every length field is Len(<what follows>) by construction.*)
(* The structural reader (SplitItems ...) and the conformance predicates   *)
(* WellFormedRQ / WellFormedAC are used on bytes captured from the wire    *)
(* (C12).                                                                  *)
(***************************************************************************)
EXTENDS Integers, Sequences, FiniteSets

U16(n) == <<n \div 256, n % 256>>
U32(n) == <<n \div 16777216, (n \div 65536) % 256, (n \div 256) % 256, n % 256>>
RECURSIVE Concat(_)
Concat(q) == IF q = <<>> THEN <<>> ELSE Head(q) \o Concat(Tail(q))
Rep(b, n) == [i \in 1..n |-> b]
Pad16(s) == s \o Rep(32, 16 - Len(s))                    \* AE titles: 16 bytes, space padded

\* ---- items (type, reserved 0, 2-byte length, body) -----------------------------------------------
Item(t, body) == <<t, 0>> \o U16(Len(body)) \o body
AppContext(u) == Item(16, u)
AbstractSyntax(u) == Item(48, u)
TransferSyntax(u) == Item(64, u)
PCtxRQ(c) == Item(32, <<c.id, 0, 0, 0>> \o AbstractSyntax(c.ab) \o Concat([i \in 1..Len(c.ts) |-> TransferSyntax(c.ts[i])]))
PCtxAC(c) == Item(33, <<c.id, 0, c.result, 0>> \o TransferSyntax(c.ts))
\* user information sub-items (PS3.8 Annex D.1, PS3.7 Annex D.3.3)
SubItem(s) ==
  CASE s.k = "maxlen"  -> Item(81, U32(s.n))
    [] s.k = "implcls" -> Item(82, s.uid)
    [] s.k = "async"   -> Item(83, U16(s.invoked) \o U16(s.performed))
    [] s.k = "role"    -> Item(84, U16(Len(s.uid)) \o s.uid \o <<s.scu, s.scp>>)
    [] s.k = "implver" -> Item(85, s.name)
    [] s.k = "sopext"  -> Item(86, U16(Len(s.uid)) \o s.uid \o s.info)
    [] s.k = "common"  -> LET rel == Concat([i \in 1..Len(s.related) |-> U16(Len(s.related[i])) \o s.related[i]]) IN
                          Item(87, U16(Len(s.uid)) \o s.uid \o U16(Len(s.svc)) \o s.svc \o U16(Len(rel)) \o rel)
    [] s.k = "uidrq"   -> Item(88, <<s.type, s.positive>> \o U16(Len(s.primary)) \o s.primary \o U16(Len(s.secondary)) \o s.secondary)
    [] s.k = "uidac"   -> Item(89, U16(Len(s.response)) \o s.response)
UserInfo(items) == Item(80, Concat([i \in 1..Len(items) |-> SubItem(items[i])]))

\* ---- PDUs (type, reserved 0, 4-byte length, body) ------------------------------------------------
Pdu(t, body) == <<t, 0>> \o U32(Len(body)) \o body
AssocBody(v, ctxBytes) == U16(1) \o <<0, 0>> \o Pad16(v.called) \o Pad16(v.calling) \o Rep(0, 32)
                          \o AppContext(v.appctx) \o ctxBytes \o UserInfo(v.userinfo)
Bytes(v) ==
  CASE v.pdu = "RQ"    -> Pdu(1, AssocBody(v, Concat([i \in 1..Len(v.contexts) |-> PCtxRQ(v.contexts[i])])))
    [] v.pdu = "AC"    -> Pdu(2, AssocBody(v, Concat([i \in 1..Len(v.contexts) |-> PCtxAC(v.contexts[i])])))
    [] v.pdu = "RJ"    -> Pdu(3, <<0, v.result, v.source, v.reason>>)
    [] v.pdu = "PDATA" -> Pdu(4, Concat([i \in 1..Len(v.pdvs) |-> U32(2 + Len(v.pdvs[i].data)) \o <<v.pdvs[i].ctx, v.pdvs[i].hdr>> \o v.pdvs[i].data]))
    [] v.pdu = "RELRQ" -> Pdu(5, <<0, 0, 0, 0>>)
    [] v.pdu = "RELRP" -> Pdu(6, <<0, 0, 0, 0>>)
    [] v.pdu = "ABORT" -> Pdu(7, <<0, 0, v.source, v.reason>>)

\* ---- structural reader ------------------------------------------------------------------------------
Rd16(b, i) == b[i] * 256 + b[i + 1]
\* split a byte sequence into items [t, body]; "bad" marks a malformed tail
RECURSIVE SplitItems(_)
SplitItems(b) == IF b = <<>> THEN <<>>
                 ELSE IF Len(b) < 4 \/ Len(b) < 4 + Rd16(b, 3) THEN <<[t |-> -1, body |-> <<>>]>>
                 ELSE <<[t |-> b[1], body |-> SubSeq(b, 5, 4 + Rd16(b, 3))]>> \o SplitItems(SubSeq(b, 5 + Rd16(b, 3), Len(b)))
TypesOf(items) == [i \in 1..Len(items) |-> items[i].t]
Count(items, t) == Cardinality({i \in 1..Len(items) : items[i].t = t})
Idx(items, t) == {i \in 1..Len(items) : items[i].t = t}
VarItems(pdu) == SplitItems(SubSeq(pdu, 75, Len(pdu)))        \* variable field of an A-ASSOCIATE-RQ/AC
\* text legality
UidChar(x) == x \in 48..57 \/ x = 46
UidOK(u) == Len(u) \in 1..64 /\ \A i \in 1..Len(u) : UidChar(u[i])
AeOK(a) == Len(a) = 16 /\ (\A i \in 1..16 : a[i] \in 32..126 /\ a[i] # 92) /\ \E i \in 1..16 : a[i] # 32
CtxRQOK(body) == /\ Len(body) >= 4 /\ body[1] % 2 = 1 /\ body[1] \in 1..255
                 /\ LET it == SplitItems(SubSeq(body, 5, Len(body))) IN
                    /\ Len(it) >= 2 /\ it[1].t = 48 /\ UidOK(it[1].body)
                    /\ \A i \in 2..Len(it) : it[i].t = 64 /\ UidOK(it[i].body)
CtxACOK(body) == /\ Len(body) >= 4 /\ body[1] % 2 = 1 /\ body[3] \in 0..4
                 /\ LET it == SplitItems(SubSeq(body, 5, Len(body))) IN
                    /\ Len(it) <= 1 /\ (body[3] = 0 => (Len(it) = 1 /\ it[1].t = 64 /\ UidOK(it[1].body)))
UserInfoOK(body) == LET it == SplitItems(body) IN
                    /\ \A i \in 1..Len(it) : it[i].t \in 81..89
                    /\ Count(it, 81) = 1 /\ Count(it, 82) = 1
                    /\ \A i \in Idx(it, 81) : Len(it[i].body) = 4
                    /\ \A i \in Idx(it, 82) : UidOK(it[i].body)
HeaderOK(pdu, t) == /\ Len(pdu) >= 74 /\ pdu[1] = t
                    /\ Len(pdu) = 6 + (pdu[3] * 16777216 + pdu[4] * 65536 + pdu[5] * 256 + pdu[6])
                    /\ Rd16(pdu, 7) % 2 = 1                                   \* protocol version bit 0
                    /\ AeOK(SubSeq(pdu, 11, 26)) /\ AeOK(SubSeq(pdu, 27, 42))
CtxIds(it, t) == {it[i].body[1] : i \in Idx(it, t)}
WellFormedRQ(pdu) ==
  /\ HeaderOK(pdu, 1)
  /\ LET it == VarItems(pdu) IN
     /\ \A i \in 1..Len(it) : it[i].t \in {16, 32, 80}
     /\ Count(it, 16) = 1 /\ \A i \in Idx(it, 16) : UidOK(it[i].body)
     /\ Count(it, 32) \in 1..128 /\ Cardinality(CtxIds(it, 32)) = Count(it, 32)
     /\ \A i \in Idx(it, 32) : CtxRQOK(it[i].body)
     /\ Count(it, 80) = 1 /\ \A i \in Idx(it, 80) : UserInfoOK(it[i].body)
WellFormedAC(pdu, rq) ==
  /\ HeaderOK(pdu, 2)
  /\ LET it == VarItems(pdu)  rqit == VarItems(rq) IN
     /\ \A i \in 1..Len(it) : it[i].t \in {16, 33, 80}
     /\ Count(it, 16) = 1
     /\ Count(it, 33) = Count(rqit, 32) /\ CtxIds(it, 33) = CtxIds(rqit, 32) /\ Cardinality(CtxIds(it, 33)) = Count(it, 33)
     /\ \A i \in Idx(it, 33) : CtxACOK(it[i].body)
     /\ Count(it, 80) = 1 /\ \A i \in Idx(it, 80) : UserInfoOK(it[i].body)
=============================================================================
