----------------------------- MODULE Trace_Dimse -----------------------------
(***************************************************************************)
(* C2S for C15 / C16 / C17: observations of the real DIMSE encoder/decoder *)
(* (harness/dimse_lab.py) judged with DimsePred and the DimseMsg catalogue. *)
(*  o.kind = "frag": o.max, o.pdvs [cmd,last,len], o.pdulens, o.announces, *)
(*           o.rx = sequence of [done, cmdok, dsok] (one per regrouping)     *)
(*  o.kind = "msg":  o.name, o.field, o.back, o.diff, o.dsok + the above     *)
(* Output <<"VERDICT", id, c15, c16, c17>>.                                  *)
(***************************************************************************)
EXTENDS DimsePred, DimseMsg, Json, IOUtils

Obs == ndJsonDeserialize(IOEnv.TRACE)
VARIABLE i

C15v(o) ==
  IF ~C15_MaxLenP(o.pdulens, o.max) THEN "C15_MaxLen"
  ELSE IF ~C15_OrderP(o.pdvs) THEN "C15_Order"
  ELSE IF ~C15_LastFlagsP(o.pdvs) THEN "C15_LastFlags"
  ELSE IF \E k \in 1..Len(o.rx) : ~o.rx[k].done \/ ~o.rx[k].cmdok \/ ~o.rx[k].dsok THEN "C15_Reassembly"
  ELSE "ok"
C16v(o) ==
  IF ~C16_FlagP(o.announces, o.pdvs) THEN "C16_Flag"
  ELSE IF Len(o.rx) > 0 /\ ~o.rx[1].done THEN "C16_Delivered"
  ELSE "ok"
C17v(o) ==
  IF o.kind # "msg" THEN "ok"
  ELSE IF o.field # MsgOf(o.name).field THEN "C17_CommandField"
  ELSE IF o.back # o.name THEN "C17_Type"
  ELSE IF Len(o.diff) > 0 THEN "C17_Parameter"
  ELSE IF ~o.dsok THEN "C17_DataSet"
  ELSE "ok"

TInit == i = 1 /\ c = 0
TNext == /\ i <= Len(Obs)
         /\ PrintT(<<"VERDICT", Obs[i].id, C15v(Obs[i]), C16v(Obs[i]), C17v(Obs[i])>>)
         /\ i' = i + 1 /\ c' = c
TSpec == TInit /\ [][TNext]_<<i, c>>
=============================================================================
