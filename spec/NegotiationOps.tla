--------------------------- MODULE NegotiationOps ---------------------------
(***************************************************************************)
(* Presentation context negotiation as PS3.8 7.1.1.13 / Table 9-18,        *)
(* PS3.7 D.3.3.4 and pynetdicom's documented role-selection table          *)
(* (docs/user/presentation_role_selection.rst) define it.  Pure operators, *)
(* shared by Negotiation.tla (model checking of the two sides' tables) and *)
(* Trace_Negotiation.tla (judging observed negotiations).                  *)
(*                                                                         *)
(* A case c:                                                               *)
(*   c.proposed   sequence of [id, ab, ts]       ts = sequence of strings  *)
(*   c.supported  sequence of [ab, ts, scu, scp] scu/scp in {"N","T","F"}  *)
(*   c.roles      sequence of [ab, scu, scp]     requestor's role items    *)
(*   c.mode       "normal" | "unrestricted"                                *)
(*   c.storage    sequence of abstract syntaxes that are storage-like      *)
(***************************************************************************)
EXTENDS Integers, Sequences, FiniteSets

Range(q) == {q[j] : j \in 1..Len(q)}
IdxOf(q, P(_)) == {j \in 1..Len(q) : P(q[j])}

\* ---- role selection: closed form of the documented 9-row table -------------------------
\* reply to the requestor: a role that was not proposed is never granted
Reply(rq, ac) == [scu |-> rq.scu /\ ac.scu, scp |-> rq.scp /\ ac.scp]
\* the documented table, row by row: <<rq.scu, rq.scp, ac.scu, ac.scp>> -> <<requestor SCU, requestor SCP, rejected>>
DocTable == {
  <<TRUE, TRUE, FALSE, FALSE, FALSE, FALSE, TRUE>>,
  <<TRUE, TRUE, FALSE, TRUE, FALSE, TRUE, FALSE>>,
  <<TRUE, TRUE, TRUE, FALSE, TRUE, FALSE, FALSE>>,
  <<TRUE, TRUE, TRUE, TRUE, TRUE, TRUE, FALSE>>,
  <<TRUE, FALSE, FALSE, FALSE, FALSE, FALSE, TRUE>>,
  <<TRUE, FALSE, TRUE, FALSE, TRUE, FALSE, FALSE>>,
  <<FALSE, TRUE, FALSE, FALSE, FALSE, FALSE, TRUE>>,
  <<FALSE, TRUE, FALSE, TRUE, FALSE, TRUE, FALSE>>,
  <<FALSE, FALSE, FALSE, FALSE, FALSE, FALSE, TRUE>> }
ClosedFormMatchesDoc ==
  \A row \in DocTable :
     LET r == Reply([scu |-> row[1], scp |-> row[2]], [scu |-> row[3], scp |-> row[4]]) IN
     /\ (~r.scu /\ ~r.scp) = row[7]
     /\ (~row[7]) => (r.scu = row[5] /\ r.scp = row[6])

\* ---- acceptor side ------------------------------------------------------------------------
Unrestricted(c, p) == c.mode = "unrestricted" /\ p.ab \in Range(c.storage)
SupIdx(c, p) == IdxOf(c.supported, LAMBDA s : s.ab = p.ab)
AbSupported(c, p) == Unrestricted(c, p) \/ SupIdx(c, p) # {}
Sup(c, p) == c.supported[CHOOSE j \in SupIdx(c, p) : TRUE]
\* transfer syntaxes both proposed and supported, in the acceptor's order of preference
RECURSIVE Filter(_, _)
Filter(q, S) == IF q = <<>> THEN <<>> ELSE IF Head(q) \in S THEN <<Head(q)>> \o Filter(Tail(q), S) ELSE Filter(Tail(q), S)
Common(c, p) == IF Unrestricted(c, p) THEN p.ts ELSE Filter(Sup(c, p).ts, Range(p.ts))
RoleIdx(c, ab) == IdxOf(c.roles, LAMBDA r : r.ab = ab)
HasRqRole(c, ab) == RoleIdx(c, ab) # {}
RqRole(c, ab) == c.roles[CHOOSE j \in RoleIdx(c, ab) : TRUE]
B(x) == x = "T"
AcRole(c, p) == IF Unrestricted(c, p) THEN [scu |-> "T", scp |-> "T"] ELSE [scu |-> Sup(c, p).scu, scp |-> Sup(c, p).scp]
\* role negotiation takes place only when the requestor proposed and the acceptor has both roles configured
RoleNegotiated(c, p) == HasRqRole(c, p.ab) /\ AcRole(c, p).scu # "N" /\ AcRole(c, p).scp # "N"
ExpReply(c, p) == Reply(RqRole(c, p.ab), [scu |-> B(AcRole(c, p).scu), scp |-> B(AcRole(c, p).scp)])

\* expected acceptor result for proposed context p: [result, tsSet, asSCU, asSCP, reply]
\* result: 0 accepted, 1 user rejection (no usable role), 3 abstract syntax / 4 transfer syntaxes not supported
ExpAc(c, p) ==
  IF ~AbSupported(c, p) THEN [result |-> 3, ts |-> {}, asSCU |-> FALSE, asSCP |-> FALSE, hasReply |-> FALSE]
  ELSE IF Common(c, p) = <<>> THEN [result |-> 4, ts |-> {}, asSCU |-> FALSE, asSCP |-> FALSE, hasReply |-> FALSE]
  ELSE LET ts == IF Unrestricted(c, p) THEN Range(p.ts) ELSE {Head(Common(c, p))} IN
       IF ~RoleNegotiated(c, p) THEN [result |-> 0, ts |-> ts, asSCU |-> FALSE, asSCP |-> TRUE, hasReply |-> FALSE]
       ELSE LET r == ExpReply(c, p) IN
            IF ~r.scu /\ ~r.scp THEN [result |-> 1, ts |-> ts, asSCU |-> FALSE, asSCP |-> FALSE, hasReply |-> FALSE]
            \* the acceptor is SCP for what the requestor does as SCU and vice versa
            ELSE [result |-> 0, ts |-> ts, asSCU |-> r.scp, asSCP |-> r.scu, hasReply |-> TRUE]

\* ---- requestor side: what the requestor derives from the A-ASSOCIATE-AC ---------------------
\* acItem: [result, ts] as on the wire; reply: [present, scu, scp] for the context's abstract syntax
ExpRq(c, p, acItem, reply) ==
  IF acItem.result # 0 THEN [result |-> acItem.result, asSCU |-> FALSE, asSCP |-> FALSE]
  ELSE IF ~reply.present \/ ~HasRqRole(c, p.ab) THEN [result |-> 0, asSCU |-> TRUE, asSCP |-> FALSE]
  ELSE LET r == Reply(RqRole(c, p.ab), reply) IN [result |-> 0, asSCU |-> r.scu, asSCP |-> r.scp]
=============================================================================
