SPECIFICATION Spec
CONSTANTS MaxN = 2
          WrapperConsumes = FALSE
          ReleaseWakesWaiter = TRUE
          PauseCoversEncode = FALSE
INVARIANT Export
CHECK_DEADLOCK FALSE
