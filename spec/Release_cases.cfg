SPECIFICATION Spec
CONSTANTS MaxN = 2
          WrapperConsumes = FALSE
INVARIANT Export
CHECK_DEADLOCK FALSE
