SPECIFICATION Spec
CONSTANTS MaxN = 2
          WrapperConsumes = FALSE
          ReleaseWakesWaiter = TRUE
          SentinelOnlyIfEmpty = FALSE
          PauseCoversEncode = FALSE
INVARIANT Export
CHECK_DEADLOCK FALSE
