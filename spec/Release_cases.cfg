SPECIFICATION Spec
CONSTANTS MaxN = 2
          WrapperConsumes = FALSE
          ReleaseWakesWaiter = TRUE
INVARIANT Export
CHECK_DEADLOCK FALSE
