------------------------------- MODULE MC_QR -------------------------------
(* Case enumeration for C29: three small databases and every identifier that deviates from the plain identifier of its  *)
(* level (unique keys of the level and above universal, nothing else) in at most MaxDev keys, for both information      *)
(* models and for C-FIND and C-GET/C-MOVE.  Every initial state is one case; TLC evaluates Expected and the lemmas.      *)
EXTENDS QRMatch
CONSTANT MaxDev
\* ---- values (text = sequence of characters) ----
P1 == <<"P", "1">>            p1 == <<"p", "1">>            PU1 == <<"P", "_", "1">>
DoeJohn == <<"D", "o", "e", "^", "J", "o", "h", "n">>
DOEJOHN == <<"D", "O", "E", "^", "J", "O", "H", "N">>
DoPcJUhn == <<"D", "o", "%", "^", "J", "_", "h", "n">>
U(a) == a                     \* (UIDs are written as sequences too)
S11 == <<"1", ".", "1">>      S12 == <<"1", ".", "2">>      S21 == <<"2", ".", "1">>      S31 == <<"3", ".", "1">>      S99 == <<"9", ".", "9">>
E111 == S11 \o <<".", "1">>   E121 == S12 \o <<".", "1">>   E211 == S21 \o <<".", "1">>   E311 == S31 \o <<".", "1">>
I1111 == E111 \o <<".", "1">> I1112 == E111 \o <<".", "2">> I1211 == E121 \o <<".", "1">> I2111 == E211 \o <<".", "1">> I3111 == E311 \o <<".", "1">>
CT == <<"C", "T">>            MR == <<"M", "R">>            ct == <<"c", "t">>
N0007 == <<"0", "0", "0", "7">>      N12 == <<"1", "2">>
SerNo(se) == IF se = E121 THEN N12 ELSE N0007        \* series 1.2.1 is number 12, the others are written 0007
Inst(pid, pn, st, d, se, mo, sop) == [PatientID |-> pid, PatientName |-> pn, StudyInstanceUID |-> st, StudyDate |-> d, SeriesInstanceUID |-> se, Modality |-> mo,
                                      SeriesNumber |-> SerNo(se), SOPInstanceUID |-> sop]
i1 == Inst(P1, DoeJohn, S11, 20200101, E111, CT, I1111)
i2 == Inst(P1, DoeJohn, S11, 20200101, E111, CT, I1112)
i3 == Inst(P1, DoeJohn, S12, 20210101, E121, MR, I1211)
i4 == Inst(p1, DOEJOHN, S21, 20200615, E211, ct, I2111)
i5 == Inst(PU1, DoPcJUhn, S31, 20190101, E311, CT, I3111)
\* the same SOP Instance stored again without its Study Date and Modality: the later store replaces the earlier one
i3x == [i3 EXCEPT !.StudyDate = 0, !.Modality = <<>>]
\* a database is what a sequence of C-STOREs leaves behind (a later store of the same SOP Instance UID replaces the record)
Stores == [full |-> <<i1, i2, i3, i4, i5>>, two |-> <<i1, i3>>, empty |-> <<>>, restored |-> <<i1, i3, i3x>>]
RECURSIVE Apply(_, _)
Apply(db0, seq) == IF seq = <<>> THEN db0 ELSE Apply({r \in db0 : r.SOPInstanceUID # Head(seq).SOPInstanceUID} \cup {Head(seq)}, Tail(seq))
DBs == [n \in DOMAIN Stores |-> Apply({}, Stores[n])]
\* ---- matching specifications per key ----
Ab == [t |-> "absent"]      Un == [t |-> "universal"]
Sg(v) == [t |-> "single", v |-> v]      Wd(v) == [t |-> "wild", v |-> v]      Ls(v) == [t |-> "list", v |-> v]      Rg(a, b) == [t |-> "range", lo |-> a, hi |-> b]
Pool == [PatientID |-> {Ab, Un, Sg(P1), Sg(PU1), Wd(<<"P", "*">>), Wd(<<"p", "*">>), Wd(<<"P", "?", "1">>), Wd(<<"P", "_", "*">>), Wd(<<"P", "%", "*">>), Wd(<<"*">>)},
         PatientName |-> {Ab, Un, Sg(DoeJohn), Wd(<<"D", "o", "e", "*">>), Wd(<<"d", "o", "e", "*">>), Wd(<<"D", "?", "e", "^", "J", "o", "h", "n">>), Wd(<<"D", "o", "%", "*">>), Wd(<<"*", "_", "h", "n">>)},
         StudyInstanceUID |-> {Ab, Un, Sg(S11), Sg(S99), Ls({S11, S12}), Ls({S11}), Ls({S99, S21})},
         StudyDate |-> {Ab, Un, Sg(20200101), Rg(20200101, 20201231), Rg(0, 20201231), Rg(20200102, 0), Rg(20200101, 20200101)},
         SeriesInstanceUID |-> {Ab, Un, Sg(E111), Ls({E111, E121})},
         Modality |-> {Ab, Un, Sg(CT), Sg(ct), Wd(<<"C", "*">>), Wd(<<"c", "*">>), Wd(<<"?", "T">>)},
         SeriesNumber |-> {Ab, Un, Sg(N0007), Sg(N12)},
         SOPInstanceUID |-> {Ab, Un, Sg(I1111), Ls({I1111, I1211})}]
AllLevels == {"PATIENT", "STUDY", "SERIES", "IMAGE"}
\* the plain identifier of a level: its unique key and those above universal, nothing else
Plain(model, l) == [k \in Keys |-> IF IsLevel(model, l) /\ k \in {Unique[Levels(model)[i]] : i \in 1..Rank(model, l)} THEN Un ELSE Ab]
PlainOr(model, l) == IF IsLevel(model, l) THEN Plain(model, l) ELSE [k \in Keys |-> IF k = "StudyInstanceUID" THEN Un ELSE Ab]
\* identifiers at most MaxDev keys away from the plain one, built constructively (key by key)
Step1(S) == UNION {UNION {{[d EXCEPT ![k] = m] : m \in Pool[k]} : k \in Keys} : d \in S}
Idents(model, l) == LET P == {PlainOr(model, l)} IN
                    IF MaxDev = 0 THEN P ELSE IF MaxDev = 1 THEN Step1(P) ELSE Step1(Step1(P))
VARIABLES db, model, op, id
Init == /\ db \in DOMAIN DBs /\ model \in {"patient_root", "study_root"} /\ op \in {"find", "get"}
        /\ \E l \in AllLevels : \E ks \in Idents(model, l) : id = [level |-> l, keys |-> ks]
Next == FALSE /\ UNCHANGED <<db, model, op, id>>
Spec == Init /\ [][Next]_<<db, model, op, id>>
\* text values back to strings is done by the harness; sets are exported as sequences
Export == PrintT(<<"CASE", [db |-> db, model |-> model, op |-> op, level |-> id.level, keys |-> id.keys, expected |-> Expected(DBs[db], model, op, id),
                            sel_ci |-> IF Valid(model, Effective(op, id)) THEN SelectedCI(DBs[db], model, op, id) ELSE {},
                            nhits |-> IF Valid(model, Effective(op, id)) THEN NHits(DBs[db], model, op, id) ELSE 0]>>)
\* the databases themselves, for the harness (one state)
DbSpec == (db = "full" /\ model = "patient_root" /\ op = "find" /\ id = [level |-> "PATIENT", keys |-> Plain("patient_root", "PATIENT")]) /\ [][Next]_<<db, model, op, id>>
DbExport == PrintT(<<"DBS", Stores>>)
\* ---- lemmas on every case ----
\* an absent key and universal matching select the same entities (when both identifiers are valid)
L_Universal == \A k \in Keys : id.keys[k].t = "universal" =>
                 LET id2 == [id EXCEPT !.keys[k] = Ab] IN
                 (Valid(model, Effective(op, id)) /\ Valid(model, Effective(op, id2))) => Selected(DBs[db], model, op, id) = Selected(DBs[db], model, op, id2)
\* what is selected exists in the database, and a smaller database never selects more
L_Monotone == Selected(DBs["two"], model, op, id) \subseteq Selected(DBs["full"], model, op, id)
\* a re-stored instance is matched on its new values only
L_Restored == \A r \in DBs["restored"] : r.SOPInstanceUID = I1211 => r = i3x
\* list of UID matching with one UID is single value matching
L_ListOne == \A k \in Keys : id.keys[k].t = "list" /\ Cardinality(id.keys[k].v) = 1 =>
                Selected(DBs[db], model, op, id) = Selected(DBs[db], model, op, [id EXCEPT !.keys[k] = Sg(CHOOSE x \in id.keys[k].v : TRUE)])
=============================================================================
