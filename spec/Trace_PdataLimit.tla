-------------------------- MODULE Trace_PdataLimit --------------------------
(* C2S for the P-DATA-TF length cases of C02: o = [id, own, maxlen (largest variable field actually sent to the node), *)
(* accepted (the message was delivered and answered as a valid message), aborted (the node aborted)]                     *)
EXTENDS PdataLimit, Json, IOUtils
Obs == ndJsonDeserialize(IOEnv.TRACE)
VARIABLE i
V(o) == IF ~Conformant(o.own, o.maxlen) THEN "NOT_CONFORMANT_CASE"
        ELSE IF ~o.accepted THEN "C02_RejectedConformant"
        ELSE "ok"
TInit == i = 1 /\ role = "acceptor" /\ own = 0 /\ peer = 0 /\ len = 512
TNext == /\ i <= Len(Obs) /\ PrintT(<<"VERDICT", Obs[i].id, V(Obs[i])>>) /\ i' = i + 1 /\ UNCHANGED <<role, own, peer, len>>
TSpec == TInit /\ [][TNext]_<<i, role, own, peer, len>>
=============================================================================
