SPECIFICATION TSpec
