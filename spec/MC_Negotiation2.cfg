SPECIFICATION Spec
CONSTANT MaxCx = 2
INVARIANT C11_Once
INVARIANT C11_SameAccepted
INVARIANT C11_Complementary
INVARIANT C10_UsableRole
INVARIANT C10_ReplyWithinProposal
INVARIANT C10_AcceptedTsCommon
