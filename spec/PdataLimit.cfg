SPECIFICATION Spec
INVARIANT L_AllConformant
INVARIANT Export
CHECK_DEADLOCK FALSE
