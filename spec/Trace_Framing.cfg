SPECIFICATION TSpec
