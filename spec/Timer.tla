------------------------------- MODULE Timer -------------------------------
(***************************************************************************)
(* C09: the ARTIM / network-idle timer.                                    *)
(*                                                                         *)
(* Two clocks: `mono` is elapsed time (only advances), `wall` is the       *)
(* system clock (advances with mono but may be stepped either way).        *)
(* The implementation is modelled as it is built: it stores clock          *)
(* *readings* at start/stop and compares them with a later reading; the    *)
(* constant ClockKind says which clock it reads.  The ghost variables      *)
(* `elapsed*` define the property independently of any clock reading.      *)
(***************************************************************************)
EXTENDS Integers

CONSTANTS ClockKind,      \* "mono" or "wall": the clock the implementation reads
          MaxT,           \* bound on mono for model checking
          Timeouts        \* finite set of timeouts; None is represented by NoTimeout
NoTimeout == -1

VARIABLES mono, wall,           \* environment clocks
          timeout,              \* configured timeout or NoTimeout
          startAt, endAt,       \* implementation: readings taken at start()/stop(); -1000 = unset
          gStarted, gStartM, gStopped, gStopM   \* ghost: truth in elapsed time
vars == <<mono, wall, timeout, startAt, endAt, gStarted, gStartM, gStopped, gStopM>>

Unset == -1000
Reading == IF ClockKind = "mono" THEN mono ELSE wall

Init == /\ mono = 0 /\ wall \in {0, 100}
        /\ timeout \in Timeouts \cup {NoTimeout}
        /\ startAt = Unset /\ endAt = Unset
        /\ gStarted = FALSE /\ gStartM = 0 /\ gStopped = FALSE /\ gStopM = 0

Start == /\ startAt' = Reading /\ endAt' = Unset
         /\ gStarted' = TRUE /\ gStartM' = mono /\ gStopped' = FALSE /\ gStopM' = 0
         /\ UNCHANGED <<mono, wall, timeout>>
Restart == Start
Stop == /\ endAt' = Reading
        /\ gStopped' = TRUE /\ gStopM' = mono
        /\ UNCHANGED <<mono, wall, timeout, startAt, gStarted, gStartM>>
SetTimeout(t) == /\ timeout' = t
                 /\ UNCHANGED <<mono, wall, startAt, endAt, gStarted, gStartM, gStopped, gStopM>>
Advance(d) == /\ mono + d <= MaxT
              /\ mono' = mono + d /\ wall' = wall + d
              /\ UNCHANGED <<timeout, startAt, endAt, gStarted, gStartM, gStopped, gStopM>>
WallJump(d) == /\ wall' = wall + d
               /\ UNCHANGED <<mono, timeout, startAt, endAt, gStarted, gStartM, gStopped, gStopM>>

Next == \/ Start \/ Restart \/ Stop
        \/ \E t \in Timeouts \cup {NoTimeout} : SetTimeout(t)
        \/ \E d \in 1..2 : Advance(d)
        \/ \E d \in {-50, -3, -1, 1, 3, 50} : WallJump(d)
Spec == Init /\ [][Next]_vars

(* what the implementation answers (timer.py: remaining / expired) *)
ImplRemaining == IF timeout = NoTimeout THEN 1
                 ELSE IF startAt = Unset THEN timeout
                 ELSE IF endAt = Unset THEN timeout - (Reading - startAt)
                 ELSE timeout - (endAt - startAt)
ImplExpired == timeout # NoTimeout /\ startAt # Unset /\ ImplRemaining < 0

(* the property: expiry is a function of elapsed time only *)
Elapsed == IF gStopped /\ gStarted THEN gStopM - gStartM ELSE mono - gStartM
SpecExpired == timeout # NoTimeout /\ gStarted /\ Elapsed > timeout

\* a stop() before any start() leaves the timer "not started": nothing to report
C09_Expired == ImplExpired = SpecExpired
TypeOK == mono \in 0..MaxT /\ gStartM \in 0..MaxT
=============================================================================
