------------------------------ MODULE Trace_Pdu ------------------------------
(* C2S for C01 / C12: observations of the real PDU codec and PDUs captured from the wire, judged with the   *)
(* structural reader and the conformance predicates of PduLayout.                                          *)
(*   kind "c01":  [id, pdu, enc (bytes produced), enc_ok, dec_eq, reenc_ok, ndiff, exc]                    *)
(*   kind "c12":  [id, rq (bytes sent), ac (bytes sent by the acceptor, may be empty)]                     *)
EXTENDS PduLayout, Json, IOUtils, TLC
Obs == ndJsonDeserialize(IOEnv.TRACE)
VARIABLE i
\* every nested length field of an A-ASSOCIATE-RQ/AC equals the length of what follows it
NestedOK(b) == LET it == VarItems(b) IN
  /\ \A k \in 1..Len(it) : it[k].t # -1
  /\ \A k \in Idx(it, 32) \cup Idx(it, 33) : Len(it[k].body) >= 4 /\ \A j \in DOMAIN SplitItems(SubSeq(it[k].body, 5, Len(it[k].body))) : SplitItems(SubSeq(it[k].body, 5, Len(it[k].body)))[j].t # -1
  /\ \A k \in Idx(it, 80) : \A j \in DOMAIN SplitItems(it[k].body) : SplitItems(it[k].body)[j].t # -1
LengthOK(b) == /\ Len(b) >= 6 /\ Len(b) = 6 + (b[3] * 16777216 + b[4] * 65536 + b[5] * 256 + b[6])
               /\ (b[1] \in {1, 2} => (Len(b) >= 74 /\ NestedOK(b)))
C01v(o) ==
  IF o.kind # "c01" THEN "ok"
  ELSE IF o.exc # "" THEN "C01_Raised"
  ELSE IF ~o.enc_ok THEN "C01_Bytes"
  ELSE IF ~LengthOK(o.enc) THEN "C01_LengthFields"
  ELSE IF ~o.dec_eq THEN "C01_DecodeEqual"
  ELSE IF ~o.reenc_ok THEN "C01_ReEncode"
  ELSE IF o.ndiff > 0 THEN "C01_PrimitiveRoundTrip"
  ELSE "ok"
C12v(o) ==
  IF o.kind # "c12" THEN "ok"
  ELSE IF ~LengthOK(o.rq) THEN "C12_RQ_Lengths"
  ELSE IF ~WellFormedRQ(o.rq) THEN "C12_RQ_Structure"
  ELSE IF Len(o.ac) = 0 THEN "ok"
  ELSE IF ~LengthOK(o.ac) THEN "C12_AC_Lengths"
  ELSE IF ~WellFormedAC(o.ac, o.rq) THEN "C12_AC_Structure"
  ELSE "ok"
TInit == i = 1
TNext == /\ i <= Len(Obs) /\ PrintT(<<"VERDICT", Obs[i].id, C01v(Obs[i]), C12v(Obs[i])>>) /\ i' = i + 1
TSpec == TInit /\ [][TNext]_i
=============================================================================
