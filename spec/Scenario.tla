------------------------------ MODULE Scenario ------------------------------
(***************************************************************************)
(* User-action scripts for two application entities (C06, C26, C27): what  *)
(* the requestor does, how it ends the association, how the acceptor's     *)
(* handlers behave, and an optional action by a second thread on either    *)
(* side at an early / middle / late moment.  These are the user scripts of *)
(* the pair instance of Assoc.tla (UserOps, HandlerAbort, Policy) written  *)
(* out; every initial state is one scenario.                               *)
(***************************************************************************)
EXTENDS Integers, Sequences, FiniteSets, TLC
Ops == {"echo", "find", "store", "get"}
OpLists == {<<>>} \cup {<<a>> : a \in Ops} \cup {<<a, b>> : a \in Ops, b \in Ops}
\* one terminal call, none ("leave": the peer must time out), or two in sequence on the same user thread
Ends == {"release", "abort", "leave", "release+abort", "abort+abort", "abort+release", "release+release"}
Double == {"release+abort", "abort+abort", "abort+release", "release+release"}
\* notify_abort: a notification handler (EVT_ACSE_RECV) calls abort() when the peer's A-RELEASE-RQ arrives (abort during release)
\* abort_back: both applications abort at the same moment - the acceptor's abort() is called while the requestor's own abort() is
\* under way (from the requestor's EVT_ACSE_SENT notification of its A-ABORT, i.e. before that call has finished), so the
\* peer's A-ABORT reaches the requestor's reactor inside its own abort()
AccKinds == {"normal", "handler_abort", "handler_release", "slow", "notify_abort", "abort_back"}
\* how the request fails: not at all, called AE title not recognised (rejection, source 1), local limit exceeded (rejection,
\* source 3), or accepted without a single accepted presentation context (the requestor then aborts)
Rejects == {"no", "aet", "limit", "nocx"}
Sides == {"none", "acc_abort", "acc_release", "req_abort", "req_release"}
Moments == {"early", "mid", "late"}
VARIABLE s
Scenarios == {sc \in [ops : OpLists, end : Ends, acc : AccKinds, side : Sides, moment : Moments, reject : Rejects] :
                /\ (sc.side = "none" => sc.moment = "early")
                /\ (sc.end \in Double => sc.side = "none")
                /\ (sc.reject # "no" => sc.ops = <<>> /\ sc.side = "none" /\ sc.acc = "normal" /\ sc.end \in {"release", "release+abort"})
                /\ (sc.acc \in {"handler_abort", "handler_release"} => \E k \in 1..Len(sc.ops) : sc.ops[k] = "echo")
                /\ (sc.acc = "abort_back" => sc.end = "abort" /\ sc.side = "none" /\ Len(sc.ops) <= 1)}
Init == s \in Scenarios
Next == FALSE /\ s' = s
Spec == Init /\ [][Next]_s
Export == PrintT(<<"CASE", s>>)
=============================================================================
