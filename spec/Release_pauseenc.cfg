SPECIFICATION FairSpec
CONSTANTS MaxN = 2
          WrapperConsumes = FALSE
          ReleaseWakesWaiter = TRUE
          SentinelOnlyIfEmpty = FALSE
          PauseCoversEncode = TRUE
INVARIANT TypeOK
INVARIANT C07_NeverSwallowed
PROPERTY C07_Answered
CHECK_DEADLOCK FALSE
