SPECIFICATION TSpec
