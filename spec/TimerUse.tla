------------------------------ MODULE TimerUse ------------------------------
(***************************************************************************)
(* C09, second half: how the provider *uses* its two timers.               *)
(*   ARTIM      started when the transport connection is indicated (AE-5), *)
(*              its expiry in Sta2 queues Evt18                            *)
(*   idle timer started with the reactor, restarted whenever a PDU is      *)
(*              received; the association reactor polls its expiry          *)
(* Both must be functions of elapsed time (`mono`) only: `wall` steps of    *)
(* either sign are environment actions that must not change the answers.    *)
(* The observation variables idleExp / artimExp are what the real provider  *)
(* is compared with after every step (S2C in harness/drivers/c09.py).       *)
(***************************************************************************)
EXTENDS Integers

CONSTANTS IdleT, ArtimT, MaxT
VARIABLES mono, wall, phase,      \* phase: "sta2" (awaiting A-ASSOCIATE-RQ) | "sta6" (established)
          idleStart, artimStart,  \* elapsed-clock time of the last (re)start
          idleExp, artimExp       \* what the provider must answer now
vars == <<mono, wall, phase, idleStart, artimStart, idleExp, artimExp>>

Obs(m, ph, is, as) == /\ idleExp' = (m - is > IdleT)
                      /\ artimExp' = (ph = "sta2" /\ m - as > ArtimT)

Init == /\ mono = 0 /\ wall = 0 /\ phase = "sta2" /\ idleStart = 0 /\ artimStart = 0
        /\ idleExp = FALSE /\ artimExp = FALSE

\* the A-ASSOCIATE-RQ arrives and is accepted: ARTIM stopped, idle timer restarted by the PDU
Establish == /\ phase = "sta2" /\ ~artimExp
             /\ phase' = "sta6" /\ idleStart' = mono
             /\ UNCHANGED <<mono, wall, artimStart>>
             /\ Obs(mono, "sta6", mono, artimStart)
\* a PDU is received on the established association: idle timer restarted
Data == /\ phase = "sta6"
        /\ idleStart' = mono
        /\ UNCHANGED <<mono, wall, phase, artimStart>>
        /\ Obs(mono, phase, mono, artimStart)
Advance(d) == /\ mono + d <= MaxT
              /\ mono' = mono + d /\ wall' = wall + d
              /\ UNCHANGED <<phase, idleStart, artimStart>>
              /\ Obs(mono + d, phase, idleStart, artimStart)
WallJump(d) == /\ wall' = wall + d
               /\ UNCHANGED <<mono, phase, idleStart, artimStart, idleExp, artimExp>>

Next == Establish \/ Data \/ (\E d \in {1, 2, 3} : Advance(d)) \/ (\E d \in {-3600, -5, 5, 3600} : WallJump(d))
Spec == Init /\ [][Next]_vars

\* lemma on the spec itself: the observations never depend on the wall clock
C09_WallIndependent == [][ (mono' = mono /\ phase' = phase /\ idleStart' = idleStart) => idleExp' = idleExp ]_vars
TypeOK == mono \in 0..MaxT /\ idleStart \in 0..MaxT
WallBound == wall \in -8000..8000
=============================================================================
