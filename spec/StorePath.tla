------------------------------ MODULE StorePath ------------------------------
(***************************************************************************)
(* C30: whatever SOP Instance UID value a C-STORE request carries, the     *)
(* storage applications only create or modify files inside their storage   *)
(* directory (and their database file).  POSIX path semantics over         *)
(* components: a UID value is a sequence of tokens; "/" separates          *)
(* components, ".." climbs, an absolute value replaces the directory.      *)
(***************************************************************************)
EXTENDS Integers, Sequences, FiniteSets, TLC

CONSTANT MaxTokens
Tokens == {"1", ".", "..", "/", "a", "bs"}       \* "1" digits, "a" letters, "bs" a backslash
VARIABLE uid
UidOpts == UNION {[1..n -> Tokens] : n \in 1..MaxTokens} \cup {<<"ABS">> \o t : t \in UNION {[1..n -> Tokens] : n \in 1..(MaxTokens - 1)}}
Init == uid \in UidOpts
Next == FALSE /\ uid' = uid
Spec == Init /\ [][Next]_uid

\* ---- path resolution (shared with Trace_StorePath) ----
\* comps: sequence of path components relative to a root; Resolve drops "." and applies ".."
RECURSIVE Resolve(_, _)
Resolve(acc, comps) == IF comps = <<>> THEN acc
                       ELSE LET c == Head(comps) IN
                            IF c = "" \/ c = "." THEN Resolve(acc, Tail(comps))
                            ELSE IF c = ".." THEN Resolve(IF acc = <<>> THEN <<>> ELSE SubSeq(acc, 1, Len(acc) - 1), Tail(comps))
                            ELSE Resolve(Append(acc, c), Tail(comps))
IsPrefix(p, q) == Len(p) <= Len(q) /\ SubSeq(q, 1, Len(p)) = p
\* file (components from the sandbox root) lies strictly inside dir (components from the sandbox root)
Inside(dir, file) == LET f == Resolve(<<>>, file) IN IsPrefix(dir, f) /\ Len(f) > Len(dir)
C30_InsideP(dir, db, touched) == \A k \in 1..Len(touched) : Inside(dir, touched[k]) \/ Resolve(<<>>, touched[k]) = db
Export == PrintT(<<"CASE", uid>>)
=============================================================================
