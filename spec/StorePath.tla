------------------------------ MODULE StorePath ------------------------------
(***************************************************************************)
(* C30: whatever values a C-STORE request carries, the storage             *)
(* applications only create or modify files inside their storage directory *)
(* (and their database file).  POSIX path semantics over components: a     *)
(* value is a sequence of tokens; "/" separates components, ".." climbs,   *)
(* an absolute value replaces the directory.  The hostile value is put in  *)
(* the SOP Instance UID or in another peer-controlled attribute a file     *)
(* name could be built from, for a SOP class with and without a file-name  *)
(* prefix of its own.                                                      *)
(***************************************************************************)
EXTENDS Integers, Sequences, FiniteSets, TLC

CONSTANT MaxTokens
\* "1" digits, "a" letters, "bs" a backslash, "sib" the storage directory's own name with a suffix (a sibling of it)
Tokens == {"1", ".", "..", "/", "a", "bs", "sib"}
Fields == {"SOPInstanceUID", "Modality", "PatientID", "StudyInstanceUID", "SeriesInstanceUID"}
SopKinds == {"prefixed", "unprefixed"}       \* a storage SOP class the apps know a file-name prefix for (CT) / one they do not (DX)
\* what the application's own state says about the instance before the request (qrscp's database; storescp has none):
\* "new" - not managed yet;  "elsewhere" - already managed, its file recorded at a path outside the storage directory now
\* configured (indexed in place from another archive, or stored before the storage directory was changed)
Known == {"new", "elsewhere"}
VARIABLES uid, field, sop, known
UidOpts == UNION {[1..n -> Tokens] : n \in 1..MaxTokens} \cup {<<"ABS">> \o t : t \in UNION {[1..n -> Tokens] : n \in 1..(MaxTokens - 1)}}
Hostile(u) == \E k \in 1..Len(u) : u[k] \in {"/", "..", "ABS", "bs", "sib"}
Init == /\ uid \in UidOpts /\ field \in Fields /\ sop \in SopKinds /\ known \in Known
        /\ (field # "SOPInstanceUID" => Hostile(uid))        \* (harmless values in the other attributes are of no interest)
        /\ (known = "elsewhere" => (field = "SOPInstanceUID" /\ Len(uid) <= 2))   \* (the pre-state is about the instance named by the request)
Next == FALSE /\ UNCHANGED <<uid, field, sop, known>>
Spec == Init /\ [][Next]_<<uid, field, sop, known>>

\* ---- path resolution (shared with Trace_StorePath) ----
\* comps: sequence of path components relative to a root; Resolve drops "." and applies ".."
RECURSIVE Resolve(_, _)
Resolve(acc, comps) == IF comps = <<>> THEN acc
                       ELSE LET c == Head(comps) IN
                            IF c = "" \/ c = "." THEN Resolve(acc, Tail(comps))
                            ELSE IF c = ".." THEN Resolve(IF acc = <<>> THEN <<>> ELSE SubSeq(acc, 1, Len(acc) - 1), Tail(comps))
                            ELSE Resolve(Append(acc, c), Tail(comps))
IsPrefix(p, q) == Len(p) <= Len(q) /\ SubSeq(q, 1, Len(p)) = p
\* file (components from the sandbox root) lies strictly inside dir (components from the sandbox root)
Inside(dir, file) == LET f == Resolve(<<>>, file) IN IsPrefix(dir, f) /\ Len(f) > Len(dir)
C30_InsideP(dir, db, touched) == \A k \in 1..Len(touched) : Inside(dir, touched[k]) \/ Resolve(<<>>, touched[k]) = db
Export == PrintT(<<"CASE", uid, field, sop, known>>)
=============================================================================
