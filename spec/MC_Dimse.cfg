SPECIFICATION Spec
CONSTANTS CmdLens = {5}
          DataLens = {0, 1, 2, 3, 4, 5, 6, 7, 8, 9}
          Maxes = {0, 7, 8, 9, 10, 13}
INVARIANT C15_MaxLen
INVARIANT C15_Order
INVARIANT C15_LastFlags
INVARIANT C15_Contiguous
INVARIANT C15_Reassembly
INVARIANT C16_Flag
INVARIANT C15_CanGroup
INVARIANT Export
