SPECIFICATION TSpec
