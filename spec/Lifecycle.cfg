SPECIFICATION Spec
CONSTANTS Servers = {1, 2}
          AccSlots = {1, 2}
          ReqSlots = {3}
          MaxOps = 7
PROPERTY L_ShutdownLeavesNothing
PROPERTY L_StopKeepsAssociations
PROPERTY L_EstablishedOnlyViaListener
CHECK_DEADLOCK FALSE
