SPECIFICATION Spec
INVARIANT Export
