SPECIFICATION Spec
CONSTANTS Servers = {1, 2}
          AccSlots = {1, 2}
          ReqSlots = {3}
          MaxOps = 12
CHECK_DEADLOCK FALSE
