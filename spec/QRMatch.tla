------------------------------ MODULE QRMatch ------------------------------
(***************************************************************************)
(* C29 - qrscp returns exactly the entities the PS3.4 matching rules       *)
(* select.                                                                 *)
(*                                                                         *)
(* A database is a set of stored instances, each a record of the supported *)
(* keys (PS3.4 C.6: Patient / Study / Series / Image levels).  Text values *)
(* are sequences of one-character strings, dates are numbers YYYYMMDD.     *)
(* An identifier gives a Query/Retrieve level and, per key, a matching     *)
(* specification:                                                          *)
(*   [t |-> "absent"]            the key is not in the identifier          *)
(*   [t |-> "universal"]         zero-length value     (C.2.2.2.3)         *)
(*   [t |-> "single", v]         single value matching (C.2.2.2.1)         *)
(*   [t |-> "wild", v]           value with * or ?     (C.2.2.2.4)         *)
(*   [t |-> "list", v (a set)]   list of UID matching  (C.2.2.2.2)         *)
(*   [t |-> "range", lo, hi]     range matching, 0 = open (C.2.2.2.5)      *)
(* Wild card matching: * matches any sequence of characters (also none),   *)
(* ? exactly one character, every other character - '%' and '_' included - *)
(* matches itself; matching is case-sensitive except for person names.     *)
(* Hierarchical search (C.4.1.3.1.1): an entity at the requested level is  *)
(* selected iff some stored instance belonging to it matches every key of  *)
(* its own and of the higher levels.  C-FIND answers once per selected     *)
(* entity; C-GET / C-MOVE (unique keys only, required keys ignored,        *)
(* C.2.2.1.2) retrieve the instances below the selected entities.          *)
(* The identifier is rejected iff its level hierarchy is invalid: unknown  *)
(* level for the model, a key below the level, or a missing unique key of  *)
(* a higher level.                                                         *)
(***************************************************************************)
EXTENDS Integers, Sequences, FiniteSets, TLC

\* (SeriesNumber is an IS key: single value matching of a key that is literally the stored value must select it, whatever
\*  its form - leading zeros included; matching of numerically equal but differently written values is not judged)
Keys == {"PatientID", "PatientName", "StudyInstanceUID", "StudyDate", "SeriesInstanceUID", "Modality", "SeriesNumber", "SOPInstanceUID"}
Unique == [PATIENT |-> "PatientID", STUDY |-> "StudyInstanceUID", SERIES |-> "SeriesInstanceUID", IMAGE |-> "SOPInstanceUID"]
\* level of every key in each information model (Study Root: the patient attributes belong to the study level)
LevelOf(model, k) ==
  CASE k \in {"PatientID", "PatientName"} -> IF model = "patient_root" THEN "PATIENT" ELSE "STUDY"
    [] k \in {"StudyInstanceUID", "StudyDate"} -> "STUDY"
    [] k \in {"SeriesInstanceUID", "Modality", "SeriesNumber"} -> "SERIES"
    [] OTHER -> "IMAGE"
Levels(model) == IF model = "patient_root" THEN <<"PATIENT", "STUDY", "SERIES", "IMAGE">> ELSE <<"STUDY", "SERIES", "IMAGE">>
Rank(model, l) == CHOOSE i \in 1..Len(Levels(model)) : Levels(model)[i] = l
IsLevel(model, l) == \E i \in 1..Len(Levels(model)) : Levels(model)[i] = l

\* ---- characters ----
Lower == [c \in {"A", "B", "C", "D", "E", "H", "J", "M", "N", "O", "P", "R", "T"} |->
            CASE c = "A" -> "a" [] c = "B" -> "b" [] c = "C" -> "c" [] c = "D" -> "d" [] c = "E" -> "e" [] c = "H" -> "h" [] c = "J" -> "j"
              [] c = "M" -> "m" [] c = "N" -> "n" [] c = "O" -> "o" [] c = "P" -> "p" [] c = "R" -> "r" [] c = "T" -> "t"]
Fold(c) == IF c \in DOMAIN Lower THEN Lower[c] ELSE c
SameChar(a, b, ci) == IF ci THEN Fold(a) = Fold(b) ELSE a = b

\* ---- C.2.2.2.4 wild card matching of pattern p against value v ----
RECURSIVE Wild(_, _, _)
Wild(p, v, ci) ==
  IF p = <<>> THEN v = <<>>
  ELSE IF Head(p) = "*" THEN Wild(Tail(p), v, ci) \/ (v # <<>> /\ Wild(p, Tail(v), ci))
  ELSE IF v = <<>> THEN FALSE
  ELSE IF Head(p) = "?" THEN Wild(Tail(p), Tail(v), ci)
  ELSE SameChar(Head(p), Head(v), ci) /\ Wild(Tail(p), Tail(v), ci)

\* ---- does the stored value x of key k match the specification m ----
\* (ci: a deviating semantics used only to classify observed behaviour - every wild card match ignores case)
MatchesX(k, m, x, ci) ==
  CASE m.t \in {"absent", "universal"} -> TRUE
    [] m.t = "single" -> x = m.v
    [] m.t = "wild"   -> Wild(m.v, x, ci \/ k = "PatientName")
    [] m.t = "list"   -> x \in m.v
    [] m.t = "range"  -> x # 0 /\ (m.lo = 0 \/ m.lo <= x) /\ (m.hi = 0 \/ x <= m.hi)
Matches(k, m, x) ==
  CASE m.t \in {"absent", "universal"} -> TRUE
    [] m.t = "single" -> x = m.v
    [] m.t = "wild"   -> Wild(m.v, x, k = "PatientName")
    [] m.t = "list"   -> x \in m.v
    [] m.t = "range"  -> x # 0 /\ (m.lo = 0 \/ m.lo <= x) /\ (m.hi = 0 \/ x <= m.hi)      \* (0 / <<>>: the instance has no value)

\* ---- identifier validity (level hierarchy) ----
Present(id, k) == id.keys[k].t # "absent"
Valid(model, id) ==
  /\ IsLevel(model, id.level)
  /\ \A k \in Keys : Present(id, k) => Rank(model, LevelOf(model, k)) <= Rank(model, id.level)
  /\ \A i \in 1..(Rank(model, id.level) - 1) : Present(id, Unique[Levels(model)[i]])
  /\ \E k \in Keys : Present(id, k)

\* ---- C-GET / C-MOVE: required keys are ignored ----
Effective(op, id) == IF op = "find" THEN id
                     ELSE [id EXCEPT !.keys = [k \in Keys |-> IF k \in {"PatientID", "StudyInstanceUID", "SeriesInstanceUID", "SOPInstanceUID"} THEN id.keys[k]
                                                                  ELSE [t |-> "absent"]]]
\* instances that match every key of the requested level and above
Hits(db, model, id) == {r \in db : \A k \in Keys : Matches(k, id.keys[k], r[k])}
\* the entity of instance r at level l: its unique key there
EntityOf(r, l) == r[Unique[l]]
Selected(db, model, op, id) ==
  LET e == Effective(op, id) IN
  IF op = "find" THEN {EntityOf(r, id.level) : r \in Hits(db, model, e)}
  ELSE {r.SOPInstanceUID : r \in Hits(db, model, e)}
\* classification aids: the selection if wild card matching ignored case everywhere; the number of matching instances
HitsCI(db, model, id) == {r \in db : \A k \in Keys : MatchesX(k, id.keys[k], r[k], TRUE)}
SelectedCI(db, model, op, id) ==
  LET e == Effective(op, id) IN
  IF op = "find" THEN {EntityOf(r, id.level) : r \in HitsCI(db, model, e)} ELSE {r.SOPInstanceUID : r \in HitsCI(db, model, e)}
NHits(db, model, op, id) == Cardinality(Hits(db, model, Effective(op, id)))
Expected(db, model, op, id) == IF Valid(model, Effective(op, id)) THEN [ok |-> TRUE, sel |-> Selected(db, model, op, id)]
                               ELSE [ok |-> FALSE, sel |-> {}]

=============================================================================
