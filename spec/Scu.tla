-------------------------------- MODULE Scu --------------------------------
(***************************************************************************)
(* C24: what an SCU call surfaces to its caller for any behaviour of the   *)
(* peer.  The peer is the environment: at each step it sends one item from *)
(* a finite alphabet (or stays silent); `script` is the history of what it *)
(* sent, `yielded` what the iterator handed to the caller.  Written from   *)
(* the property and the documented contract of send_c_find/get/move        *)
(* (yield each response once and in order; stop at the first non-Pending   *)
(* response, Repository Query 0xB001 excepted; on silence, an invalid or   *)
(* unexpected message: abort and yield one empty status with no            *)
(* identifier; an undecodable identifier is reported as None).             *)
(***************************************************************************)
EXTENDS Integers, Sequences, FiniteSets, TLC

CONSTANTS Op,         \* "FIND" "FINDREPO" "GET" "MOVE" (iterators) or "SINGLE" (one-response operations)
          MaxItems

Pending == 65280  Success == 0  WarnLimit == 45057  WarnSub == 45056  Failure == 42752  Cancel == 65024
ProcFail == 272
Empty == -1           \* the documented "empty status dataset" result
IsPending(s) == s \in {65280, 65281}
NonFinal(s) == IsPending(s) \/ (Op = "FINDREPO" /\ s = WarnLimit)

\* what the peer can send
Items == IF Op = "SINGLE" THEN {"S", "F", "SU", "WU", "INV", "WRONG", "SILENCE"}
         ELSE {"P", "PU", "S", "W", "F", "C", "WL", "INV", "WRONG", "SILENCE"}
              \cup (IF Op \in {"GET", "MOVE"} THEN {"STORE", "FU"} ELSE {})
\* P pending with identifier, PU pending with undecodable identifier, S success, W warning (with identifier for
\* GET/MOVE), F failure, FU failure whose identifier cannot be decoded, C cancel, WL 0xB001, INV invalid response,
\* WRONG a message of another service, SILENCE nothing until the DIMSE timeout, STORE a C-STORE sub-operation request
\* SU / WU (single-response DIMSE-N calls): a Success / Warning response whose reply data set cannot be decoded - the caller gets
\* the documented (0110H Processing failure, None) whatever the peer's status was
StatusOf(it) == CASE it \in {"P", "PU"} -> Pending [] it = "S" -> Success [] it = "W" -> WarnSub [] it \in {"F", "FU"} -> Failure
                  [] it = "C" -> Cancel [] it = "WL" -> WarnLimit [] it \in {"SU", "WU"} -> ProcFail [] OTHER -> Empty
IdentOf(it) == CASE it = "P" -> (IF Op \in {"FIND", "FINDREPO"} THEN "same" ELSE "none")
                 [] it \in {"W", "F", "C"} /\ Op \in {"GET", "MOVE"} -> "same"
                 [] OTHER -> "none"

VARIABLES script, yielded, aborted, ended, stores
vars == <<script, yielded, aborted, ended, stores>>
Y(st, ident) == [st |-> st, ident |-> ident, item |-> Len(script) + 1]

Init == script = <<>> /\ yielded = <<>> /\ aborted = FALSE /\ ended = FALSE /\ stores = 0
PeerSends(it) ==
  /\ ~ended /\ Len(script) < MaxItems
  /\ script' = Append(script, it)
  /\ CASE it \in {"INV", "WRONG", "SILENCE"} ->
            /\ yielded' = Append(yielded, Y(Empty, "none")) /\ aborted' = TRUE /\ ended' = TRUE /\ UNCHANGED stores
       [] it = "STORE" -> stores' = stores + 1 /\ UNCHANGED <<yielded, aborted, ended>>
       [] OTHER -> /\ yielded' = Append(yielded, Y(StatusOf(it), IdentOf(it)))
                   /\ ended' = (~NonFinal(StatusOf(it)) \/ Op = "SINGLE")
                   /\ UNCHANGED <<aborted, stores>>
Next == \E it \in Items : PeerSends(it)
Spec == Init /\ [][Next]_vars

\* ========================== property predicates (shared with Trace_Scu) =====================
\* sc: the items the peer sent, y: what was yielded [st, ident, item], repo: Repository Query
Surfaced(sc) == {k \in 1..Len(sc) : sc[k] \notin {"STORE"}}     \* items that are responses (or their absence)
NonFinalP(s, repo) == IsPending(s) \/ (repo /\ s = WarnLimit)
FirstFinal(sc, repo) == LET F == {k \in Surfaced(sc) : ~NonFinalP(StatusOf(sc[k]), repo)} IN
                        IF F = {} THEN 0 ELSE CHOOSE k \in F : \A j \in F : k <= j
\* each response up to and including the first non-Pending one is yielded exactly once, in order, nothing else
C24_OnceInOrderP(sc, y, repo) ==
  LET ff == FirstFinal(sc, repo)
      want == {k \in Surfaced(sc) : ff = 0 \/ k <= ff} IN
  /\ Len(y) = Cardinality(want)
  /\ \A i \in 1..Len(y) : y[i].item \in want /\ y[i].st = StatusOf(sc[y[i].item])
  /\ \A i, j \in 1..Len(y) : i < j => y[i].item < y[j].item
C24_StopsAtFinalP(y, repo) == \A i \in 1..Len(y) : ~NonFinalP(y[i].st, repo) => i = Len(y)
\* silence / invalid / unexpected message: one empty status without identifier, last, and the association is aborted
C24_FailCleanP(sc, y, ab) ==
  \A k \in 1..Len(sc) : sc[k] \in {"INV", "WRONG", "SILENCE"} /\ (\A j \in 1..(k - 1) : sc[j] \notin {"INV", "WRONG", "SILENCE"}) =>
      /\ Len(y) > 0 /\ y[Len(y)].st = Empty /\ y[Len(y)].ident = "none" /\ y[Len(y)].item = k
      /\ ab
\* an identifier that cannot be decoded is reported as None (and only once: OnceInOrder)
C24_UndecodableP(sc, y) == \A i \in 1..Len(y) : (y[i].item \in 1..Len(sc) /\ sc[y[i].item] \in {"PU", "FU", "SU", "WU"}) =>
                                                     (y[i].ident = "none" /\ (sc[y[i].item] \in {"SU", "WU"} => y[i].st = ProcFail))
C24_NoLockP(locks) == \A i \in 1..Len(locks) : ~locks[i]

Repo == Op = "FINDREPO"
C24_OnceInOrder == (ended \/ Len(script) = MaxItems) => C24_OnceInOrderP(script, yielded, Repo) \/ Op = "SINGLE"
C24_StopsAtFinal == C24_StopsAtFinalP(yielded, Repo) \/ Op = "SINGLE"
C24_FailClean == C24_FailCleanP(script, yielded, aborted)
Export == (ended \/ Len(script) = MaxItems) => PrintT(<<"CASE", Op, script>>)
=============================================================================
