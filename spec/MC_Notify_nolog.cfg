SPECIFICATION Spec
CONSTANTS CatchNotifications = TRUE
          LogSafe = FALSE
          Script <- MCScript
          Flavours <- MCFlavours
          Handlers = 2
          Continue = "skip"
INVARIANT C26_SameExchange
INVARIANT C26_Contained
INVARIANT C26_Completes
CHECK_DEADLOCK FALSE
