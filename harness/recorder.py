"""Notification recorder (C2S): wraps the single function every pynetdicom module calls to emit an event,
`pynetdicom.events.trigger`, records (association, thread, event name, scalar fields) and optionally injects
seeded random delays to perturb the interleaving of the DUL / association / user threads.

Nothing is bound on any association, so handlers and tests are unaffected.  Threads that die with an
exception are recorded through threading.excepthook.
"""
from __future__ import annotations

import itertools
import random
import threading
import time

import pn  # noqa: F401
import pynetdicom.events as _ev

_orig_trigger = _ev.trigger
_orig_hook = threading.excepthook


def _site():
    """The call site of a terminal notification: the pynetdicom function that reports it and, for abort(), who called it."""
    import sys
    f = sys._getframe(2)
    names = []
    while f is not None and len(names) < 8:
        fn = f.f_code.co_filename
        if "/pynetdicom/" in fn and not fn.endswith("events.py"):
            names.append(f.f_code.co_name)
        elif names:
            names.append("user" if "pynetdicom" not in fn or "/tests/" in fn else f.f_code.co_name)
            break
        f = f.f_back
    skip = {"abort", "_abort_nonblocking", "_trigger", "trigger", "run_reactor", "_bootstrap_inner", "run", "_bootstrap"}
    names = [x for x in names if x not in skip]
    return "<".join(names[:3]) or "?"


CURRENT = None


def mark(assoc, op):
    """A user thread is about to make a public API call on `assoc` (recorded so that a second terminal report can be
    told apart: did the call that produced it begin before the first report - a race - or after it - sequential)."""
    r = CURRENT
    if r is not None and assoc is not None:
        with r.lock:
            r.events.append({"seq": next(r.seq), "assoc": getattr(assoc, "_verif_uid", 0), "mode": getattr(assoc, "mode", "?"),
                             "th": threading.current_thread().name, "ev": "USER_CALL", "op": op})


class Recorder:
    def __init__(self, seed=0, max_delay=0.0, delay_prob=0.0):
        self.lock = threading.Lock()
        self.seq = itertools.count(1)
        self.uids = itertools.count(1)        # a unique id per association object (id() values are reused after collection)
        self.events = []          # dicts
        self.crashes = []         # (thread, text)
        self.crash_by_assoc = {}  # association uid -> [text]
        self.rng = random.Random(seed)
        self.max_delay = max_delay
        self.delay_prob = delay_prob
        self.raise_plan = None    # callable(assoc, name, index) -> bool: make bound notification handlers raise (C26)

    # ---- installation ----
    def install(self):
        global CURRENT
        CURRENT = self
        _ev.trigger = self._trigger
        threading.excepthook = self._hook
        return self

    def uninstall(self):
        global CURRENT
        CURRENT = None
        _ev.trigger = _orig_trigger
        threading.excepthook = _orig_hook

    def __enter__(self):
        return self.install()

    def __exit__(self, *a):
        self.uninstall()

    def _hook(self, args):
        th = args.thread
        owner = th if hasattr(th, "dul") else getattr(th, "assoc", None)      # Association thread, or its provider thread
        with self.lock:
            self.crashes.append((th, f"{args.exc_type.__name__}: {args.exc_value}"))
            self.crash_by_assoc.setdefault(getattr(owner, "_verif_uid", 0), []).append(f"{args.exc_type.__name__}: {args.exc_value}")

    def _trigger(self, assoc, event, attrs=None):
        a = attrs or {}
        uid = getattr(assoc, "_verif_uid", None)
        if uid is None:
            with self.lock:
                uid = getattr(assoc, "_verif_uid", None)
                if uid is None:
                    uid = next(self.uids)
                    try:
                        assoc._verif_uid = uid
                    except Exception:  # noqa: BLE001
                        uid = id(assoc)
        rec = {"seq": 0, "assoc": uid, "mode": getattr(assoc, "mode", "?"), "th": threading.current_thread().name, "ev": event.name}
        n = event.name
        try:
            if n == "EVT_FSM_TRANSITION":
                rec.update(state=int(a["current_state"][3:]), event=int(a["fsm_event"][3:]), action=a["action"], next=int(a["next_state"][3:]))
            elif n in ("EVT_DATA_SENT", "EVT_DATA_RECV"):
                d = a["data"]
                rec.update(type=d[0] if d else -1, len=len(d))
            elif n in ("EVT_PDU_SENT", "EVT_PDU_RECV"):
                p = a["pdu"]
                rec.update(type=int(p.pdu_type), len=len(p.encode()) if n == "EVT_PDU_RECV" else int(p.pdu_length) + 6)
            elif n in ("EVT_DIMSE_SENT", "EVT_DIMSE_RECV"):
                m = a["message"]
                cs = m.command_set
                rec.update(msg=type(m).__name__, status=int(cs.Status) if "Status" in cs else -1, ctx=int(m.context_id or 0),
                           mid=int(cs.MessageID) if "MessageID" in cs else int(cs.MessageIDBeingRespondedTo) if "MessageIDBeingRespondedTo" in cs else -1)
            elif n in ("EVT_ABORTED", "EVT_RELEASED", "EVT_REJECTED"):
                rec["site"] = _site()
            elif n in ("EVT_ACSE_SENT", "EVT_ACSE_RECV"):
                p = a["primitive"]
                rec.update(prim=type(p).__name__, result=-1 if getattr(p, "result", None) is None else (p.result if isinstance(p.result, int) else 1))
        except Exception as e:  # noqa: BLE001  the recorder must never disturb the code under observation
            rec["recerr"] = str(e)[:60]
        with self.lock:
            rec["seq"] = next(self.seq)
            self.events.append(rec)
            delay = self.rng.random() * self.max_delay if self.max_delay and self.rng.random() < self.delay_prob else 0.0
        if delay:
            time.sleep(delay)
        return _orig_trigger(assoc, event, attrs)

    # ---- queries ----
    def by_assoc(self):
        out = {}
        for e in self.events:
            out.setdefault(e["assoc"], []).append(e)
        return out
