"""Small builders for pynetdicom objects used by several drivers (always the /repo working tree)."""
from __future__ import annotations

import sys

from common import REPO

if REPO not in sys.path:
    sys.path.insert(0, REPO)

import logging

logging.getLogger("pynetdicom").setLevel(logging.CRITICAL + 1)
logging.getLogger("pynetdicom").propagate = False
logging.getLogger("pynetdicom").addHandler(logging.NullHandler())

from pynetdicom import AE, build_context  # noqa: E402
from pynetdicom.association import Association  # noqa: E402
from pynetdicom.pdu import (  # noqa: E402
    A_ABORT_RQ,
    A_ASSOCIATE_AC,
    A_ASSOCIATE_RJ,
    A_ASSOCIATE_RQ,
    A_RELEASE_RP,
    A_RELEASE_RQ,
    P_DATA_TF,
)
from pynetdicom.pdu_primitives import (  # noqa: E402
    A_ABORT,
    A_ASSOCIATE,
    A_P_ABORT,
    A_RELEASE,
    P_DATA,
    ImplementationClassUIDNotification,
    MaximumLengthNotification,
)
from pynetdicom.transport import AddressInformation, T_CONNECT  # noqa: E402

VERIFICATION = "1.2.840.10008.1.1"
IMPLICIT_LE = "1.2.840.10008.1.2"
EXPLICIT_LE = "1.2.840.10008.1.2.1"
EXPLICIT_BE = "1.2.840.10008.1.2.2"
DEFLATED = "1.2.840.10008.1.2.1.99"


def assoc_rq_primitive(contexts=None, calling="CALLING", called="CALLED", max_pdu=16382):
    p = A_ASSOCIATE()
    p.application_context_name = "1.2.840.10008.3.1.1.1"
    p.calling_ae_title = calling
    p.called_ae_title = called
    p.calling_presentation_address = AddressInformation("127.0.0.1", 11112)
    p.called_presentation_address = AddressInformation("127.0.0.1", 11113)
    ml = MaximumLengthNotification()
    ml.maximum_length_received = max_pdu
    ic = ImplementationClassUIDNotification()
    ic.implementation_class_uid = "1.2.3.4"
    p.user_information = [ml, ic]
    if contexts is None:
        cx = build_context(VERIFICATION)
        cx.context_id = 1
        contexts = [cx]
    p.presentation_context_definition_list = contexts
    return p


def assoc_ac_primitive(rq=None):
    p = assoc_rq_primitive() if rq is None else rq
    p.result = 0x00
    cxs = []
    for cx in p.presentation_context_definition_list:
        c = build_context(cx.abstract_syntax, cx.transfer_syntax[0])
        c.context_id = cx.context_id
        c.result = 0
        cxs.append(c)
    p.presentation_context_definition_results_list = cxs
    return p


def assoc_rj_primitive(result=1, source=1, diag=1):
    p = assoc_rq_primitive()
    p.result = result
    p.result_source = source
    p.diagnostic = diag
    return p


def rq_pdu(protocol_version=1) -> A_ASSOCIATE_RQ:
    pdu = A_ASSOCIATE_RQ(assoc_rq_primitive())
    pdu.protocol_version = protocol_version
    return pdu


def ac_pdu() -> A_ASSOCIATE_AC:
    return A_ASSOCIATE_AC(assoc_ac_primitive())


def rj_pdu(result=1, source=1, diag=1) -> A_ASSOCIATE_RJ:
    return A_ASSOCIATE_RJ(assoc_rj_primitive(result, source, diag))


def pdata_primitive(ctx=1, payload=b"\x03\x00\x00\x00\x00") -> P_DATA:
    p = P_DATA()
    p.presentation_data_value_list = [[ctx, payload]]
    return p


def pdata_pdu(ctx=1, payload=b"\x03\x00\x00\x00\x00") -> P_DATA_TF:
    return P_DATA_TF(pdata_primitive(ctx, payload))


def release_primitive(response=False) -> A_RELEASE:
    p = A_RELEASE()
    if response:
        p.result = "affirmative"
    return p


def abort_primitive(source=0) -> A_ABORT:
    p = A_ABORT()
    p.abort_source = source
    return p


def pabort_primitive(reason=2) -> A_P_ABORT:
    p = A_P_ABORT()
    p.provider_reason = reason
    return p


def abort_pdu(source=0, reason=0) -> A_ABORT_RQ:
    pdu = A_ABORT_RQ()
    pdu.source = source
    pdu.reason_diagnostic = reason
    return pdu


def new_assoc(mode="requestor", ae=None) -> Association:
    ae = ae or AE()
    assoc = Association(ae, mode)
    assoc.requestor.address_info = AddressInformation("127.0.0.1", 11112)
    assoc.acceptor.address_info = AddressInformation("127.0.0.1", 11113)
    assoc.requestor.ae_title = "CALLING"
    assoc.acceptor.ae_title = "CALLED"
    return assoc


PDU_KIND = {1: "RQ", 2: "AC", 3: "RJ", 4: "PDATA", 5: "RELRQ", 6: "RELRP", 7: "ABORT"}


def wire_kinds(chunks) -> list[str]:
    """Kinds of the PDUs in a list of byte strings handed to socket.send (one PDU per send)."""
    return [PDU_KIND.get(c[0], f"?{c[0]}") for c in chunks if c]
