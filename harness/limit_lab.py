"""C14 lab: a real acceptor AE with maximum_associations = Max, raw peers as requestors, and the negotiation threads
stepped along a history of spec/AcceptLimit.tla.  No hook in pynetdicom is needed: the threads are parked in user handlers
that the code calls at the right places -
  EVT_ASYNC_OPS (intervention, called just before the reading of the active acceptor associations),
  EVT_ACSE_SENT (notification, called inside send_accept / send_reject: the decision is taken, is_established not yet set).
"""
from __future__ import annotations

import threading
import time

import pn  # noqa: F401
from pynetdicom import AE, evt

from raw_peer import RawPeer

V = "1.2.840.10008.1.1"


class Lab:
    def __init__(self, maximum):
        self.maximum = maximum
        self.assoc = {}          # thread id -> acceptor Association
        self.g2 = {}             # thread id -> (reached, go) before the reading
        self.g3 = {}             # thread id -> (reached, go) after the decision
        self.decision = {}       # thread id -> ("accept",) | ("reject", result, source, diagnostic)
        self.gated = True
        self.lock = threading.Lock()
        self.max_seen = 0        # most simultaneously established acceptor associations seen at any notification
        ae = self.ae = AE("ACCEPTOR")
        # the application lowers the limit after the first server has been started: the setting in force is the AE's current one
        ae.maximum_associations = maximum + 5
        ae.require_called_aet = True          # requests of the scenario's "bad" threads name another called AE title
        ae.acse_timeout, ae.dimse_timeout, ae.network_timeout = 10, 10, 30
        ae.add_supported_context(V)
        self.handlers = [(evt.EVT_REQUESTED, self._requested), (evt.EVT_ASYNC_OPS, self._async), (evt.EVT_ACSE_SENT, self._acse_sent),
                         (evt.EVT_ESTABLISHED, self._count), (evt.EVT_RELEASED, self._count), (evt.EVT_ABORTED, self._count)]
        self.servers, self.ports = {}, {}
        self.start(1)
        ae.maximum_associations = maximum
        self.port = self.ports[1]

    def start(self, x):
        """AE.start_server() for listener x (again, after a shutdown: the associations the old one accepted go on)."""
        self.servers[x] = self.ae.start_server(("127.0.0.1", 0), block=False, evt_handlers=self.handlers)
        self.ports[x] = self.servers[x].socket.getsockname()[1]

    def restart(self, x):
        if x in self.servers:
            self.servers[x].shutdown()
        self.start(x)

    @staticmethod
    def tid(assoc):
        for get in (lambda: assoc.requestor.primitive.calling_ae_title, lambda: assoc.requestor.ae_title):
            try:
                return int(str(get()).strip()[1:])
            except Exception:  # noqa: BLE001
                continue
        return 0

    def established_now(self):
        return sorted(t for t, a in list(self.assoc.items()) if a.is_established)

    def _count(self, event):
        n = len([a for a in threading.enumerate() if type(a).__name__ == "Association" and a.is_acceptor and a.ae is self.ae and a.is_established])
        with self.lock:
            self.max_seen = max(self.max_seen, n)

    def _requested(self, event):
        self.assoc[self.tid(event.assoc)] = event.assoc

    def _gate(self, table, t):
        if not self.gated:
            return
        reached, go = table.setdefault(t, (threading.Event(), threading.Event()))
        reached.set()
        go.wait(20)

    def _async(self, event):
        self._gate(self.g2, self.tid(event.assoc))
        return None

    def _acse_sent(self, event):
        p = event.primitive
        if type(p).__name__ != "A_ASSOCIATE" or p.result is None:
            return
        t = self.tid(event.assoc)
        self.decision[t] = ("accept",) if p.result == 0 else ("reject", int(p.result), int(p.result_source), int(p.diagnostic))
        self._gate(self.g3, t)

    def close(self):
        self.gated = False
        for table in (self.g2, self.g3):
            for reached, go in list(table.values()):
                go.set()
        for srv in self.servers.values():
            srv.shutdown()


def wait(cond, timeout=5.0):
    t1 = time.monotonic() + timeout
    while time.monotonic() < t1:
        if cond():
            return True
        time.sleep(0.001)
    return bool(cond())


def replay(hist, maximum, bad=()):
    """Step the real negotiation threads along `hist` (list of (action, thread)); returns the per-step observations."""
    lab = Lab(maximum)
    peers, steps, ok = {}, [], True
    try:
        for act, t, x in hist:
            t, x = int(t), int(x)
            note = ""
            if act == "restart":
                lab.restart(x)
                ok = True
            elif act == "spawn":
                if x not in lab.servers:
                    lab.start(x)
                lab.g2[t] = (threading.Event(), threading.Event())
                lab.g3[t] = (threading.Event(), threading.Event())
                peers[t] = RawPeer(lab.ports[x], [(V, ["1.2.840.10008.1.2"])], calling=f"T{t}", called="ACCEPTOR" if t not in bad else "SOMEONEELSE", async_ops=(2, 2))
                peers[t].send_rq()
                ok = wait(lambda: lab.g2[t][0].is_set())
            elif act == "check":
                lab.g2[t][1].set()
                ok = wait(lambda: lab.g3[t][0].is_set())
                note = lab.decision.get(t, ("?",))[0]
            elif act in ("establish", "rejected"):
                # the step follows what the real thread decided (if that differs from the history the judge reports the
                # difference; going on with the real decision lets an over-admission show up in the established count)
                real = lab.decision.get(t, ("?",))[0]
                lab.g3[t][1].set()
                if real == "accept":
                    ok = wait(lambda: t in lab.assoc and lab.assoc[t].is_established)
                else:
                    kind = peers[t].read_answer(3.0)
                    ok = wait(lambda: not lab.assoc[t].is_alive())
                    note = kind
                if (real == "accept") != (act == "establish"):
                    note = f"history says {act}, the thread decided {real}"
            elif act == "end":
                if lab.assoc[t].is_alive():
                    peers[t].abort()
                    peers[t].close()
                    ok = wait(lambda: not lab.assoc[t].is_alive())
            est = lab.established_now()
            alive = len([a for a in threading.enumerate() if type(a).__name__ == "Association" and a.is_acceptor and a.ae is lab.ae])
            steps.append({"act": act, "t": t, "ok": bool(ok), "est": est, "alive": alive, "note": note, "bad": t in bad,
                          "decision": list(lab.decision.get(t, ())), "rj": list(getattr(peers.get(t), "rj", ()) or ())})
            if not ok:
                break
        return {"steps": steps, "max_seen": lab.max_seen, "complete": bool(ok)}
    finally:
        for p in peers.values():
            p.close()
        lab.close()


def stress(maximum, n, seed, hold=0.05):
    """n requestors arrive concurrently (seeded random stagger, no gating); the number of simultaneously established acceptor
    associations is sampled at every terminal / established notification and by a monitor thread."""
    import random
    rng = random.Random(seed)
    lab = Lab(maximum)
    lab.gated = False
    results, samples, stop = {}, [], threading.Event()

    def monitor():
        while not stop.is_set():
            samples.append(len([a for a in threading.enumerate() if type(a).__name__ == "Association" and a.is_acceptor and a.ae is lab.ae and a.is_established]))
            time.sleep(0.0005)

    def client(t, delay, hold_t):
        time.sleep(delay)
        try:
            p = RawPeer(lab.port, [(V, ["1.2.840.10008.1.2"])], calling=f"T{t}")
            k = p.associate(5.0)
            results[t] = (k, getattr(p, "rj", None))
            if k == "assoc_ac":
                time.sleep(hold_t)
                p.release_rq()
                p.recv_pdu(2.0)
            p.close()
        except OSError as e:
            results[t] = ("oserror", str(e))

    try:
        m = threading.Thread(target=monitor, daemon=True)
        m.start()
        ts = [threading.Thread(target=client, args=(t, rng.random() * 0.25, hold * (0.5 + rng.random()))) for t in range(1, n + 1)]
        [t.start() for t in ts]
        [t.join(20) for t in ts]
        stop.set()
        return {"n": n, "max": maximum, "max_seen": max([lab.max_seen] + samples), "accepted": sum(1 for r in results.values() if r[0] == "assoc_ac"),
                "rejected": sorted({tuple(r[1]) for r in results.values() if r[0] == "assoc_rj" and r[1]}), "other": sorted({r[0] for r in results.values() if r[0] not in ("assoc_ac", "assoc_rj")}),
                "nrejected": sum(1 for r in results.values() if r[0] == "assoc_rj")}
    finally:
        lab.close()
