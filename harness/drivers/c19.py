"""C19 — requests on presentation contexts that were not accepted never reach a handler.

MC  : spec/CtxGuard.tla — the peer chooses the request kind and the context ids of the command and
      data fragments (accepted, rejected, never proposed, invalid); C19_NoHandler / C19_NotAnswered.
S2C : every case TLC enumerates is sent, as real P-DATA primitives, into the real DIMSE provider of a
      real Association and served the way the reactor does (get_msg -> _serve_request), the
      N-EVENT-REPORT thread path, and the storage SCP of a C-GET requestor (_c_store_scp).
C2S : Trace_CtxGuard judges (handler invoked?, answered as valid?) with the same predicates.
"""
from __future__ import annotations

import re
import threading
import warnings
from io import BytesIO

from common import Ctx, MachineryError
from tlc import _P, must_ok, run_tlc
from trace import validate_traces
import pn  # noqa: F401

KINDS = ["ECHO", "STORE", "FIND", "GET", "MOVE", "NGET", "NSET", "NACTION", "NCREATE", "NDELETE", "NEVENT", "SUBSTORE"]
IMPL = "1.2.840.10008.1.2"
MR = "1.2.840.10008.5.1.4.1.1.4"


def acc(k):
    return 4 * KINDS.index(k) + 1


def rej(k):
    return 4 * KINDS.index(k) + 3


def sop_of(kind):
    import scp_exec as X

    return {"ECHO": "1.2.840.10008.1.1", "STORE": X.CT_STORAGE, "FIND": X.PATIENT_ROOT_FIND, "GET": X.PATIENT_ROOT_GET, "MOVE": X.PATIENT_ROOT_MOVE,
            "NGET": X.MPPS_GET, "NSET": X.MPPS, "NACTION": X.STORAGE_COMMIT, "NCREATE": X.MPPS, "NDELETE": X.FILM_SESSION, "NEVENT": X.MPPS_EVT,
            "SUBSTORE": MR}[kind]


def pdatas_for(req, ctx_cmd, ctx_data):
    from dimse_lab import message_for
    from pynetdicom.pdu_primitives import P_DATA

    msg = message_for(req)
    msg.primitive_to_message(req)
    out = []
    for p in msg.encode_msg(ctx_cmd, 16382):
        q = P_DATA()
        for cid, data in p.presentation_data_value_list:
            q.presentation_data_value_list.append((ctx_cmd if data[0] & 1 else ctx_data, data))
        out.append(q)
    return out


def handlers(log):
    from pynetdicom import evt

    def ret_status(event):
        log.append((event.event.name, int(event.context.context_id)))
        return 0x0000

    def ret_pair(event):
        log.append((event.event.name, int(event.context.context_id)))
        return 0x0000, None

    def gen(event):
        log.append((event.event.name, int(event.context.context_id)))
        if event.event.name == "EVT_C_FIND":
            yield 0x0000, None
        elif event.event.name == "EVT_C_GET":
            yield 0
        else:
            yield None, None

    hs = [(evt.EVT_C_ECHO, ret_status), (evt.EVT_C_STORE, ret_status), (evt.EVT_N_DELETE, ret_status)]
    hs += [(e, ret_pair) for e in (evt.EVT_N_GET, evt.EVT_N_SET, evt.EVT_N_ACTION, evt.EVT_N_CREATE, evt.EVT_N_EVENT_REPORT)]
    hs += [(e, gen) for e in (evt.EVT_C_FIND, evt.EVT_C_GET, evt.EVT_C_MOVE)]
    return hs


def observe_acceptor(kind, ctx_cmd, ctx_data, chunked=False, prior=False):
    import scp_exec as X
    from scp_rig import ScpRig
    from pynetdicom import _config

    log = []
    contexts = [(acc(k), sop_of(k), IMPL, False, True) for k in KINDS if k != "SUBSTORE"]
    rig = ScpRig(contexts, handlers=handlers(log))
    a = rig.assoc
    from pynetdicom import build_context
    for k in KINDS:
        cx = build_context(sop_of(k), "1.2.840.10008.1.2.4.90")
        cx.context_id = rej(k)
        cx.result = 4
        a._rejected_cx.append(cx)
    req, _ = X._request(kind)
    before = set(threading.enumerate())
    exc = ""
    old = _config.STORE_RECV_CHUNKED_DATASET
    _config.STORE_RECV_CHUNKED_DATASET = chunked
    try:
        if prior:
            # an ordinary request of the same kind on its accepted context was served just before (whatever the association
            # remembers from it must not vouch for the next one)
            req0, _ = X._request(kind)
            for p in pdatas_for(req0, acc(kind), acc(kind)):
                a.dimse.receive_primitive(p)
            cid0, msg0 = a.dimse.get_msg(block=False)
            if msg0:
                a._serve_request(msg0, cid0)
            for t in set(threading.enumerate()) - before:
                t.join(2)
            del log[:]
            del rig.sent[:]
            rig.aborts = 0
        for p in pdatas_for(req, ctx_cmd, ctx_data):
            a.dimse.receive_primitive(p)
        # one reactor iteration (association.py _run_reactor): take a completely decoded message and serve it
        cid, msg = a.dimse.get_msg(block=False)
        if msg:
            a._serve_request(msg, cid)
    except Exception as e:  # noqa: BLE001
        exc = f"{type(e).__name__}: {e}"
    finally:
        _config.STORE_RECV_CHUNKED_DATASET = old
    for t in set(threading.enumerate()) - before:
        t.join(2)
    ev19 = "Evt19" in list(a.dul.event_queue.queue)
    answered = any(getattr(s, "MessageIDBeingRespondedTo", None) == X.MSG_ID and getattr(s, "Status", None) in (0x0000, 0xFF00, 0xFF01)
                   for s, _ in rig.sent)
    return {"kind": kind, "path": "acceptor" + ("/chunked" if chunked else "") + ("/after-a-valid-request" if prior else ""), "accepted": sorted(a._accepted_cx), "ctxCmd": ctx_cmd, "ctxData": ctx_data,
            "invoked": bool(log), "answered": bool(answered), "aborted": bool(rig.aborts or ev19), "exc": exc, "log": log,
            "sent": [(s.kind, getattr(s, "Status", None), c) for s, c in rig.sent]}


def observe_substore(ctx_cmd, ctx_data):
    import scp_exec as X
    from scu_rig import PATIENT_ROOT_GET, ScuRig, get_rsp
    from pynetdicom import evt, build_context
    from pydicom.dataset import Dataset
    from pynetdicom.dimse_primitives import C_STORE
    from pynetdicom.dsutils import encode
    from scp_rig import ct_dataset

    log = []
    rig = ScuRig([(1, PATIENT_ROOT_GET, IMPL, True, False), (acc("SUBSTORE"), MR, IMPL, False, True)])
    a = rig.assoc
    cx = build_context(MR, "1.2.840.10008.1.2.4.90")
    cx.context_id = rej("SUBSTORE")
    cx.result = 4
    a._rejected_cx.append(cx)

    def on_store(event):
        log.append((event.event.name, int(event.context.context_id)))
        return 0x0000

    a.bind(evt.EVT_C_STORE, on_store)
    r = C_STORE()
    r.MessageID, r.AffectedSOPClassUID, r.AffectedSOPInstanceUID, r.Priority = X.MSG_ID, MR, "1.2.3.77", 2
    ds = ct_dataset("1.2.3.77")
    ds.SOPClassUID = MR
    r.DataSet = BytesIO(encode(ds, True, True))
    exc = ""
    try:
        for p in pdatas_for(r, ctx_cmd, ctx_data):
            a.dimse.receive_primitive(p)
        for p in pdatas_for(get_rsp(0x0000, msg_id=1, counts=(None, 1, 0, 0)), 1, 1):
            a.dimse.receive_primitive(p)
        q = Dataset()
        q.QueryRetrieveLevel = "PATIENT"
        q.PatientID = "1"
        list(a.send_c_get(q, PATIENT_ROOT_GET))
    except Exception as e:  # noqa: BLE001
        exc = f"{type(e).__name__}: {e}"
    answered = any(s.kind == "C_STORE" and getattr(s, "MessageIDBeingRespondedTo", None) == X.MSG_ID and getattr(s, "Status", None) == 0x0000 for s, _ in rig.sent)
    return {"kind": "SUBSTORE", "path": "get-requestor", "accepted": sorted(a._accepted_cx), "ctxCmd": ctx_cmd, "ctxData": ctx_data,
            "invoked": bool(log), "answered": bool(answered), "aborted": bool(rig.aborts), "exc": exc, "log": log,
            "sent": [(s.kind, getattr(s, "Status", None), c) for s, c in rig.sent]}


def observe_negotiated(result_value, send_on):
    """The set of accepted contexts as the real negotiation leaves it: a real requestor (AE.associate) proposes Verification in
    contexts 1 and 3; a scripted acceptor accepts 1 and answers 3 with `result_value` (1-4: the rejections of PS3.8 Table 9-18,
    5-255: reserved - anything but 0 is not an acceptance), then sends a C-ECHO-RQ on context `send_on`."""
    import socket
    import time
    from neg_lab import recv_pdu
    from pynetdicom import AE, build_context, evt
    from pynetdicom.pdu import A_ASSOCIATE_AC, A_ASSOCIATE_RQ
    from rig import echo_rq_bytes

    V = "1.2.840.10008.1.1"
    srv = socket.socket()
    srv.bind(("127.0.0.1", 0))
    srv.listen(1)
    port = srv.getsockname()[1]
    peer = {"answer": [], "closed": False}

    def acceptor():
        try:
            c, _ = srv.accept()
            c.settimeout(3)
            raw = recv_pdu(c, 3.0)
            rq = A_ASSOCIATE_RQ()
            rq.decode(raw)
            prim = rq.to_primitive()
            prim.result = 0
            res = []
            for cx in prim.presentation_context_definition_list:
                r = build_context(cx.abstract_syntax, cx.transfer_syntax[0])
                r.context_id = cx.context_id
                r.result = 0 if cx.context_id == 1 else 1
                res.append(r)
            prim.presentation_context_definition_results_list = res
            prim.presentation_context_definition_list = []
            ac = bytearray(A_ASSOCIATE_AC(prim).encode())
            k = bytes(ac).index(b"\x21\x00", 74)            # first presentation context (AC) item: context 1, the next one is 3
            k2 = bytes(ac).index(b"\x21\x00", k + 4)
            assert ac[k2 + 4] == 3
            ac[k2 + 6] = result_value
            c.sendall(bytes(ac))
            time.sleep(0.05)
            c.sendall(echo_rq_bytes(7, send_on))
            t0 = time.time()
            while time.time() - t0 < 3:
                b = recv_pdu(c, 0.5)
                if b == b"":
                    peer["closed"] = True
                    break
                if b:
                    peer["answer"].append(b)
                    if b[0] in (5, 7):
                        break
            c.close()
        except Exception as e:  # noqa: BLE001
            peer["exc"] = f"{type(e).__name__}: {e}"

    t = threading.Thread(target=acceptor, daemon=True)
    t.start()
    log = []

    def on_echo(event):
        log.append(("EVT_C_ECHO", int(event.context.context_id)))
        return 0x0000

    ae = AE("REQUESTOR")
    ae.acse_timeout = ae.dimse_timeout = ae.network_timeout = 3
    ae.add_requested_context(V, "1.2.840.10008.1.2")
    ae.add_requested_context(V, "1.2.840.10008.1.2.1")
    a = ae.associate("127.0.0.1", port, evt_handlers=[(evt.EVT_C_ECHO, on_echo)])
    accepted = sorted(int(cx.context_id) for cx in a.accepted_contexts) if a.is_established or a.accepted_contexts else []
    t.join(6)
    srv.close()
    if "exc" in peer:
        raise MachineryError("scripted acceptor: " + peer["exc"])
    answered = False
    for b in peer["answer"]:
        if b[0] == 4 and b"\x30\x80" in b:              # a C-ECHO-RSP command field (8030H, little endian)
            answered = True
    aborted = any(b[0] == 7 for b in peer["answer"]) or a.is_aborted
    if a.is_established:
        a.abort()
    return {"kind": "ECHO", "path": f"requestor/negotiated(result={result_value})", "accepted": [1], "ctxCmd": send_on, "ctxData": send_on,
            "invoked": bool(log), "answered": answered, "aborted": bool(aborted), "exc": "", "log": log, "sent": [(b[0], len(b)) for b in peer["answer"]],
            "api_accepted": accepted}


def run(ctx: Ctx) -> int:
    warnings.simplefilter("ignore")
    r = must_ok(run_tlc("CtxGuard", workdir=ctx.work, workers=1))
    ctx.add_tlc(r)
    if r.violated:
        ctx.violation({"where": "model", "invariant": r.violated}, f"CtxGuard.tla violates {r.violated}", r.trace)
        return ctx.finish(rule="model violated its own invariants")
    cases = []
    for m in re.finditer(r'<<\s*"CASE",', r.out):
        p = _P(r.out)
        p.i = m.start()
        v = p.value()
        cases.append((v[1], v[2], v[3]))
    if len(cases) < 100:
        raise MachineryError(f"only {len(cases)} cases exported")
    obs = []
    for kind, c, d in cases:
        if kind == "SUBSTORE":
            obs.append(observe_substore(c, d))
        else:
            obs.append(observe_acceptor(kind, c, d))
            if c != acc(kind):
                obs.append(observe_acceptor(kind, c, d, prior=True))
            if kind == "STORE":
                obs.append(observe_acceptor(kind, c, d, chunked=True))
    # the accepted set as the real negotiation leaves it (requestor side): every class of "not accepted" result value
    for rv in (1, 2, 3, 4, 5, 128, 255):
        obs.append(observe_negotiated(rv, 3))
    obs.append(observe_negotiated(2, 1))       # control: a request on the accepted context is served
    for k, o in enumerate(obs):
        o["id"] = k + 1
    keep = ("id", "kind", "path", "accepted", "ctxCmd", "ctxData", "invoked", "answered")
    verdicts = validate_traces(ctx, "Trace_CtxGuard", [{k: o[k] for k in keep} for o in obs])
    for o in obs:
        v = verdicts[o["id"]][0]
        ctx.traces += 1
        cls = lambda x: "accepted" if x in o["accepted"] else "rejected" if x % 4 == 3 and x < 60 else "unproposed" if x in (201, 255) else "invalid"  # noqa: E731
        ctx.case((o["kind"], o["path"], o["ctxCmd"], o["ctxData"]), nontrivial=cls(o["ctxCmd"]) != "accepted" or cls(o["ctxData"]) != "accepted")
        if v == "ok" and o["invoked"] and o["ctxData"] not in o["accepted"]:
            ctx.drifted(f"{o['kind']} via {o['path']}: data PDVs on context {o['ctxData']} ({cls(o['ctxData'])}) while the command set is on accepted {o['ctxCmd']}: served (CtxGuard's design aborts)")
        if v != "ok":
            ctx.violation({"clause": v, "path": o["path"], "kind": o["kind"], "cmd": cls(o["ctxCmd"]), "data": cls(o["ctxData"])},
                          f"{v}: {o['kind']} via {o['path']}: command PDVs on context {o['ctxCmd']} ({cls(o['ctxCmd'])}), data PDVs on {o['ctxData']} ({cls(o['ctxData'])}); "
                          f"accepted={o['accepted']}: handler calls={o['log']} sent={o['sent']} aborted={o['aborted']} exc={o['exc']}", o)
    ctx.sample(obs[0])
    ctx.sample(obs[len(obs) // 2])
    ctx.assume("requests are injected as P-DATA primitives into the real DIMSE provider (decode_msg, receive_primitive) and served by one emulated reactor iteration",
               "a request counts as 'not accepted' when its command PDVs or its data PDVs arrive on a context id outside the accepted set")
    return ctx.finish(rule="every (request kind, command context, data context) TLC enumerates over accepted / rejected (same abstract syntax) / never proposed / invalid ids, "
                      "through the acceptor reactor path (also chunked-store mode), the N-EVENT-REPORT thread path and the C-GET requestor's storage SCP; non-trivial = some PDV on a non-accepted id",
                      exhaustive=False)
