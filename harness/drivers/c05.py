"""C05 — no schedule drives the provider into an undefined event; it returns to idle.

MC  : spec/Assoc.tla, one acceptor node against an adversarial peer, a local user who may call
      abort()/release(), ARTIM expiry and ACSE/idle timeouts.  C05_DefinedEventsOnly (modulo the
      crash signatures listed in known_findings.json) and C05_DoneImpliesIdle on every reachable state.
S2C : (1) for every known crash signature TLC produces the shortest witness behaviour, which is
      replayed on the real threads: the real provider thread must die with exactly that
      InvalidEventError (otherwise the finding is stale -> DRIFT);
      (2) TLC-simulated behaviours are replayed step by step on the real Association / DUL threads
      (harness/rig.py), comparing the projected implementation state with the spec state after every
      action.  A crash of the real provider thread or a finished-but-not-idle node is a violation
      (property predicate on observed values); any other mismatch is DRIFT.
"""
from __future__ import annotations

import json
import os

import hashlib

from common import SPEC, VERIF, Ctx, MachineryError
from tlc import must_ok, read_sim_traces, run_tlc
from replay_assoc import replay
from graph import guided_walks, load_dot

MODULE = """---- MODULE {name} ----
EXTENDS Assoc
MCNodes == {{"A"}}
MCRole == [n \\in MCNodes |-> "acceptor"]
MCOther == [n \\in MCNodes |-> "A"]
MCUserOps == [n \\in MCNodes |-> {{{ops}}}]
MCPolicy == [n \\in MCNodes |-> {{{policy}}}]
MCHandlerAbort == [n \\in MCNodes |-> {{{habort}}}]
MCFrames == {{{frames}}}
MCKnown == {{{known}}}
View == <<[n \\in Nodes |-> [nd[n] EXCEPT !.sent = <<>>, !.fired = <<>>]], wire, weof, npeer, ntick>>
Trap == \\A n \\in Nodes : nd[n].crash # {trap}
====
"""
CFG = """SPECIFICATION Spec
CONSTANTS Nodes <- MCNodes
          Role <- MCRole
          Other <- MCOther
          Adversary = TRUE
          PeerFrames <- MCFrames
          MaxPeer = {maxpeer}
          MaxTick = {maxtick}
          UserOps <- MCUserOps
          MaxOps = 1
          Policy <- MCPolicy
          KnownCrash <- MCKnown
          HandlerAbort <- MCHandlerAbort
{view}
{invs}
"""


def sig_tla(s) -> str:
    return f'<<"{s["role"]}", {s["event"]}, {s["state"]}>>'


ALL_FRAMES = ("RQ", "RQBADPV", "AC", "PD_REQ", "PD_BADMSG", "RELRQ", "RELRP", "ABORT0", "BADTYPE")


def q(xs):
    return ", ".join('"%s"' % x for x in xs)


def write_model(ctx, name, known, trap=None, maxpeer=2, maxtick=1, invs=("C05_DefinedEventsOnly", "C05_DoneImpliesIdle"), view=True,
                frames=ALL_FRAMES, ops=("abort", "release"), policy=("accept", "reject"), habort=("FALSE", "TRUE")):
    with open(os.path.join(ctx.work, name + ".tla"), "w") as f:
        f.write(MODULE.format(name=name, known=", ".join(sig_tla(k) for k in known), trap=sig_tla(trap) if trap else "<<0>>",
                              frames=q(frames), ops=q(ops), policy=q(policy), habort=", ".join(habort)))
    with open(os.path.join(ctx.work, name + ".cfg"), "w") as f:
        f.write(CFG.format(maxpeer=maxpeer, maxtick=maxtick, view="VIEW View" if view else "",
                           invs="\n".join("INVARIANT " + i for i in invs)))


def spec_hash() -> str:
    h = hashlib.sha1()
    for f in ("Assoc.tla", "ULTable.tla"):
        h.update(open(os.path.join(SPEC, f), "rb").read())
    return h.hexdigest()


def witness(ctx, k, known, regenerate=False):
    """Shortest behaviour reaching crash signature k: TLC trap invariant.  Generated on every run (no cache: the work a
    run reports must not depend on what an earlier run left behind); kept in the run's work directory."""
    path = os.path.join(ctx.work, f"witness_{k['role']}_{k['event']}_{k['state']}.json")
    write_model(ctx, "MC_C05_trap", known, trap=k, maxpeer=3, maxtick=1, invs=("Trap",))
    rt = must_ok(run_tlc("MC_C05_trap", workdir=ctx.work, spec_dir=ctx.work, timeout=1200))
    ctx.transitions += rt.generated
    if rt.violated != "Trap":
        return None
    with open(path, "w") as f:
        json.dump({"spec_sha1": spec_hash(), "signature": k, "behaviour": rt.trace}, f, default=list)
    return rt.trace


def judge_replay(ctx, rep, beh, kind):
    """Property predicates on observed values; everything else is drift."""
    if rep.crash is not None:
        role, e, s = rep.crash
        # a crash is a *known* finding only when the model (which contains exactly the crashes listed
        # in known_findings.json) predicted this crash at this step of this history; the same
        # (event, state) reached along a history the model does not explain is a new violation
        ctx.violation({"role": role, "event": e, "state": s, "predicted": rep.crash_predicted},
                      f"real provider thread died: InvalidEventError Evt{e} in Sta{s} ({kind}; "
                      f"{'as the model predicts for the known defect' if rep.crash_predicted else 'NOT explained by the model'}); "
                      f"actions={rep.trace}; diverged={json.dumps(rep.diverged, default=str)[:400] if rep.diverged else None}",
                      {"behaviour": [l for l, _ in beh]})
    if rep.done_not_idle is not None:
        ctx.violation({"role": "acceptor", "clause": "done-not-idle", "sock": rep.done_not_idle["sock"]},
                      f"all threads finished but the provider is not idle: {rep.done_not_idle}",
                      {"behaviour": [l for l, _ in beh]})
    if rep.diverged is not None:
        ctx.drifted(f"{kind}: step {rep.diverged['step']} {rep.diverged['action']}: {json.dumps(rep.diverged['diff'], default=str)[:300]}")


def run(ctx: Ctx) -> int:
    thorough = ctx.tier == "thorough"
    known = [{kk: vv for kk, vv in k["signature"].items() if kk != "predicted"} for k in ctx.known if "event" in k["signature"]]
    part = os.environ.get("VERIF_C05_PART", "all")
    # ---- MC -----------------------------------------------------------------------------------
    if part == "sim":
        known_w = []
    else:
        # (requestor signatures are found and witnessed by the pair instance of the C06 check; this check's model is the acceptor node)
        known_w = [k for k in known if k.get("role") == "acceptor"]
    write_model(ctx, "MC_C05", known, maxpeer=3 if thorough else 2, maxtick=1)
    r = must_ok(run_tlc("MC_C05", workdir=ctx.work, spec_dir=ctx.work, coverage=not thorough, timeout=3000,
                        extra=["-fp", "1"] if part == "sim" else None)) if part != "sim" else None
    if r is None:
        import types
        r = types.SimpleNamespace(violated=None, coverage={a: 1 for a in ("DulIO", "DulEvent", "AccWait", "RMsg", "RRel", "RAbt", "UAbort", "URelease", "RlWait", "KillSpin", "ArtimTick", "PeerSend", "PeerClose")}, distinct=1, generated=1, summary=lambda: {})
    ctx.add_tlc(r)
    if r.violated:
        sig = {"where": "model", "invariant": r.violated}
        last = r.trace[-1][1]["nd"]["A"] if r.trace else {}
        if r.violated == "C05_DefinedEventsOnly" and last.get("crash"):
            c = last["crash"]
            sig = {"role": c[0], "event": c[1], "state": c[2], "predicted": False}
        # a model-level counterexample is confirmed on the real code before it is reported
        rep = replay(r.trace, "A", "acceptor") if r.trace else None
        if rep is not None and (rep.crash or rep.done_not_idle):
            judge_replay(ctx, rep, r.trace, "TLC counterexample")
        else:
            ctx.drifted(f"TLC counterexample for {r.violated} did not reproduce on the code: {rep.diverged if rep else None}")
    elif not thorough:
        for a in ("DulIO", "DulEvent", "AccWait", "RMsg", "RRel", "RAbt", "UAbort", "URelease", "RlWait", "KillSpin", "ArtimTick", "PeerSend", "PeerClose"):
            if r.coverage.get(a, 0) == 0:
                raise MachineryError(f"Assoc action {a} never taken in MC_C05 (vacuous)")
    # ---- witnesses of the known findings ---------------------------------------------------------
    for k in known_w:
        beh = witness(ctx, k, known, regenerate=thorough)
        if beh is None:
            ctx.drifted(f"known signature {k} is not reachable in the model any more")
            continue
        rep = replay(beh, "A", "acceptor")
        ctx.traces += 1
        ctx.case(("witness", k["event"], k["state"]))
        if rep.crash == (k["role"], k["event"], k["state"]) and rep.crash_predicted:
            judge_replay(ctx, rep, beh, "witness")
            ctx.sample({"known_finding_witness": [l for l, _ in beh], "real_crash": rep.crash})
        else:
            ctx.drifted(f"known finding {k} did not reproduce on the code (stale?): crash={rep.crash} diverged={rep.diverged}")
    # ---- simulated behaviours replayed on the real threads ------------------------------------------
    # one general scenario plus directed ones (restricted environments make the deep paths frequent)
    scenarios = [
        ("general", dict(maxpeer=3, maxtick=2)),
        ("serve+handler-abort", dict(maxpeer=3, maxtick=1, frames=("RQ", "PD_REQ", "RELRQ"), policy=("accept",), ops=())),
        ("serve+user-abort+garbage", dict(maxpeer=3, maxtick=0, frames=("RQ", "PD_REQ", "BADTYPE"), policy=("accept",), ops=("abort",), habort=("FALSE",))),
        ("release-paths", dict(maxpeer=3, maxtick=0, frames=("RQ", "RELRQ", "ABORT0"), policy=("accept",), ops=("release",), habort=("FALSE",))),
        ("negotiation-faults", dict(maxpeer=2, maxtick=1, frames=("RQ", "RQBADPV", "BADTYPE", "AC"), ops=("abort",), habort=("FALSE",))),
    ]
    per = (800 if thorough else int(os.environ.get("VERIF_C05_N", "100")))
    nb = 0
    for si, (sname, kw) in enumerate(scenarios):
        sim = os.path.join(ctx.work, f"sim{si}")
        os.makedirs(sim, exist_ok=True)
        write_model(ctx, f"MC_C05_sim{si}", known, view=False, invs=(), **kw)
        if sname == "general":
            must_ok(run_tlc(f"MC_C05_sim{si}", workdir=ctx.work, spec_dir=ctx.work, workers=1,
                            simulate=f"file={sim}/tr,num={per}", depth=60, seed=ctx.seed + 7 + si, timeout=1200))
            behs = read_sim_traces(os.path.join(sim, "tr"))
        else:
            # directed scenario: dump the whole (small) state graph and walk it edge-targeted
            dot = os.path.join(sim, "graph.dot")
            rg = must_ok(run_tlc(f"MC_C05_sim{si}", workdir=ctx.work, spec_dir=ctx.work, workers=8,
                                 extra=["-dump", "dot,actionlabels", dot], timeout=1200))
            ctx.add_tlc(rg)
            g = load_dot(dot)
            behs, cov = guided_walks(g, per, 90, ctx.seed + si)
            ctx.cov.setdefault("graph_edge_coverage", {})[sname] = {"edges": g.n_edges, "covered_by_walks": cov, "states": len(g.raw)}
            os.remove(dot)
        if len(behs) < per // 2:
            raise MachineryError(f"only {len(behs)} behaviours for scenario {sname}")
        for i, beh in enumerate(behs):
            rep = replay(beh, "A", "acceptor")
            ctx.traces += 1
            nb += 1
            last = beh[-1][1]["nd"]["A"]
            ctx.case((last["st"], last["apc"], last["upc"], str(last["crash"]), tuple(l.split("(")[0] for l, _ in beh[-6:])),
                     nontrivial=last["st"] != 1 or bool(last["fired"]))
            judge_replay(ctx, rep, beh, f"{sname}#{i}")
            if i == 0 and si < 3:
                ctx.sample({"scenario": sname, "behaviour": [l for l, _ in beh],
                            "final_impl": {k: rep.final[k] for k in ("st", "sock", "dalive", "fired", "sent")} if rep.final else None})
        ctx.count("scenario_" + sname, len(behs))
    ctx.assume(
        "time-progress assumption: timeouts fire only while the provider loop has nothing to do (Quiet), except during a slow read",
        "steps of real threads are serialised at the modelled boundaries (queue reads, event waits, spin sleeps, DUL hook points)",
        "fake transport mirrors transport.AssociationSocket (ready/recv/send/close/_shutdown_socket)",
        "one acceptor node; requestor node and pairs are covered by C06",
    )
    return ctx.finish(
        rule="TLC behaviours of Assoc.tla (acceptor vs adversarial peer, user abort/release, timers) replayed on the real "
        "Association+DUL threads under the step controller; non-trivial = ends outside Sta1 or fired a notification; "
        "distinct = distinct (final state, pcs, last six actions)"
    )
