"""C02 — arbitrary received bytes never crash the provider or yield unstable PDUs.

MC  : spec/Mutate.tla (over PduLayout) — TLC evaluates, for a set of base PDUs, the conformant variants
      PS3.8 allows and systematic mutations, and the receive-path classification of each input;
      lemmas: the identity variant is the original, variants keep all lengths.
S2C : every input (sampled in quick) is sent over TCP loopback to a real pynetdicom acceptor in the state
      where that PDU can arrive (A-ASSOCIATE-RQ mutants to a fresh connection, the others on an
      established association), followed by end-of-stream.
C2S : Trace_Bytes judges: no exception out of the association / provider threads, the threads end, the
      first FSM event is one the classification allows, a decoded PDU re-encodes and re-decodes to an
      equal value, a conformant variant is accepted and equal to the original value.
"""
from __future__ import annotations

import json
import os
import random
import socket
import threading
import time
import warnings

from common import Ctx, MachineryError
from tlc import must_ok, run_tlc
from trace import validate_traces
import pn  # noqa: F401

CRASHED = []


def _hook(args):
    CRASHED.append((args.thread, f"{args.exc_type.__name__}: {args.exc_value}"))


class Lab:
    def __init__(self):
        from pynetdicom import AE, evt

        threading.excepthook = _hook
        self.ae = AE("STORE SCP-1")
        self.ae.acse_timeout, self.ae.dimse_timeout, self.ae.network_timeout = 0.3, 1, 1
        self.ae.maximum_associations = 1000
        self.ae.add_supported_context("1.2.840.10008.1.1")
        self.ae.add_supported_context("1.2.840.10008.5.1.4.1.1.2", scu_role=True, scp_role=True)
        self.cur = None
        hs = [(evt.EVT_CONN_OPEN, self._open), (evt.EVT_FSM_TRANSITION, self._fsm), (evt.EVT_PDU_RECV, self._pdu), (evt.EVT_USER_ID, self._uid)]
        self.server = self.ae.start_server(("127.0.0.1", 0), block=False, evt_handlers=hs)
        self.port = self.server.socket.getsockname()[1]

    def _open(self, event):
        self.cur = {"assoc": event.assoc, "fsm": [], "pdus": []}

    def _fsm(self, event):
        if self.cur is not None and self.cur["assoc"] is event.assoc:
            self.cur["fsm"].append((event.current_state, event.fsm_event))

    def _pdu(self, event):
        if self.cur is not None and self.cur["assoc"] is event.assoc:
            self.cur["pdus"].append(event.pdu)

    def _uid(self, event):
        return True, None

    def close(self):
        self.server.shutdown()


def stable(pdu):
    try:
        b = pdu.encode()
        p2 = type(pdu)()
        p2.decode(b)
        return p2 == pdu and p2.encode() == b
    except Exception:  # noqa: BLE001
        return False


def requestor_ac_cases():
    """pynetdicom as requestor: conformant A-ASSOCIATE-AC PDUs whose two reserved 16-byte fields (bytes 11-42: PS3.8 Table 9-17,
    "shall not be tested when received") hold whatever a peer may leave there.  The requestor must take each as Evt3."""
    from neg_lab import recv_pdu
    from pynetdicom import AE, evt
    from pynetdicom.pdu import A_ASSOCIATE_AC

    out = []
    base = pn.ac_pdu().encode()
    for fill in (None, 0x00, 0x20, 0x41, 0x5C, 0x09, 0xFF):
        ac = bytearray(base)
        if fill is not None:
            ac[10:42] = bytes([fill]) * 32
        srv = socket.socket()
        srv.bind(("127.0.0.1", 0))
        srv.listen(1)
        port = srv.getsockname()[1]

        def peer(ac=bytes(ac)):
            try:
                c, _ = srv.accept()
                recv_pdu(c, 5.0)
                c.sendall(ac)
                t0 = time.time()
                while time.time() - t0 < 5:
                    b = recv_pdu(c, 0.5)
                    if b == b"" or (b and b[0] == 7):
                        break
                    if b and b[0] == 5:
                        c.sendall(b"\x06\x00\x00\x00\x00\x04\x00\x00\x00\x00")
                        break
                c.close()
            except OSError:
                pass

        t = threading.Thread(target=peer, daemon=True)
        t.start()
        fsm, exc = [], []
        ae = AE("REQUESTOR")
        ae.acse_timeout = ae.dimse_timeout = ae.network_timeout = 8
        ae.add_requested_context("1.2.840.10008.1.1")
        try:
            a = ae.associate("127.0.0.1", port, evt_handlers=[(evt.EVT_FSM_TRANSITION, lambda e: fsm.append(int(e.fsm_event[3:])))])
            est = bool(a.is_established)
            if est:
                a.release()
        except Exception as e:  # noqa: BLE001
            est = False
            exc.append(f"{type(e).__name__}: {e}")
        t.join(8)
        srv.close()
        after = [e for e in fsm if e in (3, 4, 16, 17, 19)]
        try:
            p = A_ASSOCIATE_AC()
            p.decode(bytes(ac))
            dec = True
        except Exception:  # noqa: BLE001
            dec = False
        out.append({"base": "ac/requestor", "op": "variant", "n": len(ac), "rsv": -1 if fill is None else fill, "pv": 1, "conformant": True, "allowed": [3],
                    "first": after[0] if after else 0, "events": after, "escaped": bool(exc), "exc": exc, "hung": False, "decoded": dec,
                    "stable": True,          # (stability of the decoded value is judged on the acceptor-side inputs)
                    "accepted_equal": est, "answer": "established" if est else "not established", "bytes": list(ac)})
    return out


def run_case(lab: Lab, inp, base_values):
    from neg_lab import recv_pdu
    import pdu_lab

    data = bytes(inp["bytes"])
    first_is_rq = inp["base"].startswith("rq")
    lab.cur = None
    s = socket.create_connection(("127.0.0.1", lab.port), timeout=3)
    s.setsockopt(socket.IPPROTO_TCP, socket.TCP_NODELAY, 1)
    answer = b""
    try:
        if not first_is_rq:
            s.sendall(pn.rq_pdu().encode())
            ac = recv_pdu(s, 8.0)
            if not ac or ac[0] != 2:
                raise MachineryError("lab did not accept the set-up association")
            time.sleep(0.01)
        t0 = time.time()
        while lab.cur is None and time.time() - t0 < 1:
            time.sleep(0.001)
        if not first_is_rq:
            # the A-ASSOCIATE-AC is on the wire before the provider notifies the Evt7 transition: wait for the notification,
            # so that it is not mistaken for the reaction to the input
            t0 = time.time()
            while lab.cur is not None and not any(e == "Evt7" for _, e in lab.cur["fsm"]) and time.time() - t0 < 1:
                time.sleep(0.001)
        mark = len(lab.cur["fsm"]) if lab.cur else 0
        npdu = len(lab.cur["pdus"]) if lab.cur else 0
        s.sendall(data)
        if inp["conformant"]:
            answer = recv_pdu(s, 2.0) or b""
        else:
            time.sleep(0.02)
        try:
            s.shutdown(socket.SHUT_WR)
        except OSError:
            pass
        t0 = time.time()
        while time.time() - t0 < 1.5:
            b = recv_pdu(s, 0.3)
            if b == b"":
                break
    finally:
        s.close()
    rec = lab.cur
    if rec is None:
        raise MachineryError("no connection seen by the lab")
    a = rec["assoc"]
    t0 = time.time()
    while (a.is_alive() or a.dul.is_alive()) and time.time() - t0 < 3.0:
        time.sleep(0.01)
    hung = a.is_alive() or a.dul.is_alive()
    escaped = [msg for th, msg in list(CRASHED) if th is a or th is a.dul]
    evs = [e for _, e in rec["fsm"][mark:] if e != "Evt5"]
    first = int(evs[0][3:]) if evs else 0
    pdus = rec["pdus"][npdu:]
    decoded = bool(pdus)
    ok_stable = all(stable(p) for p in pdus[:1])
    accepted_equal = True
    if inp["conformant"] and decoded:
        v = base_values[inp["base"]]
        try:
            accepted_equal = pdu_lab.project(v["pdu"], pdus[0].to_primitive(), v) == []
        except Exception:  # noqa: BLE001
            accepted_equal = False
        if first_is_rq and inp.get("pv", 1) % 2 == 1:
            accepted_equal = accepted_equal and bool(answer) and answer[0] == 2
    return {"base": inp["base"], "op": inp["op"], "conformant": bool(inp["conformant"]), "allowed": list(inp["events"]), "first": first, "escaped": bool(escaped),
            "hung": bool(hung), "decoded": decoded, "stable": bool(ok_stable), "accepted_equal": bool(accepted_equal), "events": evs[:4], "exc": escaped[:1],
            "n": len(data), "answer": answer[:1].hex(), "rsv": inp.get("rsv", 0), "pv": inp.get("pv", 1)}


BASE_VALUES = None


def base_values(ctx):
    """The base values as Python dicts (mirrors Mutate.tla's Bases through Gen-style JSON of the same records)."""
    out = os.path.join(ctx.work, "bases.ndjson")
    cfg = os.path.join(ctx.work, "Bases.cfg")
    open(cfg, "w").write("SPECIFICATION BasesSpec\n")
    must_ok(run_tlc("Mutate", cfg, workdir=ctx.work, workers=1, env={"OUT": out}))
    return {d["name"]: d["v"] for d in (json.loads(l) for l in open(out) if l.strip())}


def run(ctx: Ctx) -> int:
    warnings.simplefilter("ignore")
    thorough = ctx.tier == "thorough"
    out = os.path.join(ctx.work, "inputs.ndjson")
    cfg = os.path.join(ctx.work, "Mutate.cfg")
    open(cfg, "w").write("SPECIFICATION DumpSpec\n")
    r = must_ok(run_tlc("Mutate", cfg, workdir=ctx.work, workers=1, env={"OUT": out}, timeout=1800))
    ctx.add_tlc(r)
    inputs = [json.loads(l) for l in open(out) if l.strip()]
    if len(inputs) < 1000:
        raise MachineryError(f"only {len(inputs)} inputs generated")
    ctx.states += len(inputs)
    bases = base_values(ctx)
    rng = random.Random(ctx.seed + 2)
    if not thorough:
        keep = [x for x in inputs if x["conformant"] or x["op"] in ("pdulen", "pdutype", "itemlen", "itemtype", "extend") or not x["base"].startswith("rq")]
        rest = [x for x in inputs if x not in keep]
        inputs = keep + rng.sample(rest, 900)
    nthreads = 8
    outs = [[] for _ in range(nthreads)]
    errs = []

    def worker(k):
        lab = Lab()
        try:
            for inp in inputs[k::nthreads]:
                outs[k].append(run_case(lab, inp, bases))
        except MachineryError as e:
            errs.append(str(e))
        finally:
            lab.close()

    ts = [threading.Thread(target=worker, args=(k,)) for k in range(nthreads)]
    [t.start() for t in ts]
    [t.join() for t in ts]
    if errs:
        raise MachineryError(errs[0])
    obs = [o for o_ in outs for o in o_]
    obs += requestor_ac_cases()
    for k, o in enumerate(obs):
        o["id"] = k + 1
    keep = ("id", "conformant", "allowed", "first", "escaped", "hung", "decoded", "stable", "accepted_equal")
    verdicts = validate_traces(ctx, "Trace_Bytes", [{k: o[k] for k in keep} for o in obs], timeout=1800)
    for o in obs:
        v = verdicts[o["id"]][0]
        ctx.traces += 1
        ctx.case((o["base"], o["op"], o["n"], o["first"], o["rsv"], o["pv"]), nontrivial=o["op"] != "variant" or o["rsv"] != 0 or o["pv"] != 1)
        if v != "ok":
            cause = "*"
            if o["exc"]:
                import re as _re
                m = _re.search(r"Invalid event '(Evt\d+)' for the current state '(Sta\d+)'", o["exc"][0])
                cause = f"{m.group(1)}@{m.group(2)}" if m else o["exc"][0].split(":")[0]
            ctx.violation({"clause": v, "base": o["base"] if cause == "*" else "*", "op": o["op"] if cause == "*" else "*", "pv": o["pv"] if o["conformant"] else "*",
                           "rsv": o["rsv"] if o["conformant"] else "*", "cause": cause},
                          f"{v}: input {o['op']} of {o['base']} ({o['n']} bytes, reserved={o['rsv']}, protocol version={o['pv']}): first FSM events={o['events']} allowed={o['allowed']} "
                          f"escaped={o['exc']} hung={o['hung']} decoded={o['decoded']} stable={o['stable']} accepted_equal={o['accepted_equal']} answer type={o['answer']}", o)
    # ---- conformant P-DATA-TF lengths (PdataLimit.tla): bounded by the RECEIVER's own Maximum Length, in both roles ----
    import re as _re
    from tlc import _P
    rl = must_ok(run_tlc("PdataLimit", "PdataLimit.cfg", workdir=ctx.work, workers=1, timeout=600))
    ctx.add_tlc(rl)
    if rl.violated:
        ctx.violation({"clause": "model", "what": rl.violated}, f"PdataLimit.tla violates {rl.violated}", {})
    lcases = []
    for m in _re.finditer(r'<<\s*"CASE",', rl.out):
        p = _P(rl.out)
        p.i = m.start()
        lcases.append(p.value()[1])
    if len(lcases) < 40:
        raise MachineryError(f"only {len(lcases)} P-DATA length cases")
    from limit_pdu_lab import run_case as run_limit
    lobs, llock = [], threading.Lock()

    def lworker(k):
        for c in lcases[k::8]:
            try:
                o = run_limit(c)
            except Exception as e:  # noqa: BLE001
                o = dict(c, harness_exc=f"{type(e).__name__}: {e}")
            with llock:
                lobs.append(o)
    lts = [threading.Thread(target=lworker, args=(k,)) for k in range(8)]
    [t.start() for t in lts]
    [t.join() for t in lts]
    lbad = [o for o in lobs if "harness_exc" in o]
    if len(lbad) > 2:
        raise MachineryError(f"{len(lbad)} P-DATA length cases failed in the harness: {lbad[0]['harness_exc']}")
    lobs = [o for o in lobs if "harness_exc" not in o]
    lv = validate_traces(ctx, "Trace_PdataLimit", [{"id": j + 1, "own": o["own"], "maxlen": o["maxlen"], "accepted": o["accepted"]} for j, o in enumerate(lobs)], name="pdatalimit")
    for j, o in enumerate(lobs):
        v = lv[j + 1][0]
        ctx.traces += 1
        ctx.case(("pdata-length", o["role"], o["own"], o["peer"], o["len"]), nontrivial=o["len"] != 512)
        if v == "NOT_CONFORMANT_CASE":
            ctx.drifted(f"P-DATA length case {o} is not conformant as sent (largest PDU {o['maxlen']})")
        elif v != "ok":
            ctx.violation({"clause": v, "base": "pdata-length", "op": o["role"], "pv": "*", "rsv": "*", "cause": "*"},
                          f"{v}: {o['role']} announcing Maximum Length {o['own']} (peer announced {o['peer']}) received a message whose largest P-DATA-TF has a variable field of "
                          f"{o['maxlen']} bytes - conformant - and did not accept it: {o['note']}", o)
    ctx.sample(obs[0])
    ctx.sample(obs[-1])
    ctx.assume("inputs reach the provider over TCP loopback followed by end-of-stream; A-ASSOCIATE-RQ based inputs arrive in Sta2, the others in Sta6",
               "conformant variants: reserved bytes set to 0xFF / 0x01 and protocol versions 3, 0xFFFF, 0x8001 (bit 0 set) must be accepted and decode to the original value")
    return ctx.finish(rule="inputs of Mutate.tla: truncation/extension/substitution/flip at every offset, PDU and item length fields, unknown types (sampled in quick) and all conformant variants, "
                      "on a real acceptor; non-trivial = everything but the identity variant")
