"""C26 — a failing notification handler never changes the protocol exchange.

MC  : spec/Notify.tla (MC_Notify: one association's script of protocol steps with the notification events around each
      step and the intervention handler of request / negotiation steps): with trigger() catching and a report line that
      cannot fail, C26_SameExchange / C26_Contained hold for every subset of raising invocations; a trigger() that does
      not catch, or a report line that fails for some handler flavours, is refuted.
S2C : deterministic user scripts (Scenario.tla without second-thread actions) are run on two real AEs with handlers
      bound to all 17 notification events on both sides - once quiet (reference, twice to establish determinism), then
      raising at all invocations / at every invocation of one event / at seeded random subsets, for each handler
      flavour (function, callable object, partial, exception without arguments, exception whose str() fails).
      Intervention handlers: the raise-scripts of Scp.tla for every DIMSE service, and raising negotiation handlers.
C2S : Trace_Exchange compares PDUs, DIMSE messages, outcomes and user-visible results of each run with its reference;
      Trace_Scp judges the responses to raising DIMSE intervention handlers.
"""
from __future__ import annotations

import random
import threading
import warnings

from common import Ctx, MachineryError
from tlc import must_ok, run_tlc
from trace import validate_traces

FLAVOURS = ["plain", "noname", "partial", "noargs", "strfail"]


def exchange(o, rec):
    by = rec.by_assoc()

    def side(uid):
        evs = by.get(uid, [])
        wire = [("out" if e["ev"] == "EVT_DATA_SENT" else "in") + str(e.get("type")) for e in evs if e["ev"] in ("EVT_DATA_SENT", "EVT_DATA_RECV")]
        dimse = [("out:" if e["ev"] == "EVT_DIMSE_SENT" else "in:") + f"{e.get('msg')}:{e.get('status')}" for e in evs if e["ev"] in ("EVT_DIMSE_SENT", "EVT_DIMSE_RECV")]
        return wire, dimse
    wr, dr = side(o["rid"])
    wa, da = side(o["aid"])
    flags = lambda v: [k for k in ("released", "aborted", "rejected", "established") if v[k]]  # noqa: E731
    return {"wire_r": wr, "wire_a": wa, "dimse_r": dr, "dimse_a": da, "out_r": flags(o["r"]), "out_a": flags(o["a"]), "results": [str(x) for x in o["results"]]}


def run_one(sc, raises):
    from pair_lab import run_scenario
    from recorder import Recorder

    rec = Recorder(seed=0, max_delay=0.0)
    box = {}

    def go():
        try:
            box["o"] = run_scenario(dict(sc, raises=raises), timeout=0.8)
        except Exception as e:  # noqa: BLE001
            box["exc"] = f"{type(e).__name__}: {e}"

    # one recorder per run would need exclusive use of events.trigger: runs are serialised by the caller's lock
    with rec:
        t = threading.Thread(target=go, name="C26Run", daemon=True)
        t.start()
        t.join(20)
    crashed = sorted({m for _, m in rec.crashes})
    if "o" not in box:
        # the scenario's public calls did not return (timeouts are 0.8 s) or the lab failed: an exchange of its own kind
        hung = {"wire_r": ["hung"], "wire_a": ["hung"], "dimse_r": [], "dimse_a": [], "out_r": ["call-never-returned" if t.is_alive() else box.get("exc", "?")], "out_a": [], "results": []}
        return hung, crashed or ["public call did not return within 20 s"], 1
    o = box["o"]
    return exchange(o, rec), crashed, o.get("raiser_calls", 0)


def negotiation_interventions(ctx):
    """Raising handlers on EVT_ASYNC_OPS / EVT_SOP_COMMON / EVT_SOP_EXTENDED (default items) and EVT_USER_ID (rejection)."""
    from pynetdicom import AE, evt
    from pynetdicom.pdu_primitives import (AsynchronousOperationsWindowNegotiation, SOPClassCommonExtendedNegotiation, SOPClassExtendedNegotiation,
                                           UserIdentityNegotiation)
    V = "1.2.840.10008.1.1"

    out = []
    # what the handler raises: ordinary failures of user code (a comparison of None with bytes is a TypeError, a missing key a
    # KeyError ...) - whatever its class, an exception is not a verdict
    kinds = (RuntimeError, TypeError, ValueError, KeyError, AttributeError, OSError)
    for exc_class, (name, events, expect) in [(k, c) for k in kinds for c in (("ext_neg", [evt.EVT_ASYNC_OPS, evt.EVT_SOP_COMMON, evt.EVT_SOP_EXTENDED], "established"),
                                                                                     ("user_id", [evt.EVT_USER_ID], "rejected"))]:
        def boom(event, exc_class=exc_class):
            raise exc_class("intervention handler failure")
        ae = AE("ACCEPTOR")
        ae.add_supported_context(V)
        ae.acse_timeout = ae.network_timeout = 2
        srv = ae.start_server(("127.0.0.1", 0), block=False, evt_handlers=[(e, boom) for e in events])
        try:
            a = AsynchronousOperationsWindowNegotiation()
            a.maximum_number_operations_invoked, a.maximum_number_operations_performed = 3, 3
            c = SOPClassCommonExtendedNegotiation()
            c.sop_class_uid, c.service_class_uid = V, "1.2.840.10008.4.2"
            x = SOPClassExtendedNegotiation()
            x.sop_class_uid, x.service_class_application_information = V, b"\x01\x02"
            u = UserIdentityNegotiation()
            u.user_identity_type, u.primary_field, u.positive_response_requested = 1, b"user", True
            rq = AE("REQUESTOR")
            rq.add_requested_context(V)
            rq.acse_timeout = 2
            assoc = rq.associate("127.0.0.1", srv.socket.getsockname()[1], ext_neg=[a, c, x] if name == "ext_neg" else [u])
            got = "established" if assoc.is_established else "rejected" if assoc.is_rejected else "aborted" if assoc.is_aborted else "other"
            items = sorted(type(i).__name__ for i in (assoc.acceptor.user_information or []))
            echo = None
            if assoc.is_established:
                echo = int(assoc.send_c_echo().Status)
                assoc.release()
            out.append({"case": name, "expect": expect, "got": got, "items": items, "echo": echo, "raises": exc_class.__name__})
        finally:
            srv.shutdown()
    return out


def run(ctx: Ctx) -> int:
    warnings.simplefilter("ignore")
    thorough = ctx.tier == "thorough"
    for cfg, want in (("MC_Notify_ok.cfg", None), ("MC_Notify_nocatch.cfg", "C26_Contained"), ("MC_Notify_nolog.cfg", "C26_Contained"),
                      ("MC_Notify_prot.cfg", None), ("MC_Notify_unprot.cfg", "C26_Contained")):
        r = must_ok(run_tlc("MC_Notify", cfg, workdir=ctx.work, workers=4, timeout=900))
        ctx.add_tlc(r)
        if want is None and r.violated:
            ctx.violation({"clause": "model", "what": r.violated}, f"Notify.tla violates {r.violated}", {"trace": [l for l, _ in r.trace]})
        if want is not None and r.violated != want:
            raise MachineryError(f"{cfg}: the broken design is not refuted ({r.violated!r})")
    from pair_common import scenarios
    from pair_lab import NOTIFICATIONS

    # scripts whose exchange is fixed by the script alone: one user thread, requestor-driven request/response, no handler that
    # ends the association under the requestor's feet (those race the requestor's next call whether or not anything raises)
    scs = [s for s in scenarios(ctx) if not s["side"] and s["end"] in ("release", "abort", "abort+release") and s["acc"] == "normal" and s["reject"] != "limit"
           and len(s["ops"]) <= 2]
    rng = random.Random(ctx.seed + 26)
    base = [s for s in scs if len(s["ops"]) <= 1 or s["ops"] in (["echo", "find"], ["store", "get"], ["echo", "echo"])]
    pick = base if thorough else rng.sample(base, min(len(base), 26)) + [s for s in base if s["reject"]][:1]
    names = [e.name for e in NOTIFICATIONS]
    jobs = []
    for k, sc in enumerate(pick):
        fl = FLAVOURS if thorough else [FLAVOURS[k % len(FLAVOURS)], "noname"]
        for f in dict.fromkeys(fl):
            jobs.append((sc, {"events": "all", "flavour": f}))
        # two handlers bound to every event, both raising: the first one's exception ends the event's handler loop
        jobs.append((sc, {"events": "all", "flavour": FLAVOURS[(k + 1) % len(FLAVOURS)], "handlers": 2}))
        evs = names if thorough else rng.sample(names, 4)
        for e in evs:
            jobs.append((sc, {"events": [e], "flavour": rng.choice(FLAVOURS)}))
        for _ in range(3 if thorough else 1):
            jobs.append((sc, {"events": sorted(rng.sample(range(1, 60), 12)), "flavour": rng.choice(FLAVOURS)}))
    lock = threading.Lock()          # events.trigger is patched process-wide by the recorder: one run at a time
    refs, obs, differing = {}, [], 0
    for sc, raises in jobs:
        if differing >= 10:
            ctx.cov["stopped_early"] = f"after {len(obs)} of {len(jobs)} comparisons: 10 reproducible differences already found"
            break
        key = repr(sorted(sc.items(), key=str))
        with lock:
            if key not in refs:
                a, ca, _ = run_one(sc, {"events": "none"})
                b, cb, _ = run_one(sc, {"events": "none"})
                refs[key] = (a, a == b and not ca and not cb)
            ref, stable = refs[key]
            got, crashed, calls = run_one(sc, raises)
            if stable and not crashed and got != ref:
                # a difference must be reproducible: the raising run differs from the reference again, and the reference agrees with itself again
                again, crashed2, _ = run_one(sc, raises)
                ref2, cr, _ = run_one(sc, {"events": "none"})
                if ref2 != ref or cr:
                    stable = False
                elif again == ref and not crashed2:
                    got = again
        differing += int(stable and (got != ref or bool(crashed)))
        obs.append({"id": len(obs) + 1, "stable": stable, "ref": ref, "run": got, "crashed": bool(crashed), "calls": calls, "sc": sc, "raises": raises, "crash_msgs": crashed})
    vs = validate_traces(ctx, "Trace_Exchange", [{k: o[k] for k in ("id", "stable", "ref", "run", "crashed", "calls")} for o in obs], name="exchange")
    unstable = 0
    for o in obs:
        v = vs[o["id"]][0]
        ctx.traces += 1
        sc, raises = o["sc"], o["raises"]
        ctx.case((tuple(sc["ops"]), sc["end"], sc["acc"], str(sc["reject"]), str(raises["events"])[:40], raises["flavour"], raises.get("handlers", 1)), nontrivial=True)
        if v in ("UNSTABLE", "VACUOUS"):
            unstable += 1
            continue
        if v != "ok":
            ev = raises["events"] if isinstance(raises["events"], str) else (raises["events"][0] if isinstance(raises["events"][0], str) else "subset")
            diff = {k: (o["ref"][k], o["run"][k]) for k in o["ref"] if o["ref"][k] != o["run"][k]}
            ctx.violation({"clause": v, "flavour": raises["flavour"], "event": ev},
                          f"{v}: scenario {sc} with notification handlers raising at {raises['events']} ({raises['flavour']}, {raises.get('handlers', 1)} handler(s) per event): differs from the quiet run in {diff}; threads died: {o['crash_msgs']}",
                          {"sc": sc, "raises": raises})
    ctx.cov["reference_unstable_or_vacuous"] = unstable
    if unstable > len(obs) // 3:
        raise MachineryError(f"{unstable} of {len(obs)} comparisons have an unstable reference or no raising invocation")
    # intervention handlers: DIMSE (raise-scripts of Scp.tla on the real service classes) and negotiation
    from scp_common import GEN, RET, model_cases, norm_script
    from scp_exec import execute
    import scp_exec
    sobs = []
    kinds = [("RuntimeError", lambda: RuntimeError("scripted handler exception")), ("FileNotFoundError", lambda: FileNotFoundError(2, "No such file or directory")),
             ("TimeoutError", lambda: TimeoutError()), ("KeyError", lambda: KeyError("missing")), ("Exception()", lambda: Exception())]
    try:
        for svc in GEN + RET:
            raising = [norm_script(c["script"]) for c in model_cases(ctx, svc, 2 if svc in GEN else 1) if any(s["k"] == "raise" for s in c["script"])]
            for sc in raising:
                for kname, mk in (kinds if thorough or len(sc) == 1 else kinds[:2]):
                    scp_exec.RAISE_WHAT = mk
                    o = execute(svc, sc)
                    o["id"] = len(sobs) + 1
                    o["raises"] = kname
                    sobs.append(o)
    finally:
        scp_exec.RAISE_WHAT = scp_exec._default_exc
    sv = validate_traces(ctx, "Trace_Scp", sobs, name="scp", timeout=1800)
    for o in sobs:
        ctx.traces += 1
        ctx.case(("intervention", o["svc"], o["raises"], tuple(s["k"] for s in o["script"])), nontrivial=True)
        c20, c21 = sv[o["id"]][0], sv[o["id"]][1]
        if o["fin"] == "escaped" or c20 != "ok" or c21 != "ok":
            ctx.violation({"clause": "C26_InterventionContained", "svc": o["svc"], "raises": o["raises"], "why": "escaped" if o["fin"] == "escaped" else (c20 if c20 != "ok" else c21)},
                          f"C26_InterventionContained: {o['svc']} handler raising {o['raises']} (script {[s['k'] for s in o['script']]}): responses {[(hex(r['st'])) for r in o['rsp']]}, end={o['fin']}, exception={o['exc']}", {"svc": o["svc"], "script": o["script"]})
    # a generator handler that raises while the peer's A-RELEASE-RQ is pending (Release.tla arrival points inside the result loop)
    from release_lab import run_case
    robs = []
    for svc in ("find", "get"):
        # (a C-GET SCP stops asking its handler after the announced number of sub-operations: code after the last yield never runs)
        for k in ((1, 2, 3) if svc == "find" else (1, 2)):
            o = run_case({"svc": svc, "n": 2, "pos": "check", "k": k, "tmo": True, "raises": True})
            o["id"] = len(robs) + 1
            robs.append(o)
    keys = ("id", "svc", "n", "pos", "k", "reached", "sent", "queued", "rp", "peer_saw", "acc_released", "acc_aborted", "acc_alive", "raises", "final_status")
    rv = validate_traces(ctx, "Trace_Release", [{k: o.get(k, False) for k in keys} for o in robs], name="raise_release")
    for o in robs:
        v = rv[o["id"]][1]
        ctx.traces += 1
        ctx.case(("intervention", "release-pending", o["svc"], o["k"]), nontrivial=True)
        if v == "UNREACHED":
            ctx.drifted(f"UNREACHED: raising {o['svc']} handler at check[{o['k']}]: {o.get('peer_log')}")
        elif v != "ok":
            ctx.violation({"clause": v, "svc": o["svc"].upper(), "raises": "RuntimeError", "why": "release-pending"},
                          f"{v}: {o['svc']} handler raising at result {o['k']} while the peer's A-RELEASE-RQ is pending: final status seen by the peer "
                          f"{o['final_status']:#06x} (documented: 0xC311 / 0xC411); peer log {o.get('peer_log')}", {"svc": o["svc"], "k": o["k"]})
    for n in negotiation_interventions(ctx):
        ctx.traces += 1
        ctx.case(("intervention", n["case"], n["raises"]), nontrivial=True)
        bad = n["got"] != n["expect"] or (n["case"] == "ext_neg" and (n["echo"] != 0 or any("SOPClass" in i for i in n["items"])))
        if bad:
            ctx.violation({"clause": "C26_InterventionContained", "svc": n["case"], "why": n["got"], "raises": n["raises"]}, f"C26_InterventionContained: negotiation handlers raising {n['raises']} ({n['case']}): expected {n['expect']}, got {n}", n)
    ctx.sample({"scenario": obs[0]["sc"], "raises": obs[0]["raises"], "reference": obs[0]["ref"]})
    ctx.assume("scenarios without second-thread actions and without injected delays, so that a quiet run is its own reference (checked by running it twice)",
               "handlers are bound on all 17 notification events of both sides; DIMSE intervention reactions are judged by Trace_Scp (C20/C21 predicates)")
    return ctx.finish(rule="deterministic user scripts x {all invocations, every invocation of one event, random subsets} x handler flavour; plus every DIMSE service and the negotiation interventions with a raising handler")
