"""C18 — outgoing messages use an accepted context compatible with their content.

MC  : spec/CtxSelect.tla (the five C18 predicates, a reference chooser) with spec/MC_Ctx.tla: every set of at most two
      accepted contexts over 4 abstract syntaxes x 5 transfer syntaxes x 3 role pairs and every send operation (C-STORE of a
      data set that arrived in each transfer syntax, C-FIND, C-ECHO, N-EVENT-REPORT as SCP, N-CREATE on UPS Push, N-GET);
      TLC checks that the reference chooser satisfies C18 on all 73220 cases and writes them out.
S2C : the cases (sampled in quick) are run on a real Association with those contexts installed, through the public send_*
      API, transport cut at dul.send_pdu; the captured P-DATA tells the context id and the data set's real encoding.
C2S : Trace_Ctx evaluates the C18 predicates on each observed result.
"""
from __future__ import annotations

import json
import os
import random
import warnings

from common import Ctx, MachineryError
from tlc import must_ok, run_tlc
from trace import validate_traces


def run(ctx: Ctx) -> int:
    warnings.simplefilter("ignore")
    thorough = ctx.tier == "thorough"
    r = must_ok(run_tlc("MC_Ctx", "MC_Ctx.cfg", workdir=ctx.work, workers=8, timeout=1800))
    ctx.add_tlc(r)
    if r.violated:
        ctx.violation({"clause": "model", "what": r.violated}, f"CtxSelect.tla: the reference chooser violates {r.violated}", {"trace": [l for l, _ in r.trace]})
        return ctx.finish(rule="model violated its own lemma")
    out = os.path.join(ctx.work, "cases.ndjson")
    cfg = os.path.join(ctx.work, "MC_Ctx_dump.cfg")
    open(cfg, "w").write("SPECIFICATION DumpSpec\nCONSTANT MaxCx = 2\nINVARIANT Dumped\nCHECK_DEADLOCK FALSE\n")
    must_ok(run_tlc("MC_Ctx", cfg, workdir=ctx.work, workers=1, env={"OUT": out}, timeout=1800))
    cases = [json.loads(l) for l in open(out) if l.strip()]
    if len(cases) < 60000:
        raise MachineryError(f"only {len(cases)} cases dumped")
    ctx.states += len(cases)
    rng = random.Random(ctx.seed + 18)
    if not thorough:
        live = [c for c in cases if not c["refuses"]]
        dead = [c for c in cases if c["refuses"]]
        cases = rng.sample(live, 4000) + rng.sample(dead, 1500)
    from ctx_lab import run_case
    obs = []
    for j, c in enumerate(cases):
        res = run_case(c)
        obs.append({"id": j + 1, "accepted": c["accepted"], "op": c["op"], "refuses": c["refuses"], "refids": c["refids"],
                    "res": {"sent": res["sent"], "id": res["id"], "enc": res["enc"]}, "exc": res.get("exc", "")})
    vs = validate_traces(ctx, "Trace_Ctx", [{k: o[k] for k in ("id", "accepted", "op", "refuses", "refids", "res")} for o in obs], name="ctx", timeout=3000)
    drift = {}
    for o in obs:
        v = vs[o["id"]][0]
        ctx.traces += 1
        ctx.case((json.dumps(o["accepted"], sort_keys=True), json.dumps(o["op"], sort_keys=True)), nontrivial=not o["refuses"])
        if v == "ok":
            continue
        if v.startswith("DRIFT"):
            drift[v] = drift.get(v, 0) + 1
            if drift[v] <= 3:
                ctx.drifted(f"{v}: accepted={o['accepted']} op={o['op']} observed={o['res']} {o['exc']} reference prefers {o['refids']}")
            continue
        ctx.violation({"clause": v, "kind": o["op"]["kind"], "ds": o["op"]["ds"]},
                      f"{v}: accepted contexts {o['accepted']}, operation {o['op']}: sent on context {o['res']['id']} with the data set encoded as {o['res']['enc']} ({o['exc']})",
                      {"accepted": o["accepted"], "op": o["op"]})
    ctx.cov["drift_counts"] = drift
    ctx.cov["sent"] = sum(1 for o in obs if o["res"]["sent"])
    ctx.sample(obs[0])
    ctx.assume("contexts installed on a real Association (requestor mode), transport cut at dul.send_pdu; the peer is pynetdicom's own DIMSE decoder",
               "data sets without pixel data; a JPEG context carries an explicit VR little endian data set")
    return ctx.finish(rule="every set of <= 2 accepted contexts (4 abstract syntaxes x 5 transfer syntaxes x 3 role pairs) x 20 send operations (incl. a file sent by path in chunked mode, alone and after an earlier C-STORE on the same association); sampled in quick (4000 with a usable context, 1500 without)")
