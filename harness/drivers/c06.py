"""C06 — both peers agree on how an association ended, and it always ends (see pair_common.py)."""
import random
import warnings

from common import MachineryError
from pair_common import judge, pair_model, run_scenarios, scenarios


TERMINAL = {"RELEASED", "ABORTED", "REJECTED"}


def model_loop(ctx, thorough):
    """Model-check the pair instance; every counterexample is replayed on the real node it concerns (S2C by
    projection: the other node's frames are delivered as the behaviour dictates).  A crash signature the real
    threads reproduce is a violation (or a known finding) and is added to KnownCrash so that the search goes on;
    a C06 counterexample the real code reproduces is a violation; one it does not reproduce is DRIFT."""
    import json
    import os
    import subprocess
    import types

    def replay(trace, node, role):
        """S2C replay in a child process with a watchdog (a behaviour on which the real threads spin is reported, not waited for)."""
        path = os.path.join(ctx.work, f"beh_{node}.json")
        json.dump([[l, st] for l, st in trace], open(path, "w"), default=list)
        try:
            p = subprocess.run(["/venv/bin/python", os.path.join(os.path.dirname(os.path.dirname(os.path.abspath(__file__))), "replay_cli.py"), path, node, role],
                               capture_output=True, text=True, timeout=90, env=dict(os.environ, PYNETDICOM_VERIF="1"))
            line = next((x for x in p.stdout.splitlines() if x.startswith("REPORT ")), None)
        except subprocess.TimeoutExpired:
            line = None
        if line is None:
            return types.SimpleNamespace(crash=None, crash_predicted=False, diverged=True, final={"fired": []}, timed_out=True)
        d = json.loads(line[7:])
        return types.SimpleNamespace(crash=tuple(d["crash"]) if d["crash"] else None, crash_predicted=d["crash_predicted"], diverged=d["diverged"],
                                     final=dict(d["final"], fired=d["fired"]), timed_out=False)

    extra = []
    for _ in range(8):
        r = pair_model(ctx, thorough, extra)
        if not r.violated:
            # the same model with abort() and the reactor's release branch split where the code takes no lock: TLC must find
            # the two terminal notifications of the open finding "unsynchronised outcome flags"
            rn = pair_model(ctx, thorough, extra, atomic=False)
            if rn.violated not in ("C06_OneTerminal", "C06_OneFlag"):
                raise MachineryError(f"the non-atomic variant of the pair model does not exhibit the outcome race ({rn.violated!r})")
            ctx.cov["non_atomic_variant_refuted_by"] = rn.violated + ": " + " -> ".join(l for l, _ in rn.trace[-7:])
            two_threads(ctx, thorough, extra)
            if thorough:
                # the repair proposed in /verif/proposed (the provider discards undefined local events): with it the pair satisfies
                # every invariant without tolerating any crash signature - with one and with two user threads on the requestor
                for sec in ((), ("release",)):
                    rp = pair_model(ctx, thorough, (), second=sec, discard=True)
                    if rp.violated:
                        ctx.drifted(f"the proposed repair does not make the pair model ({'two' if sec else 'one'} user thread(s)) satisfy {rp.violated}")
                ctx.cov["proposed_repair_checked_in_model"] = True
            return
        last = r.trace[-1][1]["nd"]
        labels = [l for l, _ in r.trace]
        if r.violated == "C05_DefinedEventsOnly":
            node = next(n for n in ("R", "A") if last[n]["crash"])
            sig = tuple(last[node]["crash"])
            rep = replay(r.trace, node=node, role=sig[0])
            ctx.traces += 1
            if rep.crash is not None and tuple(rep.crash) == sig:
                ctx.violation({"role": sig[0], "event": sig[1], "state": sig[2], "predicted": True},
                              f"pair model: provider of the {sig[0]} processes Evt{sig[1]} in Sta{sig[2]} (undefined); reproduced on the real threads; behaviour: {' -> '.join(labels)}", {"behaviour": labels})
            else:
                ctx.drifted(f"pair model predicts crash {sig} but the real {sig[0]} node did not reproduce it (real crash {rep.crash}); behaviour {labels[-8:]}")
            extra.append(sig)
            continue
        # a C06 invariant
        if r.violated == "C06_OneTerminal":
            node = next(n for n in ("R", "A") if sum(1 for f in last[n]["fired"] if f in TERMINAL) > 1)
        else:
            node = "R"
        role = "requestor" if node == "R" else "acceptor"
        rep = replay(r.trace, node=node, role=role)
        ctx.traces += 1
        real_fired = [f for f in (rep.final or {}).get("fired", []) if f in TERMINAL]
        model_fired = [f for f in last[node]["fired"] if f in TERMINAL]
        if r.violated == "C06_OneTerminal" and len(real_fired) > 1:
            ctx.violation({"clause": "C06_TerminalOnce", "role": role, "where": "pair-model+replay", "events": ",".join(real_fired)},
                          f"pair model: the {role} fires {model_fired}; the real {role} threads driven along the same behaviour fired {real_fired}; behaviour: {' -> '.join(labels)}",
                          {"behaviour": labels})
        elif r.violated != "C06_OneTerminal" and not rep.diverged:
            ctx.violation({"clause": r.violated, "role": role, "where": "pair-model+replay"},
                          f"pair model violates {r.violated} and the real {role} node follows the behaviour without divergence: final={rep.final}; behaviour: {' -> '.join(labels)}", {"behaviour": labels})
        else:
            ctx.drifted(f"pair model violates {r.violated} (model fired {model_fired}) but the real {role} node fired {real_fired} / diverged={bool(rep.diverged)}; behaviour tail {labels[-10:]}")
        return


def two_threads(ctx, thorough, extra):
    """The pair model with a second user thread on the requestor (release / abort while the first thread releases, aborts
    or echoes).  The stepped replay drives one user thread, so these counterexamples are not replayed: a crash signature
    TLC finds here must be one the scenario runs list as a known finding by its event (C06-provider-dies-on-EvtN), and is
    then added to KnownCrash so that the search goes on to the one-outcome / agreement / leak invariants."""
    import json
    import os
    from common import VERIF
    known_events = {k["signature"]["cause_event"] for k in json.load(open(os.path.join(VERIF, "known_findings.json")))["findings"]
                    if k["property"] == "C06" and k["status"] == "open" and "cause_event" in k["signature"]}
    found = []
    extra2 = list(extra)
    for _ in range(10):
        r = pair_model(ctx, thorough, extra2, second=("release", "abort") if thorough else ("release",))
        if not r.violated:
            break
        last = r.trace[-1][1]["nd"]
        labels = [l for l, _ in r.trace]
        if r.violated == "C05_DefinedEventsOnly":
            node = next(n for n in ("R", "A") if last[n]["crash"])
            sig = tuple(last[node]["crash"])
            if f"Evt{sig[1]}" in known_events:
                found.append(f"{sig[0]} Evt{sig[1]}@Sta{sig[2]}")
            else:
                ctx.violation({"role": sig[0], "event": sig[1], "state": sig[2], "predicted": True, "where": "pair model with two user threads"},
                              f"pair model with a second user thread on the requestor: provider of the {sig[0]} processes Evt{sig[1]} in Sta{sig[2]} (undefined); behaviour: {' -> '.join(labels)}",
                              {"behaviour": labels})
            extra2.append(sig)
            continue
        ctx.violation({"clause": r.violated, "where": "pair model with two user threads"},
                      f"pair model with a second user thread on the requestor violates {r.violated}; behaviour: {' -> '.join(labels)}", {"behaviour": labels})
        break
    ctx.cov["two_user_threads_crash_signatures_predicted"] = found


def run(ctx):
    warnings.simplefilter("ignore")
    thorough = ctx.tier == "thorough"
    model_loop(ctx, thorough)
    scs = scenarios(ctx)
    rng = random.Random(ctx.seed + 6)
    pick = rng.sample(scs, 1800 if thorough else 260)
    pick += [s for s in scs if s["side"] and s["side"][0] in ("acc_release", "req_release") and s["end"] == "release" and not s["ops"]][:12]   # release collisions
    pick += [s for s in scs if "+" in s["end"] and len(s["ops"]) <= 1 and (not s["ops"] or s["ops"][0] == "echo")]                       # two terminal calls in sequence
    pick += [s for s in scs if s["reject"]]                                                                                               # rejections: AE title (source 1), local limit (source 3)
    pick += [s for s in scs if s["acc"] == "abort_back"]                                                                                    # both applications abort at the same moment
    pick += [s for s in scs if s["acc"] == "notify_abort" and len(s["ops"]) <= 1 and not s["side"]]                                         # abort() from a notification handler during release
    obs, rec = run_scenarios(ctx, pick, ctx.seed)
    judge(ctx, obs, rec, "C06")
    ctx.sample(obs[0])
    ctx.sample(obs[-1])
    ctx.assume("timeouts 0.8 s on both sides; termination judged 4 x timeout + 2 s after the last user action",
               "random delays (0-3 ms, probability 0.25) at every notification point of every thread perturb the interleaving")
    return ctx.finish(rule="user scripts of Scenario.tla (requestor operations x ending x acceptor handler behaviour x second-thread action and moment x rejection), sampled; "
                      "non-trivial = anything but a plain release without concurrent action")
