"""C25 — datasets arrive exactly as sent, for every transfer syntax and storage mode.

MC  : spec/StorePipeline.tla — configuration vectors (operation x transfer syntax x maximum PDU x
      chunked send x chunked receive x dataset shape); each stage of the pipeline is the identity on
      the encoded bytes.
S2C : each configuration TLC enumerates (sampled in quick) is executed between two real AEs on
      loopback; the receiving handler records every view the API offers (decoded dataset, raw encoded
      bytes, the file written in chunked-receive mode; identifiers and DIMSE-N datasets in both
      directions).
C2S : Trace_Store reports the first view that differs from the original.  "Equal" is judged against
      pydicom's own encode/decode of the original, so pydicom's codec is not under test.
"""
from __future__ import annotations

import os
import random
import re
import tempfile
import threading
import warnings
import zlib
from io import BytesIO

from common import Ctx, MachineryError, VERIF
from tlc import _P, must_ok, run_tlc
from trace import validate_traces
import pn  # noqa: F401

TS = {"implicit": "1.2.840.10008.1.2", "explicit": "1.2.840.10008.1.2.1", "bigendian": "1.2.840.10008.1.2.2", "deflated": "1.2.840.10008.1.2.1.99"}
CT = "1.2.840.10008.5.1.4.1.1.2"
PR_FIND, PR_GET, PR_MOVE = "1.2.840.10008.5.1.4.1.2.1.1", "1.2.840.10008.5.1.4.1.2.1.3", "1.2.840.10008.5.1.4.1.2.1.2"
MPPS, COMMIT, MPPS_EVT, MPPS_GET = "1.2.840.10008.3.1.2.3.3", "1.2.840.10008.1.20.1", "1.2.840.10008.3.1.2.3.5", "1.2.840.10008.3.1.2.3.4"


def build_dataset(shape: str, k: int):
    from pydicom.dataset import Dataset, FileMetaDataset
    from pydicom.sequence import Sequence

    ds = Dataset()
    ds.SOPClassUID = CT
    ds.SOPInstanceUID = f"1.2.3.{k}"
    ds.PatientID = f"P{k}"
    ds.PatientName = "Test^Name"
    ds.QueryRetrieveLevel = "PATIENT"
    if shape == "deflatetail":
        # search (with zlib alone) for a value that makes the deflated encoding even-length, ending in 00, with that byte needed
        import zlib
        from pydicom.filewriter import write_dataset
        from pydicom.filebase import DicomBytesIO
        import random
        rng = random.Random(k)
        for n in range(20000):
            ds.StudyDescription = f"s{n}"
            ds.ICCProfile = bytes(rng.randrange(256) for _ in range(12))
            fp = DicomBytesIO()
            fp.is_implicit_VR, fp.is_little_endian = False, True
            write_dataset(fp, ds)
            enc = fp.getvalue()
            c = zlib.compressobj(wbits=-zlib.MAX_WBITS)
            raw = c.compress(enc) + c.flush()
            if len(raw) % 2 == 0 and raw[-1] == 0:
                d = zlib.decompressobj(wbits=-zlib.MAX_WBITS)
                if d.decompress(raw[:-1]) + d.flush() != enc:
                    break
    elif shape == "vrmix":
        ds.RetrieveAETitle = "AET"
        ds.PatientAge = "042Y"
        ds.Modality = "CT"
        ds.StudyDate = "20200131"
        ds.PatientWeight = "70.5"
        ds.AcquisitionDateTime = "20200131120000.123456"
        ds.RecommendedDisplayFrameRateInFloat = 1.5
        ds.EventTimeOffset = -2.25
        ds.SeriesNumber = "12"
        ds.StudyDescription = "study desc"
        ds.AdditionalPatientHistory = "long text\nwith newline"
        ds.AccessionNumber = "ACC1"
        ds.ReferencePixelX0 = -5
        ds.TagAngleSecondAxis = -3
        ds.DerivationDescription = "short text"
        ds.StudyTime = "120000.5"
        ds.NumberOfFrames = "1"
        ds.Rows = 4
        ds.Columns = 5
        ds.SimpleFrameList = [1, 2, 70000]
        ds.TextValue = "unlimited text"
        ds.FrameIncrementPointer = [0x00181063, 0x00181065]
        ds.LongCodeValue = "unlimited characters"
        ds.RetrieveURL = "http://example.com/a"
        ds.ICCProfile = b"\x01\x02\x03\x04"
    elif shape == "nested":
        inner = Dataset()
        inner.CodeValue = "C1"
        inner.CodeMeaning = "meaning"
        deep = Dataset()
        deep.PatientID = "deep"
        deep.ReferencedSOPInstanceUID = "1.2.3.4.5"
        inner.ReferencedImageSequence = Sequence([deep, Dataset()])
        ds.ProcedureCodeSequence = Sequence([inner, Dataset(inner)])
        ds.ReferencedStudySequence = Sequence([])
    elif shape == "private":
        block = ds.private_block(0x0011, "VERIF CREATOR", create=True)
        block.add_new(0x01, "LO", "private text")
        block.add_new(0x02, "US", 17)
        block.add_new(0x03, "OB", b"\x01\x02\x03")
    elif shape == "empty":
        ds.PatientBirthDate = ""
        ds.StudyID = ""
        ds.ReferringPhysicianName = ""
        ds.SeriesNumber = None
        ds.ImageComments = ""
        ds.OtherPatientIDsSequence = Sequence([])
    elif shape == "oddlen":
        ds.StudyDescription = "odd"
        ds.PatientComments = "seven c"
        ds.ICCProfile = b"\x01\x02\x03"
        ds.StudyInstanceUID = "1.2.3"
    elif shape in ("big20k", "big1m"):
        n = 20000 if shape == "big20k" else 1 << 20
        ds.Rows, ds.Columns, ds.BitsAllocated, ds.BitsStored, ds.HighBit = 100, n // 100, 8, 8, 7
        ds.SamplesPerPixel, ds.PixelRepresentation, ds.PhotometricInterpretation = 1, 0, "MONOCHROME2"
        ds.PixelData = bytes((7 * j + k) % 256 for j in range(n))
    elif shape == "longstr":
        ds.TextValue = "x" * 70001
        ds.StudyDescription = "d" * 64
    elif shape == "multi":
        ds.ImageType = ["ORIGINAL", "PRIMARY", "AXIAL"]
        ds.ImagePositionPatient = ["1.5", "-2.25", "3"]
        ds.OtherPatientNames = ["A^B", "C^D"]
    ds.file_meta = FileMetaDataset()
    return ds


def strip(ds):
    from pydicom.dataset import Dataset

    out = Dataset(ds)
    if hasattr(out, "file_meta"):
        try:
            del out.file_meta
        except Exception:  # noqa: BLE001
            pass
    for g in [e.tag for e in out if e.tag.group == 2]:
        del out[g]
    return out


def reference(ds, tsuid):
    """What pydicom itself gives back for this dataset in this transfer syntax: (encoded bytes, decoded dataset)."""
    from pydicom.uid import UID
    from pynetdicom.dsutils import decode, encode

    t = UID(tsuid)
    enc = encode(strip(ds), t.is_implicit_VR, t.is_little_endian, False)
    dec = decode(BytesIO(enc), t.is_implicit_VR, t.is_little_endian, False)
    return enc, dec


def inflate(b):
    return zlib.decompress(b, -zlib.MAX_WBITS)


def eq_ds(a, b):
    try:
        a, b = strip(a), strip(b)
        for d in (a, b):
            # the VR of Pixel Data is not on the wire in implicit VR; OB and OW carry the same bytes
            if (0x7FE0, 0x0010) in d and d[0x7FE00010].VR in ("OB", "OW", "OB or OW"):
                d[0x7FE00010].VR = "OW"
        return a == b
    except Exception:  # noqa: BLE001
        return False


class Pair:
    """A real SCP AE and a real requestor association for one (transfer syntax, maximum PDU) pair."""

    def __init__(self, tsuid, maxpdu):
        from pynetdicom import AE, build_role, evt

        self.ts, self.views, self.ret = tsuid, [], None
        self.scp = AE("SCP")
        self.scp.maximum_pdu_size = maxpdu
        self.scp.acse_timeout = self.scp.dimse_timeout = self.scp.network_timeout = 10
        # the storage class is negotiated in two contexts: first one in a transfer syntax of the other byte order (never usable
        # for this pair's data sets), then the pair's own - so the context in use is not the first one of its abstract syntax
        decoy = TS["implicit"] if tsuid == TS["bigendian"] else TS["bigendian"]
        for uid in (CT, PR_FIND, PR_GET, PR_MOVE, MPPS, COMMIT, MPPS_EVT, MPPS_GET):
            self.scp.add_supported_context(uid, [tsuid, decoy] if uid == CT else tsuid, scu_role=True, scp_role=True)
        hs = [(evt.EVT_C_STORE, self.on_store), (evt.EVT_C_FIND, self.on_find), (evt.EVT_C_GET, self.on_get), (evt.EVT_C_MOVE, self.on_move),
              (evt.EVT_N_SET, self.on_n), (evt.EVT_N_CREATE, self.on_n), (evt.EVT_N_ACTION, self.on_n), (evt.EVT_N_EVENT_REPORT, self.on_n), (evt.EVT_N_GET, self.on_nget)]
        self.server = self.scp.start_server(("127.0.0.1", 0), block=False, evt_handlers=hs)
        self.port = self.server.socket.getsockname()[1]
        self.scu = AE("SCU")
        self.scu.acse_timeout = self.scu.dimse_timeout = self.scu.network_timeout = 10
        self.scu.add_requested_context(CT, decoy)
        for uid in (CT, PR_FIND, PR_GET, PR_MOVE, MPPS, COMMIT, MPPS_EVT, MPPS_GET):
            self.scu.add_requested_context(uid, tsuid)
        self.assoc = self.scu.associate("127.0.0.1", self.port, max_pdu=maxpdu, ext_neg=[build_role(CT, scu_role=True, scp_role=True)],
                                        evt_handlers=[(evt.EVT_C_STORE, self.on_store)])
        if not self.assoc.is_established:
            raise MachineryError("C25 lab: association not established")

    # ---- receiving handlers: record every view the API offers ----
    def store_views(self, event):
        from pydicom import dcmread
        from pynetdicom import _config

        ref_enc, ref_dec = self.want
        v = []
        try:
            v.append({"name": "C25_DecodedDataset", "equal": eq_ds(event.dataset, ref_dec)})
        except Exception as e:  # noqa: BLE001
            v.append({"name": "C25_DecodedDataset", "equal": False, "exc": str(e)[:80]})
        try:
            raw = event.encoded_dataset(include_meta=False)
            if self.ts == TS["deflated"]:
                raw = inflate(raw)
            v.append({"name": "C25_RawEncoded", "equal": raw == ref_enc})
        except Exception as e:  # noqa: BLE001
            v.append({"name": "C25_RawEncoded", "equal": False, "exc": str(e)[:80]})
        if _config.STORE_RECV_CHUNKED_DATASET:
            try:
                f = dcmread(event.dataset_path, force=True)
                ok = eq_ds(f, ref_dec) and str(f.file_meta.TransferSyntaxUID) == self.ts and str(f.file_meta.MediaStorageSOPInstanceUID) == str(self.orig.SOPInstanceUID)
                v.append({"name": "C25_ChunkedFile", "equal": bool(ok)})
            except Exception as e:  # noqa: BLE001
                v.append({"name": "C25_ChunkedFile", "equal": False, "exc": str(e)[:80]})
        return v

    def on_store(self, event):
        self.views += self.store_views(event)
        return 0x0000

    def on_find(self, event):
        if self.op == "FIND_RQ":
            self.views.append({"name": "C25_Identifier", "equal": eq_ds(event.identifier, self.want[1])})
            yield 0x0000, None
        else:
            yield 0xFF00, strip(self.orig)

    def on_get(self, event):
        if self.op == "GET_RQ":
            self.views.append({"name": "C25_Identifier", "equal": eq_ds(event.identifier, self.want[1])})
            yield 0
        else:
            yield 1
            yield 0xFF00, self.orig

    def on_move(self, event):
        self.views.append({"name": "C25_Identifier", "equal": eq_ds(event.identifier, self.want[1])})
        yield None, None

    def on_n(self, event):
        attr = {"EVT_N_SET": "modification_list", "EVT_N_CREATE": "attribute_list", "EVT_N_ACTION": "action_information", "EVT_N_EVENT_REPORT": "event_information"}[event.event.name]
        self.views.append({"name": "C25_DimseNDataset", "equal": eq_ds(getattr(event, attr), self.want[1])})
        return 0x0000, None

    def on_nget(self, event):
        return 0x0000, strip(self.orig)

    def close(self):
        try:
            if self.assoc.is_established:
                self.assoc.release()
        finally:
            self.server.shutdown()

    # ---- one configuration ----
    def run(self, c, k, tmpdir):
        from pydicom import dcmwrite
        from pydicom.uid import UID
        from pynetdicom import _config

        self.op, self.views = c["op"], []
        self.orig = ds = build_dataset(c["shape"], k)
        self.want = reference(ds, self.ts)
        # the data set's own transfer syntax: the context's, or another uncompressed little endian one
        other = {TS["implicit"]: TS["explicit"], TS["explicit"]: TS["deflated"], TS["deflated"]: TS["explicit"]}
        t = UID(other[self.ts]) if c.get("dsts") == "other" else UID(self.ts)
        ds.file_meta.TransferSyntaxUID = t
        ds.file_meta.MediaStorageSOPClassUID = CT
        ds.file_meta.MediaStorageSOPInstanceUID = ds.SOPInstanceUID
        _config.STORE_SEND_CHUNKED_DATASET = bool(c["sendChunked"])
        _config.STORE_RECV_CHUNKED_DATASET = bool(c["recvChunked"])
        a = self.assoc
        exc = ""
        try:
            if c["op"] == "STORE":
                a.send_c_store(ds)
            elif c["op"] == "STORE_FILE":
                path = os.path.join(tmpdir, f"f{k}.dcm")
                dcmwrite(path, ds, enforce_file_format=True, implicit_vr=t.is_implicit_VR, little_endian=t.is_little_endian) if False else ds.save_as(path, enforce_file_format=True) if hasattr(ds, "save_as") else None
                a.send_c_store(path)
            elif c["op"] == "GETSUB":
                list(a.send_c_get(strip(ds), PR_GET))
            elif c["op"] == "FIND_RQ":
                list(a.send_c_find(strip(ds), PR_FIND))
            elif c["op"] == "FIND_RSP":
                for st, ident in a.send_c_find(strip(ds), PR_FIND):
                    if st and st.Status in (0xFF00, 0xFF01):
                        self.views.append({"name": "C25_ResponseIdentifier", "equal": ident is not None and eq_ds(ident, self.want[1])})
            elif c["op"] == "GET_RQ":
                list(a.send_c_get(strip(ds), PR_GET))
            elif c["op"] == "MOVE_RQ":
                list(a.send_c_move(strip(ds), "DEST", PR_MOVE))
            elif c["op"] == "NSET":
                a.send_n_set(strip(ds), MPPS, "1.2.3.4")
            elif c["op"] == "NCREATE":
                a.send_n_create(strip(ds), MPPS, "1.2.3.4")
            elif c["op"] == "NACTION":
                a.send_n_action(strip(ds), 1, COMMIT, "1.2.3.4")
            elif c["op"] == "NEVENT":
                a.send_n_event_report(strip(ds), 1, MPPS_EVT, "1.2.3.4")
            elif c["op"] == "NGET_RSP":
                st, got = a.send_n_get([(0x0010, 0x0010)], MPPS_GET, "1.2.3.4")
                self.views.append({"name": "C25_ResponseDataset", "equal": got is not None and eq_ds(got, self.want[1])})
        except Exception as e:  # noqa: BLE001
            exc = f"{type(e).__name__}: {e}"[:200]
        finally:
            _config.STORE_SEND_CHUNKED_DATASET = False
            _config.STORE_RECV_CHUNKED_DATASET = False
        return {"c": c, "views": list(self.views), "exc": exc, "established": bool(a.is_established)}


def run(ctx: Ctx) -> int:
    warnings.simplefilter("ignore")
    thorough = ctx.tier == "thorough"
    cfg = os.path.join(ctx.work, "SP.cfg")
    open(cfg, "w").write(f"SPECIFICATION Spec\nCONSTANT Quick = {'FALSE' if thorough else 'TRUE'}\nINVARIANT C25_Bytes\nINVARIANT Export\n")
    r = must_ok(run_tlc("StorePipeline", cfg, workdir=ctx.work, workers=1, timeout=3000))
    ctx.add_tlc(r)
    cases = []
    for m in re.finditer(r'<<\s*"CASE",', r.out):
        p = _P(r.out)
        p.i = m.start()
        v = p.value()[1]
        cases.append({k: v[k] for k in ("op", "ts", "max", "sendChunked", "recvChunked", "shape", "dsts")})
    if len(cases) < 500:
        raise MachineryError(f"only {len(cases)} configurations exported")
    rng = random.Random(ctx.seed + 25)
    if not thorough:
        must = [c for c in cases if (c["sendChunked"] or c["recvChunked"]) and c["shape"] in ("big20k", "vrmix") and c["max"] in (128, 16382)]
        must += [c for c in cases if c["dsts"] == "other" and c["max"] == 16382 and c not in must]          # stored in another syntax than the context's
        cases = must + rng.sample([c for c in cases if c not in must], 220)
    elif len(cases) > 6000:
        cases = rng.sample(cases, 6000)
    groups = {}
    for c in cases:
        groups.setdefault((c["ts"], c["max"]), []).append(c)
    obs = []
    tmpdir = tempfile.mkdtemp(prefix="c25_", dir=os.path.join(VERIF, ".work"))
    lock = threading.Lock()
    errs = []

    # the chunk switches are process-wide: groups run one after the other
    try:
        k = 0
        for (ts, mx), cs in sorted(groups.items()):
            pair = Pair(TS[ts], mx)
            try:
                for c in cs:
                    k += 1
                    o = pair.run(c, k, tmpdir)
                    obs.append(o)
                    if not pair.assoc.is_established:
                        pair.close()
                        pair = Pair(TS[ts], mx)
            finally:
                pair.close()
    finally:
        import shutil
        shutil.rmtree(tmpdir, ignore_errors=True)
    for k, o in enumerate(obs):
        o["id"] = k + 1
    verdicts = validate_traces(ctx, "Trace_Store", [{"id": o["id"], "may_refuse": o["c"].get("dsts") == "other" and bool(o["c"]["sendChunked"]), "refused": o["exc"].startswith("ValueError"),
                                                    "views": [{"name": v["name"], "equal": v["equal"]} for v in o["views"]]} for o in obs], timeout=1800)
    for o in obs:
        v = verdicts[o["id"]][0]
        c = o["c"]
        ctx.traces += 1
        ctx.case(tuple(sorted((a, str(b)) for a, b in c.items())), nontrivial=c["shape"] != "small" or c["sendChunked"] or c["recvChunked"] or c["ts"] != "implicit")
        if v != "ok":
            ctx.violation({"clause": v, "op": c["op"], "recvChunked": c["recvChunked"], "sendChunked": c["sendChunked"], "ts": c["ts"] if v in ("C25_RawEncoded",) else "*"},
                          f"{v}: configuration {c}: views={o['views']} exc={o['exc']}", c)
    ctx.sample(obs[0])
    ctx.sample(obs[-1])
    ctx.assume("'equal to the original' = equal to what pydicom itself returns for the original encoded in the context's transfer syntax (pydicom's codec is not under test)",
               "dataset shapes come from a fixed catalogue (VR mix, nested sequences, private block, empty values, odd lengths, 20 kB / 1 MiB pixel data, long and multi-valued strings)")
    return ctx.finish(rule="configuration vectors of StorePipeline.tla (operation x transfer syntax x maximum PDU x chunked send x chunked receive x shape x data set stored in the context's / another convertible syntax), sampled in quick with every "
                      "chunked-mode configuration on large/VR-mix datasets kept; non-trivial = anything but a small implicit-VR in-memory dataset")
