"""C29 — qrscp returns exactly the entities the PS3.4 matching rules select.

MC  : spec/QRMatch.tla (PS3.4 C.2.2.2 matching, hierarchical selection, identifier validity) with spec/MC_QR.tla (three
      small databases, every identifier at most MaxDev keys away from the plain identifier of its level, both information
      models, C-FIND and C-GET/C-MOVE): TLC evaluates the selection of every case and the lemmas L_Universal, L_Monotone,
      L_ListOne on all of them.
S2C : every case (sampled for MaxDev = 2 in quick) is run on the real qrscp code: the databases are filled through
      db.add_instance, the identifier is encoded and decoded as on the wire and given to db.search and to
      handlers.handle_find.
C2S : Trace_QR compares the observed selection, the identifier's acceptance and the number of C-FIND responses with the
      specification's.
"""
from __future__ import annotations

import os
import random
import re
import warnings

from common import Ctx, MachineryError
from tlc import _P, must_ok, run_tlc
from trace import validate_traces


def cases(ctx, maxdev, sample=None, rng=None):
    cfg = os.path.join(ctx.work, f"MC_QR_{maxdev}.cfg")
    open(cfg, "w").write(f"SPECIFICATION Spec\nCONSTANT MaxDev = {maxdev}\nINVARIANT Export\nINVARIANT L_Universal\nINVARIANT L_Monotone\nINVARIANT L_ListOne\nINVARIANT L_Restored\nCHECK_DEADLOCK FALSE\n")
    r = must_ok(run_tlc("MC_QR", cfg, workdir=ctx.work, workers=1, timeout=3000))
    ctx.add_tlc(r)
    if r.violated:
        ctx.violation({"clause": "model", "what": r.violated}, f"MC_QR (MaxDev={maxdev}) violates {r.violated}", {"trace": [l for l, _ in r.trace]})
        return []
    offs = [m.start() for m in re.finditer(r'<<\s*"CASE",', r.out)]
    if sample and len(offs) > sample:
        offs = sorted(rng.sample(offs, sample))
    out = []
    for o in offs:
        p = _P(r.out)
        p.i = o
        out.append(p.value()[1])
    return out


def feature(c):
    """What the case's identifier hinges on (keeps distinct causes of a failure distinct)."""
    f = []
    for k, m in sorted(c["keys"].items()):
        t = m["t"]
        if t == "wild":
            v = "".join(m["v"])
            tags = [x for x, on in (("literal-percent", "%" in v), ("literal-underscore", "_" in v), ("lower-case", v != v.upper() and k != "PatientName" and any(ch.isalpha() for ch in v))) if on]
            f.append(f"wild:{k}" + ("".join(":" + x for x in tags)))
        elif t == "list":
            f.append(f"list{len(m['v'])}:{k}")
        elif t == "range":
            f.append(f"range:{k}")
    return ",".join(f) or "plain"


def run(ctx: Ctx) -> int:
    warnings.simplefilter("ignore")
    thorough = ctx.tier == "thorough"
    rng = random.Random(ctx.seed + 29)
    cs = cases(ctx, 1) + cases(ctx, 2, None if thorough else 2500, rng)
    if ctx.violations:
        return ctx.finish(rule="model violated its own lemmas")
    if len(cs) < 3000:
        raise MachineryError(f"only {len(cs)} cases")
    from qr_lab import Lab, text
    # the databases as MC_QR defines them (read back from a case-independent dump: every case names its database)
    dbs = db_contents(ctx)
    lab = Lab(dbs)
    obs = []
    try:
        for j, c in enumerate(cs):
            c = {"db": c["db"], "model": c["model"], "op": c["op"], "level": c["level"], "keys": {k: dict(v) for k, v in c["keys"].items()}, "expected": c["expected"], "sel_ci": c["sel_ci"], "nhits": c["nhits"]}
            o = lab.run(c)
            exp = c["expected"]
            obs.append({"id": j + 1, "op": c["op"], "level": c["level"], "exp_ok": bool(exp["ok"]), "exp_sel": sorted(text(x) for x in exp["sel"]), "status": o["status"],
                        "sel": o["sel"], "nresp": o["nresp"], "case": c, "exc": o.get("exc", ""), "sel_ci": sorted(text(x) for x in c["sel_ci"]), "nhits": int(c["nhits"])})
    finally:
        lab.close()
    vs = validate_traces(ctx, "Trace_QR", [{k: o[k] for k in ("id", "op", "level", "exp_ok", "exp_sel", "status", "sel", "nresp", "sel_ci", "nhits")} for o in obs], name="qr", timeout=1800)
    for o in obs:
        v = vs[o["id"]][0]
        c = o["case"]
        ctx.traces += 1
        ctx.case((c["db"], c["model"], c["op"], c["level"], repr(sorted((k, repr(m)) for k, m in c["keys"].items()))), nontrivial=feature(c) != "plain" or not o["exp_ok"])
        if v != "ok":
            keys = {k: (m["t"], text(m["v"]) if "v" in m and not isinstance(m["v"], (set, frozenset)) else sorted(text(x) for x in m["v"]) if "v" in m else (m.get("lo"), m.get("hi")) if m["t"] == "range" else "")
                    for k, m in c["keys"].items() if m["t"] != "absent"}
            ctx.violation({"clause": v, "op": c["op"], "feature": feature(c)},
                          f"{v}: database {c['db']}, {c['model']} {c['op']} at level {c['level']} with {keys}: specification selects {o['exp_sel']} (identifier valid={o['exp_ok']}), "
                          f"qrscp: status={o['status']} entities={o['sel']} responses={o['nresp']} {o['exc']}", {"case": {k: c[k] for k in ("db", "model", "op", "level")}, "keys": keys})
    ctx.sample({"case": {k: obs[0]["case"][k] for k in ("db", "model", "op", "level")}, "expected": obs[0]["exp_sel"], "observed": obs[0]["sel"]})
    ctx.assume("databases and value pools of MC_QR.tla (5 instances, 3 patients; values chosen to separate case, '%', '_' and list / range semantics)",
               "pydicom configured as qrscp.py configures it (empty text values decode to None); the handler is called with an event object carrying what it reads")
    return ctx.finish(rule="four databases (one of them a re-store of an instance with fewer attributes) x 2 information models x {C-FIND, C-GET/C-MOVE} x 4 levels x every identifier within 1 (all) / 2 (sampled in quick) keys of the plain identifier")


def db_contents(ctx):
    """The databases of MC_QR.tla, printed by TLC."""
    cfg = os.path.join(ctx.work, "MC_QR_db.cfg")
    open(cfg, "w").write("SPECIFICATION DbSpec\nCONSTANT MaxDev = 0\nINVARIANT DbExport\nCHECK_DEADLOCK FALSE\n")
    r = must_ok(run_tlc("MC_QR", cfg, workdir=ctx.work, workers=1, timeout=600))
    m = re.search(r'<<\s*"DBS",', r.out)
    if not m:
        raise MachineryError("databases not exported")
    p = _P(r.out)
    p.i = m.start()
    v = p.value()[1]
    return {name: [dict(rec) for rec in insts] for name, insts in v.items()}
