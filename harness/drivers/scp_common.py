"""Shared driver for C20 / C21 / C22 (spec/Scp.tla, spec/Trace_Scp.tla, harness/scp_exec.py).

MC  : TLC explores the reference SCP machine for every service with the handler as environment
      (all handler scripts up to MaxSteps pulls); C20_*/C22_* are invariants of the machine.
S2C : every terminal behaviour TLC found (= one handler script) is executed against the real
      service class through Association._serve_request.
C2S : the observed response histories are judged by Trace_Scp (TLC) with the same predicates.
Only the predicates of the requested property raise violations; a history that differs from the
reference machine's while all predicates hold is DRIFT.
"""
from __future__ import annotations

import os
import re
import warnings

from common import Ctx, MachineryError
from tlc import _P, must_ok, run_tlc
from trace import validate_traces
import pn  # noqa: F401

IMPLICIT, EXPLICIT_BE, DEFLATED = "1.2.840.10008.1.2", "1.2.840.10008.1.2.2", "1.2.840.10008.1.2.1.99"
GEN = ["FIND", "FINDREPO", "GET", "MOVE"]
RET = ["ECHO", "STORE", "SUBSTORE", "NGET", "NSET", "NACTION", "NCREATE", "NCREATE0", "NDELETE", "NEVENT"]
INVS = ["TypeOK", "C20_Shape", "C20_NothingAfterFinal", "C22_Sum", "C22_Monotone", "C22_Final", "Export"]


def model_cases(ctx: Ctx, svc: str, max_steps: int):
    cfg = os.path.join(ctx.work, f"MC_Scp_{svc}.cfg")
    with open(cfg, "w") as f:
        f.write("SPECIFICATION Spec\nCONSTANTS Svc = \"%s\"\n          MaxSteps = %d\n" % (svc, max_steps))
        for inv in INVS:
            f.write(f"INVARIANT {inv}\n")
    r = must_ok(run_tlc("Scp", cfg, workdir=ctx.work, workers=1, timeout=3000))
    ctx.add_tlc(r)
    if r.violated:
        ctx.violation({"where": "model", "svc": svc, "invariant": r.violated}, f"Scp.tla ({svc}) violates {r.violated}", r.trace)
        return []
    cases = []
    for m in re.finditer(r'<<\s*"CASE",', r.out):
        p = _P(r.out)
        p.i = m.start()
        v = p.value()
        cases.append({"svc": v[1], "ended": v[2], "script": v[3], "expected": v[4]})
    if not cases:
        raise MachineryError(f"no cases exported for {svc}")
    return cases


def norm_script(sc):
    return [{"k": s["k"], "st": s.get("st", "S0"), "ds": s.get("ds", "none"), "sub": s.get("sub", "S")} for s in sc]


def proj(rsps):
    return [(r["st"], r["step"], r["rem"], r["comp"], r["fail"], r["warn"]) for r in rsps]


def run_group(ctx: Ctx, group: str, services=None) -> int:
    from scp_exec import execute

    warnings.simplefilter("ignore")
    thorough = ctx.tier == "thorough"
    col = {"C20": 0, "C21": 1, "C22": 2}[group]
    services = services or (["GET", "MOVE"] if group == "C22" else GEN + RET)
    obs = []
    expected = {}
    for svc in services:
        if svc in ("GET", "MOVE"):
            ms = (5 if thorough else 4) + (1 if svc == "MOVE" else 0)
        elif svc in GEN:
            ms = 4 if thorough else 3
        else:
            ms = 1
        cases = model_cases(ctx, svc, ms)
        ctx.count(f"cases_{svc}", len(cases))
        for c in cases:
            sc = norm_script(c["script"])
            tss = [IMPLICIT]
            if group != "C22" and svc not in ("GET", "MOVE", "ECHO", "STORE", "SUBSTORE", "NDELETE") and any(s["ds"] == "ds" for s in sc):
                tss = [IMPLICIT, DEFLATED, EXPLICIT_BE] if (thorough or len(sc) <= 2) else [IMPLICIT, DEFLATED]
            for ts in tss:
                o = execute(svc, sc, ts)
                o["id"] = len(obs) + 1
                o["ts"] = ts
                obs.append(o)
                expected[o["id"]] = c
            # the same script on the Relevant Patient Information Query SCP (its own implementation of C-FIND; it takes at most one
            # result from the handler: scripts with at most one yield are answered alike; the repository warning does not exist there)
            # (one-step scripts only: that SCP never asks its handler for more; statuses its table knows: not 0xFF01, not 0xB001)
            if svc == "FIND" and len(sc) == 1 and sc[0]["st"] not in ("WL", "P1"):
                import scp_exec
                scp_exec.FIND_SOP_OVERRIDE = scp_exec.RELEVANT_PATIENT_GENERAL
                try:
                    for ts in tss:
                        o = execute(svc, sc, ts)
                        o["id"] = len(obs) + 1
                        o["ts"] = ts
                        o["impl"] = "relevant-patient"
                        obs.append(o)
                        expected[o["id"]] = c
                finally:
                    scp_exec.FIND_SOP_OVERRIDE = None
    if ctx.violations:
        return ctx.finish(rule="model violated its own invariants")
    verdicts = validate_traces(ctx, "Trace_Scp", obs, timeout=3000)
    drift = 0
    for o in obs:
        v = verdicts[o["id"]][col]
        ctx.traces += 1
        key = (o["svc"], o.get("impl", ""), o.get("ts", ""), tuple((s["k"], s["st"], s["ds"], s["sub"]) for s in o["script"]))
        ctx.case(key, nontrivial=len(o["rsp"]) >= 2 or any(s["k"] in ("raise", "abort") or s["st"] in ("DSNO", "BAD", "DSF", "UNK") or s["ds"] in ("obj", "unenc") for s in o["script"]))
        e = expected[o["id"]]
        if proj(o["rsp"]) != proj(e["expected"]) or (o["fin"] != "final") != (e["ended"] == "aborted"):
            drift += 1
            if drift <= 5:
                ctx.drifted(f"{o['svc']} script={[(s['k'], s['st'], s['ds'], s['sub']) for s in o['script']]} observed={proj(o['rsp'])} reference={proj(e['expected'])}")
        if v != "ok":
            # signature: the clause plus the shape of the handler step the failing behaviour hinges on
            steps = [(s["k"], s["st"], s["ds"]) for s in o["script"]]
            feature = _feature(o, v)
            sig = {"clause": v, "svc": o["svc"], "feature": feature, "ts": o.get("ts", "")[-4:]}
            if v.startswith("C22"):
                sig = {"clause": v, "svc": o["svc"], "first_break": _first_break(o)}
            elif v.startswith("C20"):
                sig = {"clause": v, "svc": o["svc"], "outcome": o["fin"], "cause": _last_step(o)}
            ctx.violation(sig,
                          f"{o['svc']}{' (' + o['impl'] + ' SCP)' if o.get('impl') else ''}: {v} on handler script {steps}: responses={[(hex(r['st']), r['step'], r['rem'], r['comp'], r['fail'], r['warn'], r['ds']) for r in o['rsp']]} fin={o['fin']} exc={o['exc']} failedlist_expected={o['failed_expected']}",
                          {"svc": o["svc"], "script": o["script"], "ts": o.get("ts", IMPLICIT)})
    ctx.cov["drift_total"] = drift
    for o in (obs[0], obs[len(obs) // 2], obs[-1]):
        ctx.sample({"svc": o["svc"], "script": o["script"], "responses": o["rsp"], "fin": o["fin"]})
    ctx.assume("requests enter through the real Association._serve_request; transport cut at dimse.send_msg",
               "C-MOVE destination association is a stub returning the scripted sub-operation status",
               "handler alphabet: status classes S0 P0 P1 WL WS FA CA UNK DSP DSF DSNO BAD x dataset classes ds none obj unenc x sub-operation outcomes S W F X")
    return ctx.finish(rule="every terminal behaviour of the Scp.tla machine (all handler scripts up to the step bound) is executed on the real "
                      "service class; non-trivial = at least two responses, or a raise/abort/invalid value step")


def _feature(o, clause):
    """Smallest description of what the failing script needs (keeps distinct causes distinct)."""
    kinds = set()
    for s in o["script"]:
        if s["k"] in ("raise", "abort", "dest", "count"):
            if s["k"] in ("raise", "abort") or s["st"] in ("nbad", "nbig", "n0", "unknown", "bad", "refused"):
                kinds.add(f"{s['k']}:{s['st']}" if s["k"] in ("dest", "count") else s["k"])
        elif s["k"] in ("y", "ret"):
            if s["ds"] in ("obj", "unenc") or s["st"] in ("DSNO", "BAD", "DSF", "UNK", "WL", "WS", "CA", "FA"):
                kinds.add(f"{s['st']}/{s['ds']}")
    return ",".join(sorted(kinds)) or "plain"


def _last_step(o):
    """Value class of the handler step that was the last one pulled (C20 signatures)."""
    i = o.get("pulled", 0)
    if 1 <= i <= len(o["script"]):
        s = o["script"][i - 1]
        return s["st"] if s["k"] in ("y", "ret") else s["k"]
    return "end"


def _first_break(o):
    """Class of the handler step at which the counter invariants first fail (C22 signatures)."""
    n = next(({"n1": 1, "n2": 2, "n3": 3}.get(s["st"], -1) for s in o["script"] if s["k"] == "count"), -1)
    for r in o["rsp"]:
        pend = r["st"] in (0xFF00, 0xFF01)
        bad = (pend and r["rem"] + r["comp"] + r["fail"] + r["warn"] != n) or (not pend and r["comp"] >= 0 and r["comp"] + r["fail"] + r["warn"] > n)
        if bad:
            s = o["script"][r["step"] - 1] if 1 <= r["step"] <= len(o["script"]) else {"k": "end", "st": "", "ds": ""}
            return f"{s['st']}/{s['ds']}" if s["k"] in ("y", "ret") else s["k"]
    return "none"


def replay(ctx: Ctx, group: str) -> int:
    import json
    from scp_exec import execute

    d = json.load(open(ctx.replay_path))
    rp = d.get("replay") or {}
    o = execute(rp["svc"], norm_script(rp["script"]), rp.get("ts", IMPLICIT))
    o["id"] = 1
    verdicts = validate_traces(ctx, "Trace_Scp", [o])
    col = {"C20": 0, "C21": 1, "C22": 2}[group]
    v = verdicts[1][col]
    ctx.traces = 1
    ctx.case("replay")
    print("replay:", o["svc"], o["script"], "->", [(hex(r["st"]), r["rem"], r["comp"], r["fail"], r["warn"]) for r in o["rsp"]], "verdict", v)
    if v != "ok":
        sig = {"clause": v, "svc": o["svc"], "feature": _feature(o, v)}
        if v.startswith("C22"):
            sig = {"clause": v, "svc": o["svc"], "first_break": _first_break(o)}
        elif v.startswith("C20"):
            sig = {"clause": v, "svc": o["svc"], "outcome": o["fin"], "cause": _last_step(o)}
        ctx.violation(sig, f"replay: {v}", rp)
    return ctx.finish(rule="single replayed handler script")
