"""C07 — a peer's release request is always answered with a release response.

MC  : spec/Release.tla — association thread (reactor loop + _wrap_handler loop) against a peer that sends A-RELEASE-RQ
      at any moment.  The design as found (the test inside _wrap_handler TAKES the indication) is refuted by TLC
      (Release_asfound.cfg: C07_NeverSwallowed); the repaired design holds (safety and C07_Answered under fairness).
S2C : every (service, N, arrival point) TLC reaches is run on a real acceptor (and a real C-MOVE destination) against
      the scripted raw peer of raw_peer.py; arrival points are reached deterministically through gates in the handlers.
C2S : the observation of each run is judged by Trace_Release.
"""
from __future__ import annotations

import re
import threading
import warnings

from common import Ctx, MachineryError
from tlc import _P, must_ok, run_tlc
from trace import validate_traces


def cases(ctx, maxn):
    cfg = f"SPECIFICATION Spec\nCONSTANTS MaxN = {maxn}\n          WrapperConsumes = FALSE\n          ReleaseWakesWaiter = TRUE\n          SentinelOnlyIfEmpty = FALSE\n          PauseCoversEncode = FALSE\nINVARIANT Export\nCHECK_DEADLOCK FALSE\n"
    open(f"{ctx.work}/Release_cases_{maxn}.cfg", "w").write(cfg)
    r = must_ok(run_tlc("Release", f"{ctx.work}/Release_cases_{maxn}.cfg", workdir=ctx.work, workers=1, timeout=600))
    ctx.add_tlc(r)
    seen, out = set(), []
    for m in re.finditer(r'<<\s*"CASE",', r.out):
        p = _P(r.out)
        p.i = m.start()
        v = p.value()[1]
        key = (v["svc"], int(v["n"]), v["pos"], int(v["k"]), bool(v["tmo"]), bool(v["enc"]), int(v["q"]))
        # (responses queued ahead of the release request matter where this side's caller is waiting for the next one)
        if key[6] and key[2] != "ascu_wait":
            continue
        # (a sub-operation whose data set cannot be encoded matters for the arrivals after it)
        if key[5] and not (key[4] and key[2] in ("final", "between", "reactor", "check") and (key[2] != "check" or key[3] > key[1])):
            continue
        # (without a DIMSE timeout only the arrival points at which this side waits for a DIMSE response differ)
        if not key[4] and not ((key[0] == "get" and key[2] == "sub") or key[2] == "ascu_wait"):
            continue
        if key not in seen:
            seen.add(key)
            out.append({"svc": key[0], "n": key[1], "pos": key[2], "k": key[3], "tmo": key[4], "enc": key[5], "q": key[6]})
    if len(out) < 30:
        raise MachineryError(f"only {len(out)} arrival points exported")
    return out


def run(ctx: Ctx) -> int:
    warnings.simplefilter("ignore")
    thorough = ctx.tier == "thorough"
    # the design: repaired holds, as-found refuted (a spec that could not tell them apart would be vacuous)
    r = must_ok(run_tlc("Release", "Release_ok.cfg", workdir=ctx.work, workers=4, timeout=900))
    ctx.add_tlc(r)
    if r.violated:
        ctx.violation({"clause": "model", "what": r.violated}, f"Release.tla (repaired design) violates {r.violated}", {"trace": [l for l, _ in r.trace]})
    r2 = must_ok(run_tlc("Release", "Release_asfound.cfg", workdir=ctx.work, workers=4, timeout=900))
    ctx.add_tlc(r2)
    if r2.violated != "C07_NeverSwallowed":
        raise MachineryError(f"the as-found design (wrapper consumes the indication) is not refuted by TLC: {r2.violated!r}")
    ctx.cov["as_found_design_refuted_by"] = "C07_NeverSwallowed (" + " -> ".join(l for l, _ in r2.trace[-6:]) + ")"
    r3 = must_ok(run_tlc("Release", "Release_nowake.cfg", workdir=ctx.work, workers=4, timeout=900))
    ctx.add_tlc(r3)
    if r3.violated != "C07_Answered":
        raise MachineryError(f"a release request that does not end a pending wait for a DIMSE response is not refuted by TLC: {r3.violated!r}")
    r4 = must_ok(run_tlc("Release", "Release_pauseenc.cfg", workdir=ctx.work, workers=4, timeout=900))
    ctx.add_tlc(r4)
    if r4.violated != "C07_Answered":
        raise MachineryError(f"a reactor left paused by a failed encoding is not refuted by TLC: {r4.violated!r}")
    r5 = must_ok(run_tlc("Release", "Release_sentinel.cfg", workdir=ctx.work, workers=4, timeout=900))
    ctx.add_tlc(r5)
    if r5.violated != "C07_Answered":
        raise MachineryError(f"a wake-up that is left only when no message is queued is not refuted by TLC: {r5.violated!r}")
    from release_lab import run_case

    cs = cases(ctx, 3 if thorough else 2)
    reps = 3 if thorough else 1
    todo = [dict(c) for c in cs for _ in range(reps)]
    obs, lock = [], threading.Lock()

    def worker(k):
        for c in todo[k::6]:
            try:
                o = run_case(c)
            except Exception as e:  # noqa: BLE001
                o = dict(c, harness_exc=f"{type(e).__name__}: {e}")
            with lock:
                obs.append(o)

    ts = [threading.Thread(target=worker, args=(k,)) for k in range(6)]
    [t.start() for t in ts]
    [t.join() for t in ts]
    bad = [o for o in obs if "harness_exc" in o]
    if len(bad) > 2:
        raise MachineryError(f"{len(bad)} runs failed in the harness: {bad[0]['harness_exc']}")
    obs = [o for o in obs if "harness_exc" not in o]
    keys = ("svc", "n", "pos", "k", "reached", "sent", "queued", "rp", "peer_saw", "acc_released", "acc_aborted", "acc_alive", "raises", "final_status")
    tr = [dict({k: o.get(k, False) for k in keys}, id=j + 1) for j, o in enumerate(obs)]
    vs = validate_traces(ctx, "Trace_Release", tr, name="release")
    for j, o in enumerate(obs):
        v = vs[j + 1][0]
        ctx.traces += 1
        ctx.case((o["svc"], o["n"], o["pos"], o["k"], o.get("tmo", True), o.get("enc", False), o.get("q", 0)), nontrivial=o["pos"] not in ("idle", "between"))
        if v == "ok":
            continue
        if v in ("UNREACHED", "LOCAL_ABORT"):
            ctx.drifted(f"{v}: scenario {o['svc']} n={o['n']} arrival {o['pos']}[{o['k']}]: {o.get('peer_log')}")
            continue
        ctx.violation({"clause": v, "svc": o["svc"], "pos": o["pos"]},
                      f"{v}: {o['svc']} handler with {o['n']} results{' (the last one cannot be encoded)' if o.get('enc') else ''}{' (responses queued ahead, slow caller)' if o.get('q') else ''}, A-RELEASE-RQ arriving at {o['pos']}[{o['k']}]: peer saw {o['peer_saw']!r}, acceptor released={o.get('acc_released')} "
                      f"aborted={o.get('acc_aborted')} alive={o.get('acc_alive')} state=Sta{o.get('acc_state')}; peer log {o.get('peer_log')}", o)
    ctx.cov["answer_delay_max_s"] = max([o["t_rp"] for o in obs if o.get("rp")] or [0])
    ctx.sample(obs[0])
    ctx.assume("the peer is otherwise cooperative (answers C-STORE sub-operations, reads everything)", "acceptor timeouts: ACSE 2 s, DIMSE 1 s, network 4 s; answer window 3 s",
               "the arrival point is held by stopping the handler (or the destination's handler, or the EVT_DIMSE_SENT notification of the final response) until the provider has queued the indication")
    return ctx.finish(rule="every (service, N, arrival point) reachable in Release.tla; non-trivial = arrival inside an operation")
