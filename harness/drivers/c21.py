"""C21 — see scp_common.py (spec/Scp.tla, spec/Trace_Scp.tla)."""
from scp_common import replay, run_group


def run(ctx):
    if getattr(ctx, "replay_path", None):
        return replay(ctx, "C21")
    return run_group(ctx, "C21")
