"""Shared driver for C10 / C11 (spec/NegotiationOps.tla, Negotiation.tla, Trace_Negotiation.tla, harness/neg_lab.py).

MC  : TLC checks, for every proposal x support x role combination of the bounded domain, that the
      acceptor's table and the requestor's reading of the reply leave both sides with the same
      accepted contexts and complementary roles (C11_*), and the C10 lemmas of the acceptor table.
S2C : every case TLC enumerated (exported from the model's behaviours), plus seeded random
      multi-context cases (duplicated abstract syntaxes, unrestricted-storage mode), is negotiated by
      a real acceptor AE on loopback against a raw requestor (C10) and a real requestor AE (C11).
C2S : the observed views / wire items are judged by Trace_Negotiation (TLC).
"""
from __future__ import annotations

import os
import random
import re

from common import Ctx, MachineryError
from tlc import _P, must_ok, run_tlc
from trace import validate_traces
import pn  # noqa: F401


def tlc_cases(ctx: Ctx, maxcx: int, timeout=1500):
    cfg = os.path.join(ctx.work, f"MC_Neg{maxcx}.cfg")
    with open(cfg, "w") as f:
        f.write(f"SPECIFICATION Spec\nCONSTANT MaxCx = {maxcx}\n")
        for inv in ("C11_Once", "C11_SameAccepted", "C11_Complementary", "C10_UsableRole", "C10_ReplyWithinProposal", "C10_AcceptedTsCommon"):
            f.write(f"INVARIANT {inv}\n")
        if maxcx == 1:
            f.write("INVARIANT ExportCase\n")
    # (two contexts: 1 314 240 cases - above TLC's default bound on the size of an enumerated set)
    r = must_ok(run_tlc("Negotiation", cfg, workdir=ctx.work, workers=1 if maxcx == 1 else 16, timeout=timeout, extra=None if maxcx == 1 else ["-maxSetSize", "3000000"]))
    ctx.add_tlc(r)
    if r.violated:
        ctx.violation({"where": "model", "invariant": r.violated}, f"Negotiation.tla violates {r.violated}", r.trace)
        return []
    cases = []
    if maxcx == 1:
        for m in re.finditer(r'<<\s*"CASE",', r.out):
            p = _P(r.out)
            p.i = m.start()
            cases.append(norm_case(p.value()[1]))
    return cases


def norm_case(c):
    return {"proposed": [{"id": p["id"], "ab": p["ab"], "ts": list(p["ts"])} for p in c["proposed"]],
            "supported": [{"ab": s["ab"], "ts": list(s["ts"]), "scu": s["scu"], "scp": s["scp"]} for s in c["supported"]],
            "roles": [{"ab": r["ab"], "scu": bool(r["scu"]), "scp": bool(r["scp"])} for r in c["roles"]],
            "mode": c.get("mode", "normal"), "storage": list(c.get("storage", []))}


def random_cases(rng: random.Random, n: int):
    from neg_lab import STORAGE_LIKE

    out = []
    tsl = [["T1"], ["T2"], ["T3"], ["T1", "T2"], ["T2", "T1"], ["T3", "T1"], ["T1", "T2", "T3"], ["T3", "T2", "T1"], ["T2", "T3"]]
    for _ in range(n):
        k = rng.choice([1, 2, 2, 3, 3, 4])
        abs_ = ["A", "B", "C", "D"]
        proposed = [{"id": rng.choice([2 * j + 1, 2 * j + 1, 255 - 2 * (k - j)]) if False else 2 * j + 1, "ab": rng.choice(abs_), "ts": rng.choice(tsl)} for j in range(k)]
        supported = [{"ab": ab, "ts": rng.choice(tsl), "scu": rng.choice("NTF"), "scp": rng.choice("NTF")} for ab in abs_ if rng.random() < 0.7]
        roles = [{"ab": ab, "scu": rng.random() < 0.5, "scp": rng.random() < 0.5} for ab in abs_ if rng.random() < 0.6]
        mode = "unrestricted" if rng.random() < 0.35 else "normal"
        out.append({"proposed": proposed, "supported": supported, "roles": roles, "mode": mode,
                    "storage": STORAGE_LIKE if mode == "unrestricted" else []})
    return out


def observe_raw(lab, case):
    from neg_lab import AB_INV, TS_INV, cx_view

    lab.configure(case["supported"], case["mode"])
    rq = lab.rq_pdu(case["proposed"], case["roles"])
    out = lab.raw_associate(rq.encode())
    a = lab.acceptor_view()
    if out["kind"] != "AC" or a is None:
        # no A-ASSOCIATE-AC although nothing in the policy rejects the request: judged as "no result per context"
        ac = [cx_view(cx) for cx in a.accepted_contexts + a.rejected_contexts] if a is not None else []
        return {"c": case, "ac": ac, "wire": [], "reply": [], "rq": [], "hasrq": False, "outcome": out["kind"]}
    pdu = out["pdu"]
    wire = [{"id": int(i.context_id), "result": int(i.result), "ts": TS_INV.get(str(i.transfer_syntax), str(i.transfer_syntax))}
            for i in pdu.presentation_context]
    reply = [{"ab": AB_INV.get(str(uid), str(uid)), "scu": bool(it.scu_role), "scp": bool(it.scp_role)}
             for uid, it in pdu.user_information.role_selection.items()]
    ac = [cx_view(cx) for cx in a.accepted_contexts + a.rejected_contexts]
    return {"c": case, "ac": ac, "wire": wire, "reply": reply, "rq": [], "hasrq": False, "outcome": "AC"}


def observe_real(lab, case):
    from neg_lab import AB_INV, TS_INV, cx_view
    from pynetdicom.pdu import A_ASSOCIATE_AC

    lab.configure(case["supported"], case["mode"])
    try:
        assoc, ac_bytes = lab.real_associate(case["proposed"], case["roles"])
    except Exception as e:  # noqa: BLE001  (the API refused the configuration: not a negotiation)
        return {"refused": f"{type(e).__name__}: {e}"}
    a = lab.acceptor_view()
    rq = [cx_view(cx) for cx in assoc.accepted_contexts + assoc.rejected_contexts]
    o = {"c": case, "ac": [], "wire": [], "reply": [], "rq": rq, "hasrq": True, "outcome": "est" if assoc.is_established else "notest"}
    if a is not None and ac_bytes:
        pdu = A_ASSOCIATE_AC()
        pdu.decode(ac_bytes)
        o["wire"] = [{"id": int(i.context_id), "result": int(i.result), "ts": TS_INV.get(str(i.transfer_syntax), str(i.transfer_syntax))}
                     for i in pdu.presentation_context]
        o["reply"] = [{"ab": AB_INV.get(str(uid), str(uid)), "scu": bool(it.scu_role), "scp": bool(it.scp_role)}
                      for uid, it in pdu.user_information.role_selection.items()]
        o["ac"] = [cx_view(cx) for cx in a.accepted_contexts + a.rejected_contexts]
    else:
        o["hasrq"] = False
    if assoc.is_established:
        assoc.release()
    elif not (assoc.is_aborted or assoc.is_rejected or assoc.is_released):
        assoc.abort()
    return o


def _kind(o):
    """Which of the known unrestricted-mode behaviours the case exhibits (known-finding signatures)."""
    c = o["c"]
    kinds = set()
    if c["mode"] == "unrestricted":
        roles = {r["ab"]: r for r in c["roles"]}
        view = {a["id"]: a for a in o["ac"]}
        for p in c["proposed"]:
            a = view.get(p["id"])
            if p["ab"] not in c["storage"] or a is None or a["result"] != 0:
                continue
            r = roles.get(p["ab"])
            if r is None and a["asSCU"] and a["asSCP"]:
                kinds.add("default-both")
            if r is not None and not r["scu"] and not r["scp"]:
                kinds.add("FF-accepted")
    return "FF-accepted" if "FF-accepted" in kinds else "default-both" if kinds else "none"


def run(ctx: Ctx, group: str) -> int:
    from neg_lab import NegLab

    thorough = ctx.tier == "thorough"
    cases = tlc_cases(ctx, 1)
    if thorough:
        tlc_cases(ctx, 2, timeout=2400)
    if ctx.violations:
        return ctx.finish(rule="model violated its own invariants")
    rng = random.Random(ctx.seed + 10)
    if group == "C11" and not thorough:
        cases = cases[::4]
    cases = cases + random_cases(rng, 6000 if thorough else 900)
    if group == "C11":
        # build_role(scu_role=False, scp_role=False) is accepted by the API but cannot be encoded (the request is
        # never sent and the requestor waits for its ACSE timeout): not a negotiation, left to C12
        cases = [c for c in cases if all(r["scu"] or r["scp"] for r in c["roles"])]
    obs = []
    refused = 0
    import threading
    from pynetdicom import _config

    def worker(lab, chunk, out):
        try:
            for c in chunk:
                # the real requestor cannot express everything (e.g. roles False/False); C10 uses the raw requestor
                out.append(observe_real(lab, c) if group == "C11" else observe_raw(lab, c))
        finally:
            lab.close()

    nthreads = 8
    for mode in ("normal", "unrestricted"):      # the unrestricted-storage switch is process-wide
        part = [c for c in cases if c["mode"] == mode]
        outs = [[] for _ in range(nthreads)]
        threads = [threading.Thread(target=worker, args=(NegLab(), part[k::nthreads], outs[k])) for k in range(nthreads)]
        _config.UNRESTRICTED_STORAGE_SERVICE = mode == "unrestricted"
        for t in threads:
            t.start()
        for t in threads:
            t.join()
        _config.UNRESTRICTED_STORAGE_SERVICE = False
        for o in [x for out in outs for x in out]:
            if "refused" in o:
                refused += 1
                continue
            if o.get("outcome") not in ("AC", "est", "notest"):
                ctx.count("no_ac")
            o["id"] = len(obs) + 1
            obs.append(o)
    ctx.cov["api_refused"] = refused
    if len(obs) < len(cases) // 2:
        raise MachineryError(f"only {len(obs)} of {len(cases)} negotiations produced an A-ASSOCIATE-AC")
    verdicts = validate_traces(ctx, "Trace_Negotiation", obs, timeout=3000)
    col = 0 if group == "C10" else 1
    for o in obs:
        v = verdicts[o["id"]][col]
        ctx.traces += 1
        c = o["c"]
        key = (tuple((p["ab"], tuple(p["ts"])) for p in c["proposed"]), tuple((s["ab"], tuple(s["ts"]), s["scu"], s["scp"]) for s in c["supported"]),
               tuple((r["ab"], r["scu"], r["scp"]) for r in c["roles"]), c["mode"])
        ctx.case(key, nontrivial=bool(c["roles"]) or len(c["proposed"]) > 1 or any(w["result"] != 0 for w in o["wire"]))
        if v != "ok":
            feat = {"clause": v, "mode": c["mode"], "kind": _kind(o)}
            ctx.violation(feat, f"{v}: case={c} acceptor_view={o['ac']} wire={o['wire']} reply={o['reply']} requestor_view={o['rq']}", c)
    ctx.sample(obs[0])
    ctx.sample(obs[-1])
    ctx.assume("abstract syntaxes A-D are Verification, CT, MR storage, Patient Root FIND; transfer syntaxes T1-T3 implicit LE, explicit LE, explicit BE",
               "role clauses are judged on contexts whose abstract syntax is proposed once (one role reply per abstract syntax on the wire)")
    return ctx.finish(rule="all single-context cases of Negotiation.tla (TS lists x support x acceptor roles x proposed roles) plus seeded random "
                      "1-4 context cases incl. duplicates and unrestricted mode, negotiated on a real acceptor; non-trivial = roles proposed, several contexts or a rejection")
