"""C10 — see neg_common.py (spec/NegotiationOps.tla, Negotiation.tla, Trace_Negotiation.tla)."""
from neg_common import run as _run


def run(ctx):
    return _run(ctx, "C10")
