"""C08 — no peer behaviour keeps pynetdicom blocked past its configured timeouts.

MC  : spec/Stall.tla — provider / association / user threads of one node against a peer that keeps the connection open
      and stops at a PDU boundary, inside a header or inside a body, for ever or dribbling.  The code as found (reads
      inside a PDU have no deadline) is refuted by TLC (lasso for C08_Ends); restricted to boundary stalls it holds;
      with a read deadline it holds for every stall.
S2C : every (role, phase, cut, style) TLC enumerates is played by a raw peer against the real node with short timeouts.
C2S : the observation taken at the bound (call returned, threads ended, socket closed) is judged by Trace_Stall.
"""
from __future__ import annotations

import re
import threading
import warnings

from common import Ctx, MachineryError
from tlc import _P, must_ok, run_tlc
from trace import validate_traces


def cases(ctx):
    cfg = "SPECIFICATION CaseSpec\nCONSTANTS RecvDeadline = FALSE\n          ArtimEveryLoop = TRUE\n          ServerHandshakeDeadline = FALSE\n          Dribbles = 2\nINVARIANT Export\nCHECK_DEADLOCK FALSE\n"
    open(f"{ctx.work}/Stall_cases.cfg", "w").write(cfg)
    r = must_ok(run_tlc("Stall", f"{ctx.work}/Stall_cases.cfg", workdir=ctx.work, workers=1, timeout=600))
    ctx.add_tlc(r)
    seen, out = set(), []
    for m in re.finditer(r'<<\s*"CASE",', r.out):
        p = _P(r.out)
        p.i = m.start()
        v = p.value()[1]
        key = (v["role"], v["phase"], v["cut"], v["style"])
        if key not in seen:
            seen.add(key)
            out.append(dict(zip(("role", "phase", "cut", "style"), key)))
    if len(out) != 55:
        raise MachineryError(f"{len(out)} stall scenarios exported, expected 55")
    return out


def run(ctx: Ctx) -> int:
    warnings.simplefilter("ignore")
    thorough = ctx.tier == "thorough"
    r = must_ok(run_tlc("Stall", "Stall_ok.cfg", workdir=ctx.work, workers=4, timeout=900))
    ctx.add_tlc(r)
    if r.violated:
        ctx.violation({"clause": "model", "what": r.violated}, f"Stall.tla with a read deadline violates {r.violated}", {"trace": [l for l, _ in r.trace]})
    rb = must_ok(run_tlc("Stall", "Stall_boundary.cfg", workdir=ctx.work, workers=4, timeout=900))
    ctx.add_tlc(rb)
    if rb.violated:
        ctx.violation({"clause": "model-boundary", "what": rb.violated}, f"Stall.tla (as found) restricted to boundary stalls violates {rb.violated}", {"trace": [l for l, _ in rb.trace]})
    ra = must_ok(run_tlc("Stall", "Stall_asfound.cfg", workdir=ctx.work, workers=4, timeout=900))
    ctx.add_tlc(ra)
    if ra.violated != "C08_Ends":
        raise MachineryError(f"the as-found design (no read deadline) is not refuted by TLC: {ra.violated!r}")
    rn = must_ok(run_tlc("Stall", "Stall_noartim.cfg", workdir=ctx.work, workers=4, timeout=900))
    ctx.add_tlc(rn)
    if rn.violated != "C08_Ends":
        raise MachineryError(f"a provider that tests ARTIM only on idle loops is not refuted by TLC: {rn.violated!r}")
    ctx.cov["as_found_design_refuted_by"] = "C08_Ends (lasso: " + " -> ".join(l for l, _ in ra.trace[-5:]) + ")"
    from stall_lab import BOUND, run_case

    cs = cases(ctx)
    todo = [dict(c) for c in cs for _ in range(2 if thorough else 1)]
    obs, lock = [], threading.Lock()

    def worker(k):
        for c in todo[k::12]:
            try:
                o = run_case(c)
            except Exception as e:  # noqa: BLE001
                o = dict(c, harness_exc=f"{type(e).__name__}: {e}")
            with lock:
                obs.append(o)

    ts = [threading.Thread(target=worker, args=(k,)) for k in range(12)]
    [t.start() for t in ts]
    [t.join() for t in ts]
    bad = [o for o in obs if "harness_exc" in o]
    if len(bad) > 2:
        raise MachineryError(f"{len(bad)} runs failed in the harness: {bad[0]['harness_exc']}")
    obs = [o for o in obs if "harness_exc" not in o]
    tr = [{"id": j + 1, "role": o["role"], "phase": o["phase"], "cut": o["cut"], "style": o["style"], "returned": o["returned"], "nalive": len(o["alive"]),
           "sockopen": o["sockopen"], "established": o["established"]} for j, o in enumerate(obs)]
    vs = validate_traces(ctx, "Trace_Stall", tr, name="stall")
    for j, o in enumerate(obs):
        v = vs[j + 1][0]
        ctx.traces += 1
        ctx.case((o["role"], o["phase"], o["cut"], o["style"]), nontrivial=True)
        if v != "ok":
            ctx.violation({"clause": v, "role": o["role"], "phase": o["phase"], "cut": o["cut"]},
                          f"{v}: {o['role']} waiting in phase {o['phase']}, peer stops at {o['cut']} ({o['style']}) and keeps the connection open: {BOUND:.1f} s later "
                          f"call returned={o['returned']}, threads alive={o['alive']}, socket open={o['sockopen']}, provider in Sta{o['state']}, peer saw {o['peer_saw']}", o)
    ctx.cov["slowest_clean_end_s"] = max([o["elapsed"] for j, o in enumerate(obs) if vs[j + 1][0] == "ok"] or [0])
    ctx.sample(obs[0])
    ctx.assume("timeouts ACSE 0.6 s, DIMSE 0.6 s, network 0.8 s, connection 1 s; bound = their sum + 1.5 s", "loopback TCP, TCP_NODELAY; dribbled pieces 0.35 s apart",
               "one incomplete PDU per scenario (A-ASSOCIATE-RQ/AC, P-DATA-TF command / data set, A-RELEASE-RP)")
    return ctx.finish(rule="all 55 (role, phase, cut, style) of Stall.tla: 8 role/phase pairs x {boundary, header, body} x {silence, dribble}, Sta13 x {silence, flood}, the TLS handshake (both roles) and the release collision with a peer that then stays silent")
