"""C14 — concurrent acceptor associations never exceed the configured maximum.

MC  : spec/AcceptLimit.tla — N requests x all interleavings of {spawn, reading + decision, establish, rejected, end}:
      C14_Bound / C14_BoundCommitted / C14_Reason hold when the reading counts the alive acceptor threads (the code);
      counting only the established ones (check-then-act) is refuted.
S2C : one witness history per reachable state (TLC, VIEW without the history) is replayed on a real acceptor AE: raw
      requestors, the negotiation threads parked in EVT_ASYNC_OPS (just before the reading) and in EVT_ACSE_SENT (decision
      taken, is_established not yet set) and released in the history's order; established associations are counted after
      every step while all threads are parked.
C2S : Trace_Limit judges every replay (bound, reject reason, decision = the specification's reading) and free-running
      stress runs (n concurrent requestors, seeded stagger) whose established count is sampled continuously.
"""
from __future__ import annotations

import random
import re
import threading
import warnings

from common import Ctx, MachineryError
from tlc import _P, must_ok, run_tlc
from trace import validate_traces


def histories(ctx, cfg):
    r = must_ok(run_tlc("AcceptLimit", cfg, workdir=ctx.work, workers=1, timeout=1800))
    ctx.add_tlc(r)
    if r.violated:
        ctx.violation({"clause": "model", "what": r.violated}, f"AcceptLimit.tla ({cfg}) violates {r.violated}", {"trace": [l for l, _ in r.trace]})
        return []
    out = []
    for m in re.finditer(r'<<\s*"CASE",', r.out):
        p = _P(r.out)
        p.i = m.start()
        out.append([(e[0], int(e[1]), int(e[2])) for e in p.value()[1]])
    return out


def lifecycle(ctx: Ctx):
    """Lifecycle.tla: servers and associations of one AE (start_server, server.shutdown, connections, AE.associate, release,
    AE.shutdown) - the ground the admission rule stands on.  TLC checks the consequences for all short histories and simulates
    longer ones; they are run on a real AE and Trace_Lifecycle compares, step by step, what a peer sees with Apply().
    A difference is reported as drift of the life-cycle model (C14's own predicates are judged above)."""
    import os
    import threading
    from lifecycle_lab import LifecycleLab
    from tlc import read_sim_traces
    from trace import validate_traces

    thorough = ctx.tier == "thorough"
    r = must_ok(run_tlc("Lifecycle", "Lifecycle.cfg", workdir=ctx.work, workers=8, timeout=1500))
    ctx.add_tlc(r)
    if r.violated:
        ctx.violation({"where": "model", "invariant": r.violated}, f"Lifecycle.tla violates {r.violated}", r.trace)
        return
    sim = os.path.join(ctx.work, "lsim")
    os.makedirs(sim, exist_ok=True)
    n = 400 if thorough else 60
    must_ok(run_tlc("Lifecycle", "Lifecycle_sim.cfg", workdir=ctx.work, workers=1, simulate=f"file={sim}/tr,num={n}", depth=13, seed=ctx.seed + 141))
    hists = [[dict(o) for o in beh[-1][1]["hist"]] for beh in read_sim_traces(os.path.join(sim, "tr"))]
    hists = [h for h in hists if h]
    if len(hists) < n // 2:
        raise MachineryError(f"only {len(hists)} simulated life-cycle histories read")
    nthreads = 4
    outs = [[] for _ in range(nthreads)]
    errs = []

    def worker(k):
        lab = LifecycleLab()
        try:
            for ops in hists[k::nthreads]:
                try:
                    outs[k].append({"ops": ops, "obs": [lab.apply(op) for op in ops]})
                finally:
                    lab.reset()
        except Exception as e:  # noqa: BLE001
            errs.append(f"{type(e).__name__}: {e}")
        finally:
            lab.close()

    ts = [threading.Thread(target=worker, args=(k,)) for k in range(nthreads)]
    [t.start() for t in ts]
    [t.join() for t in ts]
    if errs:
        raise MachineryError("lifecycle lab: " + errs[0])
    obs = [o for out in outs for o in out]
    for k, o in enumerate(obs):
        o["id"] = k + 1
    vs = validate_traces(ctx, "Trace_Lifecycle", obs, name="lifecycle", timeout=1800)
    for o in obs:
        v, step = vs[o["id"]][0], int(vs[o["id"]][1])
        ctx.traces += 1
        ctx.case(("lifecycle", tuple((p["k"], p["x"], p["sv"]) for p in o["ops"])), nontrivial=any(p["k"] in ("aeshutdown", "stop") for p in o["ops"]))
        if v != "ok":
            ctx.drifted(f"life-cycle model {v} at step {step} of {[(p['k'], p['x'], p['sv']) for p in o['ops'][:step]]}: a peer sees {o['obs'][step - 1]}")
    ctx.cov["lifecycle_histories"] = len(obs)


def run(ctx: Ctx) -> int:
    warnings.simplefilter("ignore")
    thorough = ctx.tier == "thorough"
    r = must_ok(run_tlc("AcceptLimit", "AcceptLimit_estonly.cfg", workdir=ctx.work, workers=1, timeout=600))
    ctx.add_tlc(r)
    if r.violated not in ("C14_BoundCommitted", "C14_Bound"):
        raise MachineryError(f"a reading that counts only established associations is not refuted by TLC: {r.violated!r}")
    rt = must_ok(run_tlc("AcceptLimit", "AcceptLimit_tracked.cfg", workdir=ctx.work, workers=1, timeout=600))
    ctx.add_tlc(rt)
    if rt.violated not in ("C14_BoundCommitted", "C14_Bound"):
        raise MachineryError(f"a reading that counts only the associations of registered servers is not refuted by TLC: {rt.violated!r}")
    hs = histories(ctx, "AcceptLimit_ok.cfg")
    hs2 = histories(ctx, "AcceptLimit_ok2s.cfg")
    hsb = histories(ctx, "AcceptLimit_okbad.cfg")
    if thorough:
        hs5 = histories(ctx, "AcceptLimit_ok5.cfg")
    if ctx.violations:
        return ctx.finish(rule="model violated its own invariants")
    if len(hs) < 500:
        raise MachineryError(f"only {len(hs)} histories exported")
    from limit_lab import replay, stress

    rng = random.Random(ctx.seed + 14)
    # prefer histories in which the limit matters: somebody is rejected, or readings overlap
    def weight(h):
        return (sum(1 for a, _, _ in h if a == "rejected") * 2 + sum(1 for k in range(len(h) - 1) if h[k][0] == "check" and h[k + 1][0] == "check")
                + sum(3 for k, (a, _, _) in enumerate(h) if a == "restart" and any(b == "spawn" for b, _, _ in h[k + 1:]) and any(b == "establish" for b, _, _ in h[:k])))
    hs.sort(key=lambda h: (-weight(h), len(h)))
    hs2.sort(key=lambda h: (-weight(h), len(h)))
    hsb.sort(key=lambda h: (-weight(h), len(h)))
    if not thorough:
        pick = [(h, 2) for h in hs[:70] + rng.sample(hs[70:], 50)] + [(h, 1) for h in hs2[:40] + rng.sample(hs2[40:], 30)] + [(h, -2) for h in hsb[:40] + rng.sample(hsb[40:], 30)]
    else:
        pick = [(h, 2) for h in rng.sample(hs, 2500)] + [(h, 1) for h in rng.sample(hs2, 1500)] + [(h, 3) for h in rng.sample(hs5, 600)] + [(h, -2) for h in rng.sample(hsb, min(len(hsb), 1200))]
    obs, lock = [], threading.Lock()

    def worker(k):
        for h, mx in pick[k::8]:
            try:
                # (a negative maximum marks the histories of AcceptLimit_okbad.cfg: requests 2 and 4 also name a wrong called AE title)
                o = replay(h, abs(mx), bad=(2, 4) if mx < 0 else ())
                mx = abs(mx)
            except Exception as e:  # noqa: BLE001
                o = {"harness_exc": f"{type(e).__name__}: {e}"}
            with lock:
                obs.append((h, mx, o))

    ts = [threading.Thread(target=worker, args=(k,)) for k in range(8)]
    [t.start() for t in ts]
    [t.join() for t in ts]
    bad = [o for _, _, o in obs if "harness_exc" in o]
    if len(bad) > 3:
        raise MachineryError(f"{len(bad)} replays failed in the harness: {bad[0]['harness_exc']}")
    tr, back = [], {}
    for h, mx, o in obs:
        if "harness_exc" in o:
            continue
        rec = {"id": len(tr) + 1, "kind": "replay", "max": mx, "max_seen": o["max_seen"],
               "steps": [{"act": s["act"], "t": s["t"], "ok": s["ok"], "nest": len(s["est"]), "decision": (s["decision"] or [""])[0] if s["act"] == "check" else "", "bad": bool(s.get("bad")),
                          "rj": s["rj"] if s["act"] == "rejected" else []} for s in o["steps"]]}
        back[rec["id"]] = (h, o)
        tr.append(rec)
    for k in range(40 if thorough else 12):
        mx = rng.choice([1, 2, 3, 5])
        n = mx + rng.choice([0, 1, 2, 4, 8])
        s = stress(mx, n, ctx.seed * 100 + k)
        rec = {"id": len(tr) + 1, "kind": "stress", "max": mx, "max_seen": s["max_seen"], "accepted": s["accepted"], "nrejected": s["nrejected"], "n": n,
               "reasons": [list(x) for x in s["rejected"]]}
        back[rec["id"]] = (None, s)
        tr.append(rec)
    vs = validate_traces(ctx, "Trace_Limit", tr, name="limit")
    for rec in tr:
        v = vs[rec["id"]][0]
        h, o = back[rec["id"]]
        ctx.traces += 1
        ctx.case(("replay", rec["max"], tuple(h)) if h else ("stress", rec["max"], rec["n"], rec["id"]), nontrivial=(h is None) or any(a in ("rejected", "restart") for a, _, _ in h))
        if v == "ok":
            continue
        if v.startswith("DRIFT"):
            ctx.drifted(f"{v}: max={rec['max']} " + (f"history {h}: steps {[(s['act'], s['t'], s['ok'], s['est'], s['note']) for s in o['steps']]}" if h else f"stress {o}"))
            continue
        ctx.violation({"clause": v, "kind": rec["kind"]},
                      f"{v}: maximum_associations={rec['max']}: " + (f"history {h}: steps {[(s['act'], s['t'], s['est'], s['decision'], s['rj']) for s in o['steps']]}, most established at once {o['max_seen']}"
                                                                      if h else f"{rec['n']} concurrent requestors: most established at once {o['max_seen']}, accepted {o['accepted']}, reject reasons {o['rejected']}"),
                      {"history": h, "max": rec["max"]} if h else {"stress": o})
    ctx.sample({"history": back[1][0], "steps": back[1][1]["steps"][:6]})
    lifecycle(ctx)
    ctx.assume("negotiation threads are parked in user handlers (EVT_ASYNC_OPS before the reading, EVT_ACSE_SENT after the decision); raw requestors on loopback",
               "stress runs: arrivals staggered by up to 250 ms, associations held 25-75 ms, established count sampled every 0.5 ms and at every ESTABLISHED/RELEASED/ABORTED notification")
    return ctx.finish(rule="one witness history per reachable state of AcceptLimit.tla (4 requests, Max 2, one server restarted once; 3 requests, Max 1, two servers; thorough: also 5 requests, Max 3), sampled with preference for histories with rejections / overlapping readings; plus stress runs")
