"""C24 — SCU calls surface each response exactly once, in order, and fail cleanly.

MC  : spec/Scu.tla — the peer as environment sends any sequence of responses / invalid messages /
      sub-operation requests / silence; C24_OnceInOrder, C24_StopsAtFinal, C24_FailClean.
S2C : every terminal behaviour (peer script) is played to the real send_c_find / send_c_get /
      send_c_move iterators (Deflated transfer syntax so that identifiers can be undecodable) and the
      single-response send_* calls of a real requestor Association; the items are injected as P-DATA
      through the real DIMSE decoder; each response is tagged (ErrorComment) so that every yield is
      attributed to the item that produced it; ae._lock is sampled at every yield.
C2S : Trace_Scu judges the yields with the same predicates.
"""
from __future__ import annotations

import os
import re
import warnings
import zlib
from io import BytesIO

from common import Ctx, MachineryError
from tlc import _P, must_ok, run_tlc
from trace import validate_traces
import pn  # noqa: F401

DEFLATED = "1.2.840.10008.1.2.1.99"
IMPL = "1.2.840.10008.1.2"
ST = {"P": 0xFF00, "PU": 0xFF00, "S": 0x0000, "W": 0xB000, "F": 0xA700, "FU": 0xA700, "C": 0xFE00, "WL": 0xB001}
GARBAGE = b"\xff\xfe\x00\x01 not a deflate stream"


def model_scripts(ctx: Ctx, op: str, n: int):
    cfg = os.path.join(ctx.work, f"MC_Scu_{op}.cfg")
    with open(cfg, "w") as f:
        f.write(f'SPECIFICATION Spec\nCONSTANTS Op = "{op}"\n MaxItems = {n}\n')
        for inv in ("C24_OnceInOrder", "C24_StopsAtFinal", "C24_FailClean", "Export"):
            f.write(f"INVARIANT {inv}\n")
    r = must_ok(run_tlc("Scu", cfg, workdir=ctx.work, workers=1, timeout=1800))
    ctx.add_tlc(r)
    if r.violated:
        ctx.violation({"where": "model", "op": op, "invariant": r.violated}, f"Scu.tla ({op}) violates {r.violated}", r.trace)
        return []
    out = []
    for m in re.finditer(r'<<\s*"CASE",', r.out):
        p = _P(r.out)
        p.i = m.start()
        out.append(list(p.value()[2]))
    return out


def deflate(b: bytes) -> bytes:
    c = zlib.compressobj(wbits=-zlib.MAX_WBITS)
    out = c.compress(b) + c.flush()
    return out + (b"\x00" if len(out) % 2 else b"")


def play_iter(op: str, script):
    from pydicom.dataset import Dataset
    from pynetdicom import evt
    from pynetdicom.dsutils import encode
    from pynetdicom.dimse_primitives import C_ECHO, C_STORE
    from scu_rig import CT_STORAGE, PATIENT_ROOT_FIND, PATIENT_ROOT_GET, PATIENT_ROOT_MOVE, REPOSITORY_QUERY, ScuRig, find_rsp, get_rsp, move_rsp
    from scp_rig import ct_dataset
    from c19 import pdatas_for

    uid = {"FIND": PATIENT_ROOT_FIND, "FINDREPO": REPOSITORY_QUERY, "GET": PATIENT_ROOT_GET, "MOVE": PATIENT_ROOT_MOVE}[op]
    rig = ScuRig([(1, uid, DEFLATED, True, False), (3, CT_STORAGE, IMPL, False, True)], dimse_timeout=0.05)
    a = rig.assoc
    stores = []
    a.bind(evt.EVT_C_STORE, lambda event: stores.append(1) or 0x0000)
    ident = Dataset()
    ident.QueryRetrieveLevel = "PATIENT"
    ident.PatientID = "1234"
    good = deflate(encode(ident, False, True))
    failed = Dataset()
    failed.FailedSOPInstanceUIDList = ["1.2.3"]
    failed_b = deflate(encode(failed, False, True))
    mk = {"FIND": find_rsp, "FINDREPO": find_rsp, "GET": get_rsp, "MOVE": move_rsp}[op]
    for k, it in enumerate(script, 1):
        if it == "SILENCE":
            break                       # nothing more arrives: the DIMSE timeout ends the wait
        if it == "STORE":
            r = C_STORE()
            r.MessageID, r.AffectedSOPClassUID, r.AffectedSOPInstanceUID, r.Priority = 50 + k, CT_STORAGE, f"1.2.3.{k}", 2
            r.DataSet = BytesIO(encode(ct_dataset(f"1.2.3.{k}"), True, True))
            pds = pdatas_for(r, 3, 3)
        elif it == "WRONG":
            r = C_ECHO()
            r.MessageIDBeingRespondedTo, r.Status = 1, 0x0000
            pds = pdatas_for(r, 1, 1)
        else:
            idb = None
            if it == "P" and op in ("FIND", "FINDREPO"):
                idb = good
            elif it == "PU":
                idb = GARBAGE
            elif it in ("W", "F", "C") and op in ("GET", "MOVE"):
                idb = failed_b
            elif it == "FU":
                idb = GARBAGE
            r = mk(None if it == "INV" else ST[it], identifier=idb, sop_class=uid)
            if it != "INV":
                r.ErrorComment = f"k{k}"
            pds = pdatas_for(r, 1, 1)
        for p in pds:
            a.dimse.receive_primitive(p)
    q = Dataset()
    q.QueryRetrieveLevel = "PATIENT"
    q.PatientID = "*"
    exc = ""
    y, locks = [], []
    try:
        gen = a.send_c_find(q, uid) if op in ("FIND", "FINDREPO") else a.send_c_get(q, uid) if op == "GET" else a.send_c_move(q, "DEST", uid)
        for status, identifier in gen:
            locks.append(bool(rig.ae._lock.locked()))
            if "Status" in status:
                item = int(str(status.get("ErrorComment", "k0"))[1:]) if "ErrorComment" in status else 0
                st = int(status.Status)
            else:
                # the empty status: attributed to the first item that is not a response
                item = next((k for k, it in enumerate(script, 1) if it in ("INV", "WRONG", "SILENCE")), 0)
                st = -1
            if identifier is None:
                idc = "none"
            elif op in ("FIND", "FINDREPO"):
                idc = "same" if identifier == ident else "diff"
            else:
                idc = "same" if identifier == failed else "diff"
            y.append({"st": st, "ident": idc, "item": item})
            if len(y) > len(script) + 3:
                break
    except Exception as e:  # noqa: BLE001
        exc = f"{type(e).__name__}: {e}"
    locks.append(bool(rig.ae._lock.locked()))      # and once the iterator is finished / abandoned
    return {"op": op, "script": list(script), "y": y, "aborted": bool(rig.aborts), "locks": locks, "exc": exc, "stores": len(stores),
            "checkpoint_set": bool(a._reactor_checkpoint.is_set())}


def play_single(call: str, item: str):
    from pydicom.dataset import Dataset
    from pynetdicom.dimse_primitives import C_ECHO, C_STORE, C_FIND, N_ACTION, N_CREATE, N_DELETE, N_EVENT_REPORT, N_GET, N_SET
    from scu_rig import CT_STORAGE, ScuRig
    from scp_rig import ct_dataset
    from c19 import pdatas_for

    MPPS, MPPS_GET, COMMIT, FILM = "1.2.840.10008.3.1.2.3.3", "1.2.840.10008.3.1.2.3.4", "1.2.840.10008.1.20.1", "1.2.840.10008.5.1.1.1"
    table = {
        "send_c_echo": ("1.2.840.10008.1.1", C_ECHO, lambda a: a.send_c_echo()),
        "send_c_store": (CT_STORAGE, C_STORE, lambda a: a.send_c_store(ct_dataset("1.2.3.4"))),
        "send_n_get": (MPPS_GET, N_GET, lambda a: a.send_n_get([(0x0010, 0x0010)], MPPS_GET, "1.2.3")),
        "send_n_set": (MPPS, N_SET, lambda a: a.send_n_set(ct_dataset("1.2.3.4"), MPPS, "1.2.3")),
        "send_n_action": (COMMIT, N_ACTION, lambda a: a.send_n_action(None, 1, COMMIT, "1.2.3")),
        "send_n_create": (MPPS, N_CREATE, lambda a: a.send_n_create(None, MPPS, "1.2.3")),
        "send_n_delete": (FILM, N_DELETE, lambda a: a.send_n_delete(FILM, "1.2.3")),
        "send_n_event_report": (COMMIT, N_EVENT_REPORT, lambda a: a.send_n_event_report(None, 1, COMMIT, "1.2.3")),
    }
    uid, cls, fn = table[call]
    rig = ScuRig([(1, uid, IMPL, True, True)], dimse_timeout=0.05)
    a = rig.assoc
    if item != "SILENCE":
        if item == "WRONG":
            r = C_FIND()
            r.MessageIDBeingRespondedTo, r.Status = 1, 0x0000
        else:
            r = cls()
            r.MessageIDBeingRespondedTo = 1
            if item in ("SU", "WU"):
                # a Success / Warning (0107H) response whose reply data set cannot be decoded (a sequence of undefined length
                # whose content is not an item)
                from io import BytesIO
                r.Status = 0x0000 if item == "SU" else 0x0107
                junk = BytesIO(b"\x08\x00\x15\x11\xff\xff\xff\xff" + b"\x01\x02\x03\x04\x05\x06\x07\x08")
                setattr(r, {N_ACTION: "ActionReply", N_EVENT_REPORT: "EventReply"}.get(cls, "AttributeList"), junk)
            elif item != "INV":
                r.Status = 0x0000 if item == "S" else 0x0110 if cls not in (C_ECHO, C_STORE) else 0xA700 if cls is C_STORE else 0x0122
            if cls in (N_ACTION,) and item != "INV":
                r.ActionTypeID = 1
            if cls is N_EVENT_REPORT and item != "INV":
                r.EventTypeID = 1
        for p in pdatas_for(r, 1, 1):
            a.dimse.receive_primitive(p)
    exc = ""
    st, second_none = -2, True
    try:
        res = fn(a)
        status = res[0] if isinstance(res, tuple) else res
        second_none = res[1] is None if isinstance(res, tuple) else True
        st = int(status.Status) if "Status" in status else -1
    except Exception as e:  # noqa: BLE001
        exc = f"{type(e).__name__}: {e}"
    return {"op": "SINGLE", "call": call, "script": [item], "y": [{"st": st, "ident": "none" if second_none else "diff", "item": 1}],
            "aborted": bool(rig.aborts), "locks": [bool(rig.ae._lock.locked())], "exc": exc, "stores": 0, "checkpoint_set": bool(a._reactor_checkpoint.is_set())}


def run(ctx: Ctx) -> int:
    warnings.simplefilter("ignore")
    thorough = ctx.tier == "thorough"
    obs = []
    for op in ("FIND", "FINDREPO", "GET", "MOVE"):
        scripts = model_scripts(ctx, op, 5 if thorough else 4)
        if ctx.violations:
            return ctx.finish(rule="model violated its own invariants")
        # a script with no final item ends in silence for the real iterator: make that explicit
        seen = set()
        for sc in scripts:
            if not any(it in ("S", "W", "F", "FU", "C", "INV", "WRONG", "SILENCE") or (it == "WL" and op != "FINDREPO") for it in sc):
                sc = sc + ["SILENCE"]
            if tuple(sc) in seen:
                continue
            seen.add(tuple(sc))
            obs.append(play_iter(op, sc))
    singles = model_scripts(ctx, "SINGLE", 1)
    for call in ("send_c_echo", "send_c_store", "send_n_get", "send_n_set", "send_n_action", "send_n_create", "send_n_delete", "send_n_event_report"):
        for sc in singles:
            if sc[0] in ("SU", "WU") and call not in ("send_n_get", "send_n_set", "send_n_action", "send_n_create", "send_n_event_report"):
                continue          # (these responses carry no reply data set)
            obs.append(play_single(call, sc[0]))
    for k, o in enumerate(obs):
        o["id"] = k + 1
    keep = ("id", "op", "script", "y", "aborted", "locks")
    verdicts = validate_traces(ctx, "Trace_Scu", [{k: o[k] for k in keep} for o in obs], timeout=1800)
    for o in obs:
        v = verdicts[o["id"]][0]
        ctx.traces += 1
        ctx.case((o["op"], o.get("call", ""), tuple(o["script"])), nontrivial=len(o["script"]) > 1 or o["script"][0] not in ("S",))
        if v == "ok" and o["exc"]:
            v = "C24_Raised"
        if v != "ok":
            first_bad = next((it for it in o["script"] if it in ("PU", "FU", "SU", "WU", "INV", "WRONG", "SILENCE", "STORE", "WL")), "plain")
            ctx.violation({"clause": v, "op": o["op"] if o["op"] != "SINGLE" else o["call"], "feature": first_bad},
                          f"{v}: {o.get('call', o['op'])} peer script {o['script']}: yielded={[(hex(x['st']) if x['st'] >= 0 else 'EMPTY', x['ident'], x['item']) for x in o['y']]} "
                          f"aborted={o['aborted']} lock held at yields={o['locks']} exc={o['exc']}", {"op": o["op"], "call": o.get("call"), "script": o["script"]})
    ctx.sample(obs[0])
    ctx.sample(obs[len(obs) // 3])
    ctx.assume("peer messages are injected as P-DATA through the real DIMSE decoder before the call; dimse_timeout 0.05 s stands for the configured timeout",
               "C-FIND/GET/MOVE contexts use the Deflated transfer syntax so that an identifier can be undecodable")
    return ctx.finish(rule="every peer script of Scu.tla up to the item bound (responses, undecodable identifiers, 0xB001, invalid / unexpected messages, sub-operation requests, silence) "
                      "played to the real iterators and to the eight single-response calls; non-trivial = more than one item or a non-success item")
