"""C12 — association requests and responses pynetdicom sends are structurally conformant.

MC  : spec/Gen_Config.tla enumerates requestor/acceptor configurations (title shapes, 1..129 contexts,
      repeated abstract syntaxes, maximum lengths, every subset of extended-negotiation kinds,
      acceptor support shapes); spec/PduLayout.tla defines WellFormedRQ / WellFormedAC.
S2C : each configuration is given to the real AE.associate against a real acceptor AE on loopback; the
      A-ASSOCIATE-RQ bytes actually sent and the A-ASSOCIATE-AC bytes actually received are captured
      through EVT_DATA_SENT / EVT_DATA_RECV.  A configuration the API refuses is counted, not judged.
      Negotiation cases with role-based rejections add A-ASSOCIATE-AC shapes.
C2S : Trace_Pdu (TLC) reads the captured bytes with PduLayout's structural reader and evaluates the
      conformance predicates.
"""
from __future__ import annotations

import random
import re
import threading
import time
import warnings

from common import Ctx, MachineryError
from tlc import _P, must_ok, run_tlc
from trace import validate_traces
import pn  # noqa: F401

TITLE = {"one": "A", "max16": "ABCDEFGHIJKLMNOP", "padded": "  PAD  ", "inner_space": "MY AE 1", "over16_padded": "  STORESCP_ARCHIVE ",
         "over16": "ABCDEFGHIJKLMNOPQ", "spaces_only": "    "}
CT = "1.2.840.10008.5.1.4.1.1.2"
TS3 = ["1.2.840.10008.1.2", "1.2.840.10008.1.2.1", "1.2.840.10008.1.2.2"]


def storage_uids(n):
    from pynetdicom.sop_class import _STORAGE_CLASSES

    u = sorted(set(_STORAGE_CLASSES.values()))
    if len(u) < n:
        raise MachineryError("not enough storage SOP classes")
    return [CT] + [x for x in u if x != CT][: n - 1]


def requestor_run(c, server_port, acceptor_ae):
    """Returns dict(rq=bytes|None, ac=bytes|None, refused=str)."""
    from pynetdicom import AE, build_context, build_role, evt
    from pynetdicom.pdu_primitives import (AsynchronousOperationsWindowNegotiation, SOPClassCommonExtendedNegotiation, SOPClassExtendedNegotiation,
                                           UserIdentityNegotiation)

    cap = {}
    try:
        ae = AE(TITLE[c["calling"]])
        ae.acse_timeout, ae.dimse_timeout, ae.network_timeout = 3, 3, 3
        if c["ver"] == "none":
            ae.implementation_version_name = None
        elif c["ver"] == "long16":
            ae.implementation_version_name = "ABCDEFGHIJKLMNOP"
        n = c["n"]
        if c["shape"] == "distinct":
            cxs = [build_context(u, TS3[:1]) for u in storage_uids(n)]
        elif c["shape"] == "same_abstract":
            cxs = [build_context(CT, [TS3[k % 3]]) for k in range(n)]
        elif c["shape"] in ("no_ts", "no_abstract"):
            from pynetdicom.presentation import PresentationContext
            cxs = [build_context(u, TS3[:1]) for u in storage_uids(n)]
            bare = PresentationContext()
            if c["shape"] == "no_ts":
                bare.abstract_syntax = cxs[-1].abstract_syntax
            else:
                bare.transfer_syntax = TS3[:1]
            cxs[-1] = bare
        else:
            cxs = [build_context(u, TS3) for u in storage_uids(n)]
        # contexts that carry an ID from elsewhere (an earlier association's accepted_contexts, or set by the caller)
        origin = c.get("ids", "fresh")
        for k, cx in enumerate(cxs):
            if origin == "reused" and k < 64:
                cx.context_id = 4 * k + 1
            elif origin == "mixed" and k >= 1:
                cx.context_id = 2 * (k - 1) + 1 if k <= 127 else 255
            elif origin == "dup":
                cx.context_id = 1
        ext = []
        if "role" in c["ext"]:
            ext.append(build_role(CT, scu_role=True, scp_role=True))
        if "async" in c["ext"]:
            a = AsynchronousOperationsWindowNegotiation()
            a.maximum_number_operations_invoked, a.maximum_number_operations_performed = 2, 3
            ext.append(a)
        if "sopext" in c["ext"]:
            s = SOPClassExtendedNegotiation()
            s.sop_class_uid, s.service_class_application_information = CT, b"\x01\x02"
            ext.append(s)
        if "common" in c["ext"]:
            s = SOPClassCommonExtendedNegotiation()
            s.sop_class_uid, s.service_class_uid = CT, "1.2.840.10008.4.2"
            s.related_general_sop_class_identification = ["1.2.840.10008.5.1.4.1.1.88.22"]
            ext.append(s)
        if "identity" in c["ext"]:
            u = UserIdentityNegotiation()
            u.user_identity_type, u.primary_field = 1, b"user"
            ext.append(u)
        maxpdu = {"zero": 0, "default": 16382, "u32max": 4294967295, "small": 1}[c["maxpdu"]]

        def sent(event):
            if event.data and event.data[0] == 1 and "rq" not in cap:
                cap["rq"] = bytes(event.data)

        def recv(event):
            if event.data and event.data[0] == 2 and "ac" not in cap:
                cap["ac"] = bytes(event.data)

        hs = [(evt.EVT_DATA_SENT, sent), (evt.EVT_DATA_RECV, recv)]
        given = cxs
        if origin == "edited" and c["shape"] in ("distinct", "many_ts") and len(cxs) <= 128:
            ae.requested_contexts = cxs
            given = None

            def edit(event):
                # the connection is open, the A-ASSOCIATE-RQ not yet written
                for cx in list(ae.requested_contexts)[:2]:
                    ae.remove_requested_context(cx.abstract_syntax, list(cx.transfer_syntax))
            hs.append((evt.EVT_CONN_OPEN, edit))
        assoc = ae.associate("127.0.0.1", server_port, contexts=given, ae_title=TITLE[c["called"]], max_pdu=maxpdu, ext_neg=ext, evt_handlers=hs)
        if assoc.is_established:
            assoc.release()
        elif not (assoc.is_aborted or assoc.is_rejected or assoc.is_released):
            assoc.abort()
        return {"rq": cap.get("rq"), "ac": cap.get("ac"), "refused": ""}
    except Exception as e:  # noqa: BLE001   the API does not accept this configuration
        return {"rq": cap.get("rq"), "ac": cap.get("ac"), "refused": f"{type(e).__name__}: {e}"[:160]}


def configure_acceptor(lab, c):
    from pynetdicom import build_context

    uids = storage_uids(max(c["n"], 3))
    kind = c["acc"]
    if kind == "none":
        cxs = [build_context("1.2.840.10008.1.1")]
    elif kind == "ts_mismatch":
        cxs = [build_context(u, "1.2.840.10008.1.2.4.50") for u in uids]
    else:
        cxs = [build_context(u, TS3) for u in uids]
        if kind == "some_roles_off":
            cxs[0].scu_role, cxs[0].scp_role = False, False
            cxs[1].scu_role, cxs[1].scp_role = True, True
    lab.server.contexts = cxs
    lab.ae.require_calling_aet = []
    lab.ae.require_called_aet = False
    lab.ae.maximum_pdu_size = 16382
    del lab.acc_views[:]


def run(ctx: Ctx) -> int:
    from neg_lab import NegLab

    warnings.simplefilter("ignore")
    r = must_ok(run_tlc("Gen_Config", workdir=ctx.work, workers=1))
    ctx.add_tlc(r)
    cases = []
    for m in re.finditer(r'<<\s*"CASE",', r.out):
        p = _P(r.out)
        p.i = m.start()
        v = p.value()[1]
        cases.append({**{k: v[k] for k in ("calling", "called", "n", "shape", "maxpdu", "ver", "acc", "ids")}, "ext": sorted(v["ext"])})
    if len(cases) < 100:
        raise MachineryError(f"only {len(cases)} configurations exported")
    if ctx.tier == "thorough":
        rng = random.Random(ctx.seed + 12)
        opts = {"calling": list(TITLE), "called": ["max16", "padded", "one"], "n": [1, 2, 3, 127, 128, 129], "shape": ["distinct", "same_abstract", "many_ts", "many_ts", "no_ts", "no_abstract"],
                "maxpdu": ["zero", "default", "u32max", "small"], "ver": ["default", "none", "long16"], "acc": ["all", "none", "some_roles_off", "ts_mismatch"],
                "ids": ["fresh", "fresh", "reused", "mixed", "dup", "edited"]}
        for _ in range(600):
            c = {k: rng.choice(v) for k, v in opts.items()}
            c["ext"] = sorted(x for x in ("role", "async", "sopext", "common", "identity") if rng.random() < 0.4)
            cases.append(c)
    lab = NegLab()
    obs, refused = [], 0
    try:
        for c in cases:
            configure_acceptor(lab, c)
            o = requestor_run(c, lab.port, lab.ae)
            o["c"] = c
            if o["refused"] and not o["rq"]:
                refused += 1
                ctx.sample({"refused": c, "why": o["refused"]}, limit=5)
                continue
            if not o["rq"]:
                ctx.count("nothing_sent")
                continue
            obs.append(o)
    finally:
        lab.close()
    ctx.cov["api_refused"] = refused
    if len(obs) < len(cases) // 3:
        raise MachineryError(f"only {len(obs)} of {len(cases)} configurations produced an A-ASSOCIATE-RQ")
    traces = []
    for k, o in enumerate(obs):
        o["id"] = k + 1
        traces.append({"id": o["id"], "kind": "c12", "rq": list(o["rq"]), "ac": list(o["ac"] or b""), "pdu": "", "enc": [], "enc_ok": True, "dec_eq": True,
                       "reenc_ok": True, "ndiff": 0, "exc": ""})
    verdicts = validate_traces(ctx, "Trace_Pdu", traces, timeout=3000)
    for o in obs:
        v = verdicts[o["id"]][1]
        c = o["c"]
        ctx.traces += 1
        ctx.case(tuple(sorted((k, str(x)) for k, x in c.items())), nontrivial=c["n"] > 1 or bool(c["ext"]) or c["calling"] not in ("max16",) or c["acc"] != "all")
        if v != "ok":
            ctx.violation({"clause": v, "calling": c["calling"] if "RQ" in v else "*", "n": c["n"] if c["n"] > 128 else "*", "acc": c["acc"] if "AC" in v else "*",
                           "ext": ",".join(c["ext"]) if "RQ_Structure" in v else "*"},
                          f"{v}: configuration {c}: A-ASSOCIATE-RQ {len(o['rq'])} bytes (first 80: {o['rq'][:80].hex()}), A-ASSOCIATE-AC {len(o['ac'] or b'')} bytes", c)
    ctx.sample({"c": obs[0]["c"], "rq_len": len(obs[0]["rq"]), "ac_len": len(obs[0]["ac"] or b"")})
    ctx.assume("bytes are captured with EVT_DATA_SENT/EVT_DATA_RECV of the real requestor; a configuration refused by the API (exception) is outside the quantifier")
    return ctx.finish(rule="configurations of Gen_Config (one-group-at-a-time variations around two bases, all 32 ext_neg subsets; + 600 random product points in thorough) sent by the real "
                      "AE.associate to a real acceptor; non-trivial = anything but the plain base configuration")
