"""Shared driver for C06 / C27 (and the scenario source of C26): two real AEs on loopback under the recorder.

MC  : spec/Assoc.tla instantiated as a requestor/acceptor pair joined by FIFO channels (user scripts:
      release / abort / echo on the requestor, abort / release by a second thread on the acceptor,
      accept / reject policy, one timeout): C06_OneTerminal, C06_Agreement, C06_NoLeak on quiescent
      states, modulo the crash signatures of known_findings.json (C05).
S2C : spec/Scenario.tla enumerates the user scripts (requestor operations, ending, acceptor handler
      behaviour, second-thread action and moment, rejection); each is run on two real AEs with seeded
      random delays injected at every notification point.
C2S : the recorded notification history of every association is judged by Trace_Notify (per-transition
      conformance with ULTable, C27_* history predicates, one terminal event), the pair outcome by
      Trace_Pair (C06_Agreement, termination in time, no thread / socket left).
"""
from __future__ import annotations

import os
import random
import re
import threading
import time
import warnings

from common import Ctx, MachineryError, VERIF
from tlc import _P, must_ok, run_tlc
from trace import validate_traces
import pn  # noqa: F401

KIND = {"EVT_CONN_OPEN": "open", "EVT_CONN_CLOSE": "close", "EVT_DATA_SENT": "dsent", "EVT_DATA_RECV": "drecv", "EVT_PDU_SENT": "psent", "EVT_PDU_RECV": "precv",
        "EVT_REQUESTED": "requested", "EVT_ACCEPTED": "accepted", "EVT_REJECTED": "rejected", "EVT_ESTABLISHED": "established", "EVT_RELEASED": "released",
        "EVT_ABORTED": "aborted"}
MOMENT = {"early": 0.0, "mid": 0.01, "late": 0.04}

PAIR_MODULE = """---- MODULE MC_Pair ----
EXTENDS Assoc
MCNodes == {{"R", "A"}}
MCRole == [n \\in MCNodes |-> IF n = "R" THEN "requestor" ELSE "acceptor"]
MCOther == [n \\in MCNodes |-> IF n = "R" THEN "A" ELSE "R"]
MCUserOps == [n \\in MCNodes |-> IF n = "R" THEN {{{rops}}} ELSE {{{aops}}}]
MCPolicy == [n \\in MCNodes |-> {{"accept", "reject"}}]
MCHandlerAbort == [n \\in MCNodes |-> {{FALSE}}]
MCFrames == {{}}
MCKnown == {{{known}}}
MCUserOps2 == [n \\in MCNodes |-> IF n = "R" THEN {{{rops2}}} ELSE {{}}]
View == <<[n \\in Nodes |-> [nd[n] EXCEPT !.sent = <<>>]], wire, weof, npeer, ntick>>
====
"""
PAIR_CFG = """SPECIFICATION Spec
CONSTANTS Nodes <- MCNodes
          Role <- MCRole
          Other <- MCOther
          Adversary = FALSE
          PeerFrames <- MCFrames
          MaxPeer = 0
          MaxTick = {maxtick}
          UserOps <- MCUserOps
          MaxOps = 1
          Policy <- MCPolicy
          KnownCrash <- MCKnown
          HandlerAbort <- MCHandlerAbort
VIEW View
INVARIANT C05_DefinedEventsOnly
INVARIANT C06_OneTerminal
INVARIANT C06_OneFlag
INVARIANT C06_Agreement
INVARIANT C06_NoLeak
"""


def pair_model(ctx: Ctx, thorough, extra=(), atomic=True, second=(), discard=False):
    """second: what a second user thread on the requestor may call (the pair model then has two user threads there)."""
    import json
    known = [k for k in json.load(open(os.path.join(VERIF, "known_findings.json")))["findings"] if k["property"] == "C05" and k["status"] == "open"]
    if discard:
        known = []          # the proposed repair (proposed/README.md): no crash signature is tolerated
    ks = ", ".join([f'<<"{k["signature"]["role"]}", {k["signature"]["event"]}, {k["signature"]["state"]}>>' for k in known]
                   + [f'<<"{a}", {b}, {c}>>' for a, b, c in extra])
    q = lambda xs: ", ".join(f'"{x}"' for x in xs)  # noqa: E731
    with open(os.path.join(ctx.work, "MC_Pair.tla"), "w") as f:
        f.write(PAIR_MODULE.format(rops=q(["release", "abort", "echo"]), aops=q(["abort", "release"]), known=ks, rops2=q(list(second))).replace("====\n", "MCNonAtomic == FALSE\nMCDiscard == TRUE\n====\n"))
    with open(os.path.join(ctx.work, "MC_Pair.cfg"), "w") as f:
        cfg = PAIR_CFG.format(maxtick=1)
        if second:
            cfg = cfg.replace("          HandlerAbort <- MCHandlerAbort\n", "          HandlerAbort <- MCHandlerAbort\n          UserOps2 <- MCUserOps2\n")
        if discard:
            cfg = cfg.replace("          HandlerAbort <- MCHandlerAbort\n", "          HandlerAbort <- MCHandlerAbort\n          DiscardUndefinedLocal <- MCDiscard\n")
        if not atomic:
            # abort() and the reactor's release branch in two steps each (no lock in the code): only the one-outcome invariants
            cfg = cfg.replace("          HandlerAbort <- MCHandlerAbort\n", "          HandlerAbort <- MCHandlerAbort\n          AtomicOutcome <- MCNonAtomic\n")
            cfg = cfg.replace("INVARIANT C05_DefinedEventsOnly\n", "").replace("INVARIANT C06_Agreement\n", "").replace("INVARIANT C06_NoLeak\n", "")
        f.write(cfg)
    r = must_ok(run_tlc("MC_Pair", "MC_Pair.cfg", workdir=ctx.work, spec_dir=ctx.work, workers=16, timeout=2400))
    ctx.add_tlc(r)
    return r


def scenarios(ctx: Ctx):
    r = must_ok(run_tlc("Scenario", workdir=ctx.work, workers=1, timeout=600))
    ctx.add_tlc(r)
    out = []
    for m in re.finditer(r'<<\s*"CASE",', r.out):
        p = _P(r.out)
        p.i = m.start()
        v = p.value()[1]
        out.append({"ops": list(v["ops"]), "end": v["end"], "acc": v["acc"], "side": None if v["side"] == "none" else (v["side"], MOMENT[v["moment"]]),
                    "reject": False if v["reject"] == "no" else v["reject"], "moment": v["moment"]})
    if len(out) < 500:
        raise MachineryError(f"only {len(out)} scenarios exported")
    return out


def history(events):
    h = []
    for e in events:
        n = e["ev"]
        if n == "EVT_FSM_TRANSITION":
            h.append({"k": "fsm", "a": e["state"], "b": e["event"], "c": e["next"], "d": e["action"]})
        elif n in KIND:
            h.append({"k": KIND[n], "a": int(e.get("type", 0)), "b": 0, "c": 0, "d": ""})
    return h


def terminal_info(events):
    """(terminal notifications with the function reporting each, the full call sites, how a second report relates to the
    first: "race" = the public call (or internal thread) that produced it was already running when the first was made,
    "sequential" = the call began after the first report, or both reports come from one thread - no concurrency is needed
    to explain it)."""
    terms = [e for e in events if e["ev"] in ("EVT_ABORTED", "EVT_RELEASED", "EVT_REJECTED")]
    short = "+".join(f"{e['ev'][4:]}@{e.get('site', '?').split('<')[0]}" for e in terms) or "none"
    full = "+".join(f"{e['ev'][4:]}@{e.get('site', '?')}" for e in terms) or "none"
    how = "single"
    if len(terms) > 1:
        e1, e2 = terms[0], terms[1]
        calls = [e for e in events if e["ev"] == "USER_CALL" and e["th"] == e2["th"] and e["seq"] < e2["seq"]]
        if e1["th"] == e2["th"]:
            how = "sequential"          # both reports by one thread, one after the other
        else:
            how = "race" if not calls or calls[-1]["seq"] < e1["seq"] else "sequential"
    return short, full, how


def run_scenarios(ctx: Ctx, scs, seed, max_delay=0.003, delay_prob=0.25, nthreads=8, raises_for=None):
    from recorder import Recorder
    from pair_lab import run_scenario

    rec = Recorder(seed=seed, max_delay=max_delay, delay_prob=delay_prob)
    outs = [[] for _ in range(nthreads)]
    with rec:
        def worker(k):
            for sc in scs[k::nthreads]:
                box = {}

                def one(sc=sc, box=box):
                    try:
                        box["o"] = run_scenario(dict(sc), timeout=0.8)
                    except Exception as e:  # noqa: BLE001
                        box["o"] = {"sc": sc, "harness_exc": f"{type(e).__name__}: {e}"}

                t = threading.Thread(target=one, name=f"ScenarioRun{k}", daemon=True)
                t.start()
                t.join(25)
                if t.is_alive():
                    # a public API call that never returned (the timeouts in play are 0.8 s): the C06/C08 property itself
                    import sys, traceback
                    fr = sys._current_frames().get(t.ident)
                    where = "".join(traceback.format_stack(fr)[-4:]) if fr else "?"
                    dead = {"present": True, "released": False, "aborted": False, "rejected": False, "established": False, "alive": True, "sockopen": False, "state": 0}
                    outs[k].append({"sc": dict(sc), "r": dead, "a": dict(dead, alive=False), "results": [("hung", where[-600:])], "elapsed": 25.0, "in_time": False,
                                    "rid": 0, "aid": 0, "raiser_calls": 0, "hung_at": where[-600:]})
                else:
                    outs[k].append(box["o"])
        ts = [threading.Thread(target=worker, args=(k,), name=f"Scenario{k}") for k in range(nthreads)]
        [t.start() for t in ts]
        [t.join() for t in ts]
        time.sleep(0.2)
    bad = [o for out in outs for o in out if "harness_exc" in o]
    if len(bad) > 3:
        raise MachineryError(f"{len(bad)} scenarios failed in the harness: {bad[0]['harness_exc']}")
    obs = [o for out in outs for o in out if "harness_exc" not in o]
    return obs, rec


def judge(ctx: Ctx, obs, rec, group):
    by = rec.by_assoc()
    crashed = {}
    for th, msg in rec.crashes:
        crashed.setdefault(getattr(th, "name", "?"), msg)
    pair_tr, hist_tr, owner = [], [], {}

    def cause(o):
        """Which thread of this scenario died with an exception (the root of most C06 failures: a C05 crash)."""
        out = []
        for role, uid in (("requestor", o["rid"]), ("acceptor", o["aid"])):
            for msg in rec.crash_by_assoc.get(uid, []) if uid else []:
                m = re.search(r"Invalid event 'Evt(\d+)' for the current state 'Sta(\d+)'", msg)
                out.append(f"{role} Evt{m.group(1)}@Sta{m.group(2)}" if m else f"{role} {msg.split(':')[0]}")
        return "+".join(sorted(set(out))) or "none"

    for k, o in enumerate(obs):
        o["id"] = k + 1
        o["cause"] = cause(o)
        for side in "ra":      # the terminal notifications of each association with their call sites
            o["term_" + side], o["sites_" + side], o["how_" + side] = terminal_info(by.get(o[side + "id"], []))
        sc0 = o["sc"]
        # calm: nobody calls abort(), no timeout (0.8 s) can have expired, no thread died
        calm = ("abort" not in sc0["end"] and sc0["acc"] not in ("handler_abort", "notify_abort", "abort_back") and not (sc0["side"] and sc0["side"][0].endswith("abort"))
                and o["elapsed"] < 0.75 and o["cause"] == "none" and sc0["reject"] != "nocx")
        pair_tr.append({"id": o["id"], "r": o["r"], "a": o["a"], "in_time": o["in_time"], "calm": calm})
        for side, aid, peer in (("r", o["rid"], o["aid"]), ("a", o["aid"], o["rid"])):
            if not aid or aid not in by:
                continue
            h = history(by[aid])
            ph = history(by.get(peer, []))
            hid = len(hist_tr) + 1
            owner[hid] = (o, side)
            hist_tr.append({"id": hid, "h": h, "wired": True, "ended": not o[side]["alive"], "peer_ended": not o["a" if side == "r" else "r"]["alive"],
                            "peer_released": bool(o["a" if side == "r" else "r"]["released"]),
                            "peer_recv": [e["a"] for e in ph if e["k"] == "drecv"], "peer_sent": [e["a"] for e in ph if e["k"] == "dsent"]})
    pv = validate_traces(ctx, "Trace_Pair", pair_tr, name="pair", timeout=1800)
    hv = validate_traces(ctx, "Trace_Notify", hist_tr, name="notify", timeout=1800)
    def report(v, o, role, text):
        """One violation per root: a scenario in which provider/association threads died is reported once per crash
        (signature = the undefined event the thread died on), a crash-free one by the terminal notifications of the
        association concerned (who reported what, and whether the second report raced the first)."""
        sc = o["sc"]
        if o["cause"] != "none":
            for c in o["cause"].split("+"):
                m = re.search(r"(Evt\d+)@", c)
                ctx.violation({"clause": v, "cause": c, "cause_event": m.group(1) if m else c.split(" ", 1)[-1]}, text, sc)
        elif role:
            side = "r" if role == "requestor" else "a"
            sig = {"clause": v, "cause": "none", "role": role, "terminals": o["term_" + side], "how": o["how_" + side]}
            if v == "C27_EstablishedBeforeEnd":
                # who notified what: an abort()/release() on another thread that slips in between `is_established = True` and the
                # EVT_ESTABLISHED notification (the open finding of unsynchronised outcome flags) vs. one thread notifying out of order
                evs = by.get(o[side + "id"], [])
                te = next((e["th"] for e in evs if e["ev"] == "EVT_ESTABLISHED"), None)
                tt = next((e["th"] for e in evs if e["ev"] in ("EVT_ABORTED", "EVT_RELEASED")), None)
                sig["threads"] = "different" if te and tt and te != tt else "same"
            ctx.violation(sig, text, sc)
        else:
            ctx.violation({"clause": v, "cause": "none", "req": o["term_r"], "acc": o["term_a"]}, text, sc)

    for o in obs:
        sc = o["sc"]
        ctx.traces += 1
        ctx.case((tuple(sc["ops"]), sc["end"], sc["acc"], str(sc["side"]), sc["reject"]), nontrivial=bool(sc["side"]) or sc["acc"] != "normal" or sc["end"] != "release" or sc["reject"])
        v = pv[o["id"]][0]
        if group == "C06" and v != "ok":
            if o.get("hung_at"):
                import re as _re
                m = _re.findall(r'line \d+, in (\w+)', o["hung_at"])
                ctx.violation({"clause": "C06_CallNeverReturns", "call": m[-1] if m else "?"},
                              f"C06_CallNeverReturns: scenario {sc}: a public API call did not return within 25 s (timeouts are 0.8 s); stack tail: {o['hung_at']}", sc)
                continue
            role = None
            if v == "C06_OneOutcome":
                role = "requestor" if sum(bool(o["r"][k]) for k in ("released", "aborted", "rejected")) > 1 else "acceptor"
            report(v, o, role,
                   f"{v}: scenario {sc}: requestor={o['r']} acceptor={o['a']} results={o['results']} elapsed={o['elapsed']}s thread-crash={o['cause']} "
                   f"terminal notifications: requestor {o['sites_r']} ({o['how_r']}); acceptor {o['sites_a']} ({o['how_a']})")
    for t in hist_tr:
        o, side = owner[t["id"]]
        sc = o["sc"]
        c27, c06 = hv[t["id"]][0], hv[t["id"]][1]
        v = c27 if group == "C27" else c06 if group == "C06" else "ok"
        ctx.traces += 1
        if v != "ok":
            evs = [e["k"] if e["k"] != "fsm" else f"Sta{e['a']}+Evt{e['b']}" for e in t["h"]]
            role = "requestor" if side == "r" else "acceptor"
            report(v, o, role, f"{v}: {role} association in scenario {sc}: history={evs[-40:]} outcome={o[side]} thread-crash={o['cause']} "
                               f"terminal notifications: {o['sites_' + side]} ({o['how_' + side]})")
    if rec.crashes and group == "C06":
        ctx.cov["threads_died_with_exception"] = len(rec.crashes)
        ctx.cov["thread_exception_samples"] = sorted({m for _, m in rec.crashes})[:5]
    return hist_tr
