"""C30 — storage apps never write outside their storage directory.

MC  : spec/StorePath.tla — UID values as token sequences (digits, '.', '..', '/', letters, backslash,
      absolute prefix); POSIX resolution and the Inside predicate.
S2C : every UID value TLC enumerates is put into the SOP Instance UID of a C-STORE request handled by
      the real qrscp handle_store (sqlite database) and the real storescp handle_store, in a scratch
      directory tree with canary files; the tree is snapshotted before and after.
C2S : Trace_StorePath resolves every created / modified path and evaluates C30_Inside.
"""
from __future__ import annotations

import logging
import os
import re
import shutil
import tempfile
import types
import warnings
from datetime import datetime

from common import Ctx, MachineryError, VERIF
from tlc import _P, must_ok, run_tlc
from trace import validate_traces
import pn  # noqa: F401

TOK = {"1": "1.2.3", ".": ".", "..": "..", "/": "/", "a": "abc", "bs": "\\", "sib": "store.9"}      # "sib": the storage directory's name plus a suffix
SOP = {"prefixed": "1.2.840.10008.5.1.4.1.1.2", "unprefixed": "1.2.840.10008.5.1.4.1.1.1.1"}
NEST = ["n1", "n2", "n3", "n4", "store"]


def snapshot(root):
    out = {}
    for d, _, files in os.walk(root):
        for f in files:
            p = os.path.join(d, f)
            try:
                st = os.stat(p)
                out[os.path.relpath(p, root)] = (st.st_size, st.st_mtime_ns)
            except OSError:
                pass
    return out


def make_event(uid_value, sop_class="1.2.840.10008.5.1.4.1.1.2", field="SOPInstanceUID"):
    from pydicom.dataset import Dataset, FileMetaDataset
    from pynetdicom.dsutils import decode, encode
    from io import BytesIO

    ds = Dataset()
    ds.SOPClassUID = sop_class
    ds.PatientID = "P1"
    ds.PatientName = "A^B"
    ds.StudyInstanceUID = "1.2.3.4"
    ds.SeriesInstanceUID = "1.2.3.4.5"
    ds.add_new(0x00080018, "UI", uid_value if field == "SOPInstanceUID" else "1.2.3.4.5.6")
    if field == "Modality":
        ds.add_new(0x00080060, "CS", uid_value)
    elif field == "PatientID":
        ds.PatientID = uid_value
    elif field == "StudyInstanceUID":
        ds.add_new(0x0020000D, "UI", uid_value)
    elif field == "SeriesInstanceUID":
        ds.add_new(0x0020000E, "UI", uid_value)
    raw = encode(ds, True, True)
    got = decode(BytesIO(raw), True, True)          # as the handler would see it after the wire
    meta = FileMetaDataset()
    meta.MediaStorageSOPClassUID = sop_class
    meta.MediaStorageSOPInstanceUID = "1.2.3.4.5.6"
    meta.TransferSyntaxUID = "1.2.840.10008.1.2"
    meta.ImplementationClassUID = "1.2.3.4"
    ev = types.SimpleNamespace()
    ev.dataset = got
    ev.file_meta = meta
    ev.timestamp = datetime.now()
    ev.assoc = types.SimpleNamespace(requestor=types.SimpleNamespace(address="127.0.0.1", port=11112, ae_title="SCU"))
    ev.context = types.SimpleNamespace(transfer_syntax="1.2.840.10008.1.2")
    ev.request = types.SimpleNamespace(AffectedSOPInstanceUID=uid_value if field == "SOPInstanceUID" else "1.2.3.4.5.6", AffectedSOPClassUID=sop_class)
    return ev


def run(ctx: Ctx) -> int:
    warnings.simplefilter("ignore")
    from pynetdicom.apps.qrscp import handlers as qr
    from pynetdicom.apps.qrscp import db as qrdb
    from pynetdicom.apps.common import handle_store as storescp_store

    cfg = None
    if ctx.tier != "thorough":
        cfg = os.path.join(ctx.work, "StorePath3.cfg")
        open(cfg, "w").write("SPECIFICATION Spec\nCONSTANT MaxTokens = 3\nINVARIANT Export\n")
    r = must_ok(run_tlc("StorePath", cfg, workdir=ctx.work, workers=1, timeout=1800))
    ctx.add_tlc(r)
    uids = []
    for m in re.finditer(r'<<\s*"CASE",', r.out):
        p = _P(r.out)
        p.i = m.start()
        v = p.value()
        uids.append((list(v[1]), v[2], v[3], v[4]))
    if len(uids) < 200:
        raise MachineryError(f"only {len(uids)} UID values exported")
    logger = logging.getLogger("verif.c30")
    logger.addHandler(logging.NullHandler())
    logger.propagate = False
    base = tempfile.mkdtemp(prefix="c30_", dir=os.path.join(VERIF, ".work"))
    obs = []
    try:
        if ctx.tier != "thorough":      # all values in the SOP Instance UID; a seeded sample of the hostile ones in the other attributes
            import random
            rng = random.Random(ctx.seed + 30)
            main = [u for u in uids if u[1] == "SOPInstanceUID" and (u[2] == "prefixed" or u[3] == "elsewhere")]
            rest = [u for u in uids if not (u[1] == "SOPInstanceUID" and (u[2] == "prefixed" or u[3] == "elsewhere"))]
            uids = main + rng.sample(rest, min(len(rest), 900))
        for toks, field, sopk, known in uids:
            for app in (("qrscp", "storescp") if known == "new" else ("qrscp",)):
                root = os.path.join(base, "r")
                shutil.rmtree(root, ignore_errors=True)
                store = os.path.join(root, *NEST)
                os.makedirs(store)
                os.makedirs(os.path.join(root, "outside"))
                for canary in ("canary.txt", "n1/canary.txt", "n1/n2/n3/n4/canary.txt", "outside/canary.txt"):
                    with open(os.path.join(root, canary), "w") as f:
                        f.write("canary")
                dbfile = os.path.join(root, "n1", "instances.sqlite")
                value = "".join((root + "/outside/") if t == "ABS" else TOK[t] for t in toks)
                before = snapshot(root)
                exc = ""
                cwd = os.getcwd()
                os.chdir(os.path.join(root, "n1", "n2"))
                try:
                    ev = make_event(value, SOP[sopk], field)
                    if app == "qrscp":
                        db_path = f"sqlite:///{dbfile}"
                        engine = qrdb.create(db_path)
                        if known == "elsewhere":
                            # the database already manages this instance; its file is recorded in another directory
                            from sqlalchemy.orm import sessionmaker
                            managed = os.path.join(root, "outside", "managed.dcm")
                            with open(managed, "w") as f:
                                f.write("managed elsewhere")
                            session = sessionmaker(bind=engine)()
                            try:
                                qrdb.add_instance(ev.dataset, session, managed)
                            except Exception:  # noqa: BLE001   the database cannot hold this value at all: the pre-state does not exist
                                ctx.count("prestate_not_representable")
                                known = "new"
                            finally:
                                session.close()
                        before = snapshot(root)
                        qr.handle_store(ev, store, db_path, {}, logger)
                    else:
                        args = types.SimpleNamespace(ignore=False, output_directory=store)
                        storescp_store(ev, args, logger)
                except Exception as e:  # noqa: BLE001
                    exc = f"{type(e).__name__}: {e}"[:120]
                finally:
                    os.chdir(cwd)
                after = snapshot(root)
                touched = [p for p in after if before.get(p) != after[p]]
                obs.append({"app": app, "value": value.replace(root, "<ROOT>"), "tokens": toks, "field": field, "sop": sopk, "known": known, "dir": NEST, "db": ["n1", "instances.sqlite"],
                            "touched": [p.split(os.sep) for p in touched], "exc": exc})
    finally:
        shutil.rmtree(base, ignore_errors=True)
    for k, o in enumerate(obs):
        o["id"] = k + 1
    verdicts = validate_traces(ctx, "Trace_StorePath", [{"id": o["id"], "dir": o["dir"], "db": o["db"], "touched": o["touched"]} for o in obs], timeout=1800)
    for o in obs:
        v = verdicts[o["id"]][0]
        ctx.traces += 1
        ctx.case((o["app"], o["field"], o["sop"], o["known"], tuple(o["tokens"])), nontrivial=any(t in ("..", "/", "ABS", "bs", "sib") for t in o["tokens"]))
        if v != "ok":
            how = "absolute" if "ABS" in o["tokens"] else "dotdot" if ".." in o["tokens"] and "/" in o["tokens"] else "separator" if "/" in o["tokens"] else "other"
            ctx.violation({"clause": v, "app": o["app"], "how": how if o["known"] == "new" else "managed-elsewhere", "field": o["field"]},
                          f"{v}: {o['app']} handle_store with {o['field']} {o['value']!r} ({o['sop']} SOP class, instance {o['known']} to the database): files created/modified {['/'.join(t) for t in o['touched']]} (storage directory {'/'.join(NEST)})", o)
    ctx.sample(obs[0])
    ctx.sample(obs[-1])
    ctx.assume("the handlers are called directly with an event whose dataset went through pynetdicom's encode/decode; scratch tree under /verif/.work with canary files",
               "the sqlite database file of qrscp is the only file allowed outside the storage directory")
    return ctx.finish(rule="every UID value of StorePath.tla (token sequences up to 3 (4) over digits . .. / letters backslash, optionally absolute) through both apps' real handle_store; "
                      "non-trivial = contains a separator, '..', a backslash or an absolute prefix")
