"""C27 — event notifications form a well-formed history (see pair_common.py).

The recorded notification history of every association of the lifecycle scenarios (Scenario.tla, run on two real
AEs with seeded delays at every notification point) is judged by Trace_Notify: every EVT_FSM_TRANSITION is a cell
of ULTable (C04's transcription of PS3.8) and starts in the state the previous one ended in, connection-open is first
and once, connection-close once and last among the connection events, established at most once and before any
released/aborted, sent/received PDU notifications match the byte-level notifications (and the peer's)."""
import random
import warnings

from common import MachineryError
from pair_common import judge, run_scenarios, scenarios


REPO_TEST_MODULES = ["pynetdicom/tests/test_assoc.py", "pynetdicom/tests/test_ae.py", "pynetdicom/tests/test_service_verification.py",
                     "pynetdicom/tests/test_service_storage.py", "pynetdicom/tests/test_events.py"]
# tests that reach into the objects under observation, so that their histories are not pynetdicom's own doing
DISTURBED_TESTS = {"pynetdicom/tests/test_assoc.py::TestAssociation::test_unknown_abort_source": "a handler writes raw bytes with assoc.dul.socket.send(), bypassing the provider"}


def repo_test_histories(ctx):
    """C2S over the repository's own tests: they are run unchanged with the recorder installed (pytest plugin
    harness/recorder_plugin.py) and every association's notification history is validated by Trace_Notify."""
    import json
    import os
    import subprocess
    from common import REPO, VERIF
    from pair_common import history
    from trace import validate_traces

    out = os.path.join(ctx.work, "repo_histories.ndjson")
    env = dict(os.environ, PYTHONPATH=os.path.join(VERIF, "harness") + os.pathsep + REPO, VERIF_REC_OUT=out, PYTEST_XDIST_WORKER="verifc27")
    env.pop("PYNETDICOM_VERIF", None)
    p = subprocess.run(["/venv/bin/python", "-m", "pytest", "-q", "-p", "recorder_plugin", "-p", "no:cacheprovider", "--timeout=600", "-x", "--deselect",
                        "pynetdicom/tests/test_ae.py::TestAEGoodAssociation::test_association_timeouts", "--deselect",
                        "pynetdicom/tests/test_ae.py::TestAEGoodAssociation::test_connection_timeout"] + REPO_TEST_MODULES,
                       cwd=REPO, env=env, capture_output=True, text=True, timeout=3000)
    tail = (p.stdout or "").strip().splitlines()[-1:] or ["?"]
    ctx.cov["repo_tests_run"] = tail[0]
    if not os.path.exists(out):
        raise MachineryError(f"the recorder plugin wrote no histories: {tail[0]} {(p.stderr or '')[-300:]}")
    recs = [json.loads(l) for l in open(out) if l.strip()]
    tr, back = [], {}
    for r in recs:
        h = history(r["events"])
        if not h:
            continue
        wired = any(e["k"] == "open" for e in h)
        rec = {"id": len(tr) + 1, "h": h, "wired": wired, "ended": any(e["k"] == "close" for e in h), "peer_ended": False, "peer_released": False, "peer_recv": [], "peer_sent": []}
        back[rec["id"]] = r
        tr.append(rec)
    if len(tr) < 200:
        raise MachineryError(f"only {len(tr)} histories recorded from the repository's tests")
    hv = validate_traces(ctx, "Trace_Notify", tr, name="repo_notify", timeout=3000)
    drift = {}
    for t in tr:
        v = hv[t["id"]][0]
        ctx.traces += 1
        if v == "ok":
            continue
        r = back[t["id"]]
        evs = [e["k"] if e["k"] != "fsm" else f"Sta{e['a']}+Evt{e['b']}" for e in t["h"]]
        if r["test"] not in DISTURBED_TESTS:
            ctx.violation({"clause": v, "source": "repository tests", "test": r["test"].split("::")[0]},
                          f"{v}: history of a {r['mode']} association recorded while running {r['test']}: {evs[-30:]}", {"test": r["test"]})
        else:
            drift[v] = drift.get(v, 0) + 1
    ctx.cov["repo_test_histories"] = len(tr)
    ctx.cov["repo_test_histories_disturbed_by_the_test"] = drift


def raw_peer_histories(ctx):
    """Histories of an acceptor whose peer does not follow the protocol: PDUs that keep arriving after this side has aborted or
    rejected (read in Sta13 and ignored by AA-6) still cross the wire and are acted on by the state machine - they must be
    notified like any other."""
    import time
    from pynetdicom import AE, evt
    from pynetdicom.pdu import A_ABORT_RQ, A_RELEASE_RP
    from pair_common import history
    from raw_peer import RawPeer, assoc_rq_bytes
    from recorder import Recorder
    from rig import echo_rq_bytes
    from trace import validate_traces

    V = "1.2.840.10008.1.1"
    ab = A_ABORT_RQ()
    ab.source, ab.reason_diagnostic = 0, 0
    tail = echo_rq_bytes() + echo_rq_bytes() + ab.encode()
    out = []
    rec = Recorder(seed=0, max_delay=0.0)
    with rec:
        for name in ("rejected-then-more", "aborted-then-more", "released-then-more"):
            seen = []
            ae = AE("ACCEPTOR")
            ae.add_supported_context(V)
            ae.acse_timeout = ae.dimse_timeout = ae.network_timeout = 3
            srv = ae.start_server(("127.0.0.1", 0), block=False, evt_handlers=[(evt.EVT_CONN_OPEN, lambda e: seen.append(e.assoc))])
            try:
                peer = RawPeer(srv.socket.getsockname()[1], [(V, ["1.2.840.10008.1.2"])])
                if name == "rejected-then-more":
                    rq = bytearray(assoc_rq_bytes(peer.port, peer.proposals))
                    rq[6:8] = b"\x00\x02"          # protocol version not supported: A-ASSOCIATE-RJ, Sta13
                    peer.send_bytes(bytes(rq) + tail)
                else:
                    if peer.associate() != "assoc_ac":
                        raise MachineryError("raw peer not accepted")
                    first = A_RELEASE_RP().encode() if name == "aborted-then-more" else b"\x05\x00\x00\x00\x00\x04\x00\x00\x00\x00"
                    peer.send_bytes(first + tail)      # unexpected A-RELEASE-RP: AA-8, Sta13 / A-RELEASE-RQ: answered, Sta13
                t0 = time.time()
                while time.time() - t0 < 5 and (not seen or seen[0].is_alive() or seen[0].dul.is_alive()):
                    time.sleep(0.01)
                peer.close()
                uid = getattr(seen[0], "_verif_uid", None) if seen else None
                out.append((name, uid, bool(seen) and not seen[0].dul.is_alive()))
            finally:
                srv.shutdown()
        # a PDU far larger than the socket's send buffer, on a socket with a timeout: the transport writes it in many pieces -
        # it still is one PDU sent (the requestor's history is judged)
        import socket as _socket
        from io import BytesIO  # noqa: F401
        from pydicom.dataset import Dataset, FileMetaDataset
        CT = "1.2.840.10008.5.1.4.1.1.2"
        seen = []
        scp = AE("ACCEPTOR")
        scp.maximum_pdu_size = 0
        scp.add_supported_context(CT)
        scp.acse_timeout = scp.dimse_timeout = scp.network_timeout = 20
        srv = scp.start_server(("127.0.0.1", 0), block=False, evt_handlers=[(evt.EVT_C_STORE, lambda e: 0x0000)])
        try:
            def shrink(event):
                seen.append(event.assoc)
                sk = event.assoc.dul.socket.socket
                sk.setsockopt(_socket.SOL_SOCKET, _socket.SO_SNDBUF, 8192)
                sk.settimeout(10)
            scu = AE("REQUESTOR")
            scu.add_requested_context(CT)
            scu.acse_timeout = scu.dimse_timeout = scu.network_timeout = 20
            a = scu.associate("127.0.0.1", srv.socket.getsockname()[1], evt_handlers=[(evt.EVT_CONN_OPEN, shrink)])
            if not a.is_established:
                raise MachineryError("partial-writes scenario: not established")
            ds = Dataset()
            ds.SOPClassUID, ds.SOPInstanceUID, ds.PatientID = CT, "1.2.3.4", "P"
            ds.add_new(0x00420011, "OB", bytes(4 * 1024 * 1024))       # (Encapsulated Document: 4 MiB of bytes)
            ds.file_meta = FileMetaDataset()
            ds.file_meta.TransferSyntaxUID = "1.2.840.10008.1.2"
            ds.is_little_endian, ds.is_implicit_VR = True, True
            a.send_c_store(ds)
            a.release()
            t0 = time.time()
            while time.time() - t0 < 5 and (a.is_alive() or a.dul.is_alive()):
                time.sleep(0.01)
            out.append(("partial-writes", getattr(a, "_verif_uid", None), not a.dul.is_alive()))
        finally:
            srv.shutdown()
    by = rec.by_assoc()
    tr = []
    for k, (name, uid, ended) in enumerate(out):
        if uid is None or uid not in by:
            raise MachineryError(f"raw peer history {name}: the acceptor association was not recorded")
        tr.append({"id": k + 1, "h": history(by[uid]), "wired": True, "ended": ended, "peer_ended": True, "peer_released": False, "peer_recv": [], "peer_sent": []})
    vs = validate_traces(ctx, "Trace_Notify", tr, name="notify_raw", timeout=900)
    for t, (name, uid, ended) in zip(tr, out):
        v = vs[t["id"]][0]
        ctx.traces += 1
        ctx.case(("raw-peer", name), nontrivial=True)
        if v != "ok":
            evs = [e["k"] + str(e["a"]) if e["k"] != "fsm" else f"Sta{e['a']}+Evt{e['b']}" for e in t["h"]]
            # (as in the scenario runs: a history cut short because the provider thread died on an undefined event is reported by
            #  that event - the open C05-root findings - not by the clause it happens to break)
            import re as _re
            died = [m for m in rec.crash_by_assoc.get(uid, [])]
            ev_ = next((_re.search(r"Invalid event '(Evt\d+)' for the current state '(Sta\d+)'", m) for m in died if "Invalid event" in m), None)
            if ev_:
                ctx.violation({"clause": v, "cause": f"acceptor {ev_.group(1)}@{ev_.group(2)}", "cause_event": ev_.group(1)},
                              f"{v}: raw-peer history {name}: the provider thread died on {ev_.group(1)} in {ev_.group(2)}; history={evs[-30:]}", {"raw": name})
                continue
            ctx.violation({"clause": v, "cause": "none", "role": "requestor" if name == "partial-writes" else "acceptor", "raw": name},
                          f"{v}: {'requestor writing a 4 MiB PDU through an 8 kB send buffer' if name == 'partial-writes' else 'acceptor whose raw peer goes on sending'} ({name}): history={evs[-40:]}", {"raw": name})


def run(ctx):
    warnings.simplefilter("ignore")
    thorough = ctx.tier == "thorough"
    scs = scenarios(ctx)
    rng = random.Random(ctx.seed + 27)
    pick = rng.sample(scs, 1500 if thorough else 220)
    pick += [s for s in scs if s["reject"]]
    pick += [s for s in scs if "+" in s["end"] and len(s["ops"]) <= 1 and (not s["ops"] or s["ops"][0] == "echo")][:24]
    obs, rec = run_scenarios(ctx, pick, ctx.seed + 1)
    hist = judge(ctx, obs, rec, "C27")
    ctx.cov["histories"] = len(hist)
    ctx.cov["notifications"] = sum(len(h["h"]) for h in hist)
    if hist:
        ctx.sample({"history_tail": [e["k"] if e["k"] != "fsm" else f"Sta{e['a']}+Evt{e['b']}" for e in hist[0]["h"]][-12:]})
    raw_peer_histories(ctx)
    if thorough:
        repo_test_histories(ctx)
    ctx.assume("histories are those of the lifecycle scenarios of Scenario.tla on loopback with timeouts 0.8 s",
               "the order of notifications is the order in which pynetdicom.events.trigger was entered (sequence number taken under the recorder lock)")
    return ctx.finish(rule="user scripts of Scenario.tla, sampled; one history per association (two per scenario); non-trivial = anything but a plain release")
