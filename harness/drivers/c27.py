"""C27 — event notifications form a well-formed history (see pair_common.py).

The recorded notification history of every association of the lifecycle scenarios (Scenario.tla, run on two real
AEs with seeded delays at every notification point) is judged by Trace_Notify: every EVT_FSM_TRANSITION is a cell
of ULTable (C04's transcription of PS3.8) and starts in the state the previous one ended in, connection-open is first
and once, connection-close once and last among the connection events, established at most once and before any
released/aborted, sent/received PDU notifications match the byte-level notifications (and the peer's)."""
import random
import warnings

from pair_common import judge, run_scenarios, scenarios


def run(ctx):
    warnings.simplefilter("ignore")
    thorough = ctx.tier == "thorough"
    scs = scenarios(ctx)
    rng = random.Random(ctx.seed + 27)
    pick = rng.sample(scs, 1500 if thorough else 220)
    pick += [s for s in scs if s["reject"]]
    pick += [s for s in scs if "+" in s["end"] and len(s["ops"]) <= 1 and (not s["ops"] or s["ops"][0] == "echo")][:24]
    obs, rec = run_scenarios(ctx, pick, ctx.seed + 1)
    hist = judge(ctx, obs, rec, "C27")
    ctx.cov["histories"] = len(hist)
    ctx.cov["notifications"] = sum(len(h["h"]) for h in hist)
    if hist:
        ctx.sample({"history_tail": [e["k"] if e["k"] != "fsm" else f"Sta{e['a']}+Evt{e['b']}" for e in hist[0]["h"]][-12:]})
    ctx.assume("histories are those of the lifecycle scenarios of Scenario.tla on loopback with timeouts 0.8 s",
               "the order of notifications is the order in which pynetdicom.events.trigger was entered (sequence number taken under the recorder lock)")
    return ctx.finish(rule="user scripts of Scenario.tla, sampled; one history per association (two per scenario); non-trivial = anything but a plain release")
