"""C23 — a C-CANCEL reaches exactly the operation it names.

MC  : spec/Cancel.tla — two consecutive operations, cancels naming either or an unrelated id arriving
      at any moment, handler polls at its yields; C23_Match.
S2C : every behaviour TLC finds (sampled in quick) is replayed on a real acceptor Association: the
      requests and the C-CANCEL requests enter through the real DIMSE provider (receive_primitive),
      the operations are served by the real service classes, the scripted handler polls
      event.is_cancelled where the behaviour says so.  Directed bursts of unrelated cancels (9..12
      of them) before a matching one exercise the bounded cancel store.
C2S : the event log with the observed poll results is validated by Trace_Cancel, which replays it
      through Cancel's actions and compares every poll with what the property prescribes.
"""
from __future__ import annotations

import random
import re
import warnings

from common import Ctx, MachineryError
from tlc import _P, must_ok, run_tlc
from trace import validate_traces
import pn  # noqa: F401

IMPL = "1.2.840.10008.1.2"


# the model's ids (operation 1, operation 2, others) are carried by real Message IDs: the usual small numbers, or the ends of the
# legal range (Message ID is a US element: 0 and 65535 are legal) - the log keeps the model's ids
IDMAPS = ({}, {1: 0, 2: 65535}, {1: 65535, 2: 0})


def replay(hist, svc, idmap=None):
    idmap = idmap or {}
    real = lambda m: idmap.get(m, m)  # noqa: E731
    import scp_exec as X
    from scp_rig import ScpRig, find_rq, get_rq, move_rq
    from pynetdicom import evt
    from pynetdicom.dimse_primitives import C_CANCEL
    from pydicom.dataset import Dataset
    from c19 import pdatas_for

    uid = {"FIND": X.PATIENT_ROOT_FIND, "GET": X.PATIENT_ROOT_GET, "MOVE": X.PATIENT_ROOT_MOVE}[svc]
    mk = {"FIND": find_rq, "GET": get_rq, "MOVE": move_rq}[svc]
    event_of = {"FIND": evt.EVT_C_FIND, "GET": evt.EVT_C_GET, "MOVE": evt.EVT_C_MOVE}[svc]
    log = []
    segs = {0: [], 1: [], 10: [], 2: [], 20: []}
    cur = 0
    for e in hist:
        if e[0] == "start":
            cur = e[1]
        elif e[0] == "end":
            cur = 10 if e[1] == 1 else 20
        else:
            segs[cur].append(e)
    state = {"k": 0}

    def inject_cancel(a, mid):
        c = C_CANCEL()
        c.MessageIDBeingRespondedTo = real(mid)
        for p in pdatas_for(c, 1, 1):
            a.dimse.receive_primitive(p)
        log.append({"e": "cancel", "v": mid, "r": False})

    def handler(event):
        k = state["k"]
        log.append({"e": "start", "v": k, "r": False})
        if svc == "MOVE":
            yield ("127.0.0.1", 11112)
        if svc in ("GET", "MOVE"):
            yield 50
        ds = Dataset()
        ds.QueryRetrieveLevel = "PATIENT"
        ds.PatientID = "1"
        for e in segs[k]:
            if e[0] == "cancel":
                inject_cancel(event.assoc, e[1])
            elif e[0] == "other":
                # a whole operation with the same message id on a second association of the same process
                seen = []

                def other_handler(ev2):
                    seen.append(bool(ev2.is_cancelled))
                    if svc == "MOVE":
                        yield (None, None)
                    elif svc == "GET":
                        yield 0
                    else:
                        yield 0x0000, None

                rig2 = ScpRig([(1, uid, IMPL, False, True)], handlers=[(event_of, other_handler)])
                for p in pdatas_for(mk(msg_id=real(k), sop_class=uid), 1, 1):
                    rig2.assoc.dimse.receive_primitive(p)
                cid2, msg2 = rig2.assoc.dimse.get_msg(block=False)
                rig2.assoc._serve_request(msg2, cid2)
                log.append({"e": "other", "v": k, "r": bool(seen and seen[0])})
            else:
                r = bool(event.is_cancelled)
                log.append({"e": "poll", "v": k, "r": r})
                yield (0xFF00, ds if svc == "FIND" else None)
        log.append({"e": "end", "v": k, "r": False})

    rig = ScpRig([(1, uid, IMPL, False, True)], handlers=[(event_of, handler)])
    a = rig.assoc
    if svc == "MOVE":
        from scp_exec import StubStoreAssoc

        class _R:
            stores = []
            def sub_for(self, d):
                return "S"
        rig.ae.associate = lambda addr, port, **kw: StubStoreAssoc(True, _R())
    exc = ""
    try:
        for k in (1, 2):
            for e in segs[0 if k == 1 else 10]:
                inject_cancel(a, e[1])
            state["k"] = k
            for p in pdatas_for(mk(msg_id=real(k), sop_class=uid), 1, 1):
                a.dimse.receive_primitive(p)
            cid, msg = a.dimse.get_msg(block=False)
            if msg is None:
                raise MachineryError("request was not queued")
            a._serve_request(msg, cid)
            # what the reactor would take next: anything left on the message queue is served too
            while True:
                cid, msg = a.dimse.get_msg(block=False)
                if msg is None:
                    break
                log.append({"e": "stray", "v": 0, "r": False})
                a._serve_request(msg, cid)
    except MachineryError:
        raise
    except Exception as e:  # noqa: BLE001
        exc = f"{type(e).__name__}: {e}"
    return {"ev": [x for x in log if x["e"] != "stray"], "exc": exc, "stray": sum(1 for x in log if x["e"] == "stray"), "svc": svc, "aborted": bool(rig.aborts)}


def run(ctx: Ctx) -> int:
    warnings.simplefilter("ignore")
    thorough = ctx.tier == "thorough"
    cfg = None
    if thorough:
        import os
        cfg = os.path.join(ctx.work, "Cancel_big.cfg")
        open(cfg, "w").write("SPECIFICATION Spec\nCONSTANTS MaxCancels = 4\n MaxPolls = 2\nINVARIANT C23_Match\nINVARIANT Export\n")
    r = must_ok(run_tlc("Cancel", cfg, workdir=ctx.work, workers=1, timeout=3000))
    ctx.add_tlc(r)
    if r.violated:
        ctx.violation({"where": "model", "invariant": r.violated}, f"Cancel.tla violates {r.violated}", r.trace)
        return ctx.finish(rule="model violated its own invariants")
    hists = []
    for m in re.finditer(r'<<\s*"CASE",', r.out):
        p = _P(r.out)
        p.i = m.start()
        hists.append([tuple(e) for e in p.value()[1]])
    if len(hists) < 1000:
        raise MachineryError(f"only {len(hists)} behaviours exported")
    rng = random.Random(ctx.seed + 23)
    if not thorough:
        hists = rng.sample(hists, 3000)
    elif len(hists) > 40000:
        hists = rng.sample(hists, 40000)
    # directed bursts: n unrelated cancels, then the matching one, then a poll (in op 1 and in op 2)
    for n in (8, 9, 10, 11, 12):
        for k in (1, 2):
            burst = [("cancel", 100 + j) for j in range(n)]
            pre = [("start", 1), ("poll", 1), ("end", 1)] if k == 2 else []
            post = [("start", 2), ("poll", 2), ("end", 2)] if k == 1 else []
            hists.append(pre + [("start", k)] + burst + [("cancel", k), ("poll", k), ("poll", k), ("end", k)] + post)
            hists.append(pre + burst[: n // 2] + [("start", k)] + burst[n // 2:] + [("cancel", k), ("poll", k), ("end", k)] + post)
    traces = []
    for i, h in enumerate(hists):
        o = replay(h, ("FIND", "GET", "MOVE")[i % 3], IDMAPS[(i // 3) % 3])
        o["idmap"] = IDMAPS[(i // 3) % 3]
        o["id"] = i + 1
        o["hist"] = h
        traces.append(o)
    verdicts = validate_traces(ctx, "Trace_Cancel", [{"id": t["id"], "ev": t["ev"]} for t in traces], timeout=3000)
    for t in traces:
        bad = int(verdicts[t["id"]][0])
        ctx.traces += 1
        ctx.case(tuple(t["hist"]), nontrivial=any(e[0] == "cancel" for e in t["hist"]))
        ncancel = sum(1 for e in t["hist"] if e[0] == "cancel")
        if bad:
            ev = t["ev"][bad - 1]
            before = t["ev"][:bad]
            kind = "missed" if not ev["r"] else "spurious"
            ctx.violation({"clause": "C23_Match", "kind": kind, "burst": "over-capacity" if ncancel > 10 else "within-capacity"},
                          f"C23_Match: {t['svc']} operation {ev['v']} (real Message IDs {t['idmap'] or 'as in the model'}): poll #{bad} reported is_cancelled={ev['r']} but the property prescribes {not ev['r']}; "
                          f"events so far={[(x['e'], x['v']) for x in before]} exc={t['exc']} stray messages served={t['stray']}", {"hist": t["hist"], "svc": t["svc"]})
        elif t["exc"] or t["stray"]:
            ctx.violation({"clause": "C23_StrayCancel", "burst": "over-capacity" if ncancel > 10 else "within-capacity"},
                          f"C23: {t['svc']}: a C-CANCEL was handed to the service layer as an ordinary message (served {t['stray']} stray messages, exc={t['exc']}); "
                          f"history={t['hist']}", {"hist": t["hist"], "svc": t["svc"]})
    ctx.sample(traces[0])
    ctx.sample(traces[-1])
    ctx.assume("cancel arrivals are placed at the handler's yield points (the handler thread injects them through the real receive path)",
               "'in progress' = from the start of _serve_request's call of the service class to its return")
    return ctx.finish(rule="behaviours of Cancel.tla (two operations, up to 3 (4) cancels over ids {op1, op2, unrelated}, polls at yields) replayed on the real C-FIND/C-GET/C-MOVE SCPs, "
                      "plus directed bursts of 8-12 unrelated cancels before a matching one; non-trivial = at least one cancel")
