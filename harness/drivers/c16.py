"""C16 — see dimse_common.py (spec/Dimse.tla, DimsePred.tla, DimseMsg.tla, Trace_Dimse.tla)."""
from dimse_common import run as _run


def run(ctx):
    return _run(ctx, "C16")
