"""Shared driver for C15 / C16 / C17 (spec/Dimse.tla, DimsePred.tla, DimseMsg.tla, Trace_Dimse.tla; harness/dimse_lab.py).

MC  : Dimse.tla — fragmenter, arbitrary regrouping, reassembler for every (data length, maximum) of
      the bounded domain: C15_MaxLen/Order/LastFlags/Reassembly and C16_Flag are invariants;
      DimseMsg.tla — lemmas of the PS3.7 message catalogue.
S2C : every terminal behaviour of Dimse.tla (lengths, maximum, regrouping) is run through the real
      encode_msg / decode_msg (in-memory and file-backed data sets); every catalogue case (message x
      optional-parameter subset x data-set state x value class) is round-tripped through the real
      primitive_to_message / encode / decode / message_to_primitive; the public send_* API and the
      service classes' responses are observed at the wire tap.
C2S : Trace_Dimse judges the observed PDV sequences and round trips.
"""
from __future__ import annotations

import os
import random
import re
import warnings

from common import Ctx, MachineryError
from tlc import _P, must_ok, run_tlc
from trace import validate_traces
import pn  # noqa: F401

COL = {"C15": 0, "C16": 1, "C17": 2}


def frag_cases(ctx: Ctx, cfgname: str, consts: str):
    cfg = os.path.join(ctx.work, cfgname)
    with open(cfg, "w") as f:
        f.write("SPECIFICATION Spec\nCONSTANTS " + consts + "\n")
        for inv in ("C15_MaxLen", "C15_Order", "C15_LastFlags", "C15_Contiguous", "C15_Reassembly", "C16_Flag", "C15_CanGroup", "Export"):
            f.write(f"INVARIANT {inv}\n")
    r = must_ok(run_tlc("Dimse", cfg, workdir=ctx.work, workers=1, timeout=3000))
    ctx.add_tlc(r)
    if r.violated:
        ctx.violation({"where": "model", "invariant": r.violated}, f"Dimse.tla violates {r.violated}", r.trace)
        return {}
    cases = {}
    for m in re.finditer(r'<<\s*"CASE",', r.out):
        p = _P(r.out)
        p.i = m.start()
        v = p.value()
        key = (v[2], v[3])
        e = cases.setdefault(key, {"d": v[2], "max": v[3], "pdvs": v[4], "groupings": []})
        g = list(v[5])
        if g not in e["groupings"]:
            e["groupings"].append(g)
    return cases


def msg_cases(ctx: Ctx):
    r = must_ok(run_tlc("DimseMsg", workdir=ctx.work, workers=1, timeout=1200))
    ctx.add_tlc(r)
    out = []
    for m in re.finditer(r'<<\s*"CASE",', r.out):
        p = _P(r.out)
        p.i = m.start()
        c = p.value()[1]
        out.append({"name": c["name"], "field": c["field"], "mand": sorted(c["mand"]), "opts": sorted(c["opts"]), "dsparam": c["dsparam"],
                    "ds": c["ds"], "vc": c["vc"]})
    if len(out) < 1000:
        raise MachineryError(f"only {len(out)} catalogue cases exported")
    return out


def api_observations():
    """Public send_* API with empty / non-empty data sets and the SCP response paths, observed at the wire tap."""
    from pydicom.dataset import Dataset
    from scu_rig import CT_STORAGE, PATIENT_ROOT_FIND, PATIENT_ROOT_GET, PATIENT_ROOT_MOVE, ScuRig
    from scp_rig import ct_dataset
    import scp_exec

    IMPL = "1.2.840.10008.1.2"
    MPPS, COMMIT = "1.2.840.10008.3.1.2.3.3", "1.2.840.10008.1.20.1"
    obs = []

    def taplog(tap, label):
        for rec in tap.log:
            pdvs = [{"cmd": bool(h & 1), "last": bool(h & 2), "len": n} for _, h, n in rec["pdv"]]
            obs.append({"kind": "api", "label": label, "max": 16382, "pdvs": pdvs, "pdulens": [4 + 2 + v["len"] for v in pdvs],
                        "announces": rec["cdst"] is not None and rec["cdst"] != 0x0101 if rec["delivered"] else _announces(rec),
                        "rx": [{"done": bool(rec["delivered"]), "cmdok": True, "dsok": True, "groups": [1]}]})

    def _announces(rec):
        return True   # the receiver is still waiting for a data set: that is what "not delivered" means here

    full = Dataset()
    full.QueryRetrieveLevel = "PATIENT"
    full.PatientID = "*"
    for label, make in (("empty", Dataset), ("full", lambda: full)):
        calls = [
            ("send_c_find", lambda a, ds: list(a.send_c_find(ds, PATIENT_ROOT_FIND)), PATIENT_ROOT_FIND),
            ("send_c_get", lambda a, ds: list(a.send_c_get(ds, PATIENT_ROOT_GET)), PATIENT_ROOT_GET),
            ("send_c_move", lambda a, ds: list(a.send_c_move(ds, "DEST", PATIENT_ROOT_MOVE)), PATIENT_ROOT_MOVE),
            ("send_n_set", lambda a, ds: a.send_n_set(ds, MPPS, "1.2.3"), MPPS),
            ("send_n_create", lambda a, ds: a.send_n_create(ds, MPPS, "1.2.3"), MPPS),
            ("send_n_action", lambda a, ds: a.send_n_action(ds, 1, COMMIT, "1.2.3"), COMMIT),
            ("send_n_event_report", lambda a, ds: a.send_n_event_report(ds, 1, COMMIT, "1.2.3"), COMMIT),
        ]
        for name, fn, uid in calls:
            rig = ScuRig([(1, uid, IMPL, True, True)])
            try:
                fn(rig.assoc, make())
            except Exception as e:  # noqa: BLE001
                obs.append({"kind": "api", "label": f"{name}({label}) raised {type(e).__name__}", "max": 16382, "pdvs": [{"cmd": True, "last": True, "len": 1}],
                            "pdulens": [7], "announces": False, "rx": []})
                continue
            taplog(rig.tap, f"{name}({label})")
    rig = ScuRig([(1, CT_STORAGE, IMPL, True, True)])
    rig.assoc.send_c_store(ct_dataset("1.2.3.4"))
    taplog(rig.tap, "send_c_store(ct)")
    # SCP response paths: short handler scripts on every service
    D = {"st": "S0", "ds": "none", "sub": "S"}
    Y = lambda st, ds="none", sub="S": {"k": "y", "st": st, "ds": ds, "sub": sub}  # noqa: E731
    scripts = [("FIND", [Y("P0", "ds"), Y("P0", "ds")]), ("FIND", [Y("P0", "none")]), ("FIND", [Y("FA")]), ("FINDREPO", [Y("WL"), Y("P0", "ds")]),
               ("GET", [dict(D, k="count", st="n2"), Y("P0", "ds", "F"), Y("P0", "ds", "S")]), ("GET", [dict(D, k="count", st="n1"), Y("CA")]),
               ("MOVE", [dict(D, k="dest", st="ok"), dict(D, k="count", st="n1"), Y("P0", "ds", "W")]),
               ("ECHO", [dict(D, k="ret")]), ("STORE", [dict(D, k="ret", st="WS")])]
    for n in ("NGET", "NSET", "NACTION", "NCREATE", "NEVENT"):
        scripts += [(n, [dict(D, k="ret", ds="ds")]), (n, [dict(D, k="ret", ds="none")]), (n, [dict(D, k="ret", st="FA", ds="ds")])]
    scripts.append(("NDELETE", [dict(D, k="ret")]))
    for svc, sc in scripts:
        o = scp_exec.execute(svc, sc, keep_rig=True)
        taplog(o["rig"].tap, f"scp:{svc}:{[(s['k'], s['st'], s['ds']) for s in sc]}")
    return obs


def provider_observations(thorough):
    """dimse.send_msg on a real Association: the PDV lists handed to the DUL must respect the *peer's* maximum."""
    from io import BytesIO
    from pynetdicom.dimse_primitives import C_STORE
    from scu_rig import CT_STORAGE, ScuRig

    out = []
    sizes = (0, 1024, 1030, 16382) if thorough else (0, 1024, 16382)
    for mode in ("requestor", "acceptor"):
        for own in sizes:
            for peer in sizes:
                for d in (3000, 2 * (peer - 6) if peer else 5000):
                    rig = ScuRig([(1, CT_STORAGE, "1.2.840.10008.1.2", True, True)], mode=mode)
                    a = rig.assoc
                    mine, theirs = (a.requestor, a.acceptor) if mode == "requestor" else (a.acceptor, a.requestor)
                    mine.maximum_length, theirs.maximum_length = own, peer
                    p = C_STORE()
                    p.MessageID, p.AffectedSOPClassUID, p.AffectedSOPInstanceUID, p.Priority = 1, CT_STORAGE, "1.2.3.4", 2
                    data = bytes((5 * j + 1) % 253 for j in range(d))
                    p.DataSet = BytesIO(data)
                    try:
                        rec = rig.tap.send(p, 1)
                    except Exception:  # noqa: BLE001   send_msg raised part-way: the peer is left with what was handed to the DUL
                        rec = rig.tap.collect(1)
                    pdvs = [{"cmd": bool(h & 1), "last": bool(h & 2), "len": n} for _, h, n in rec["pdv"]]
                    got = rec["primitive"].DataSet.getvalue() if rec["primitive"] is not None else b""
                    out.append({"kind": "frag", "d": d, "max": peer, "backing": f"send_msg/{mode}/own={own}", "pdvs": pdvs,
                                "pdulens": [4 + 2 + v["len"] for v in pdvs], "announces": True,
                                "rx": [{"done": bool(rec["delivered"]), "cmdok": bool(rec["delivered"]), "dsok": got == data, "groups": [1]}],
                                "expected_data": [v["len"] for v in pdvs if not v["cmd"]]})
    return out


def sequence_observations(thorough):
    """Reassembly by the real DIMSE provider (receive_primitive) of a fragmented message that FOLLOWS another message on the same
    association: whatever was received before - nothing, a C-ECHO-RQ, a C-CANCEL-RQ (which is never queued), an unfinished
    and then finished message - the message handed on must be exactly the one sent."""
    from io import BytesIO
    from pynetdicom import evt
    from pynetdicom.dimse_primitives import C_CANCEL, C_ECHO, C_STORE
    from pynetdicom.pdu_primitives import P_DATA
    from scp_rig import ScpRig, CT_STORAGE
    import dimse_lab as L

    def pdatas(prim, maxlen):
        m = L.message_for(prim)
        m.primitive_to_message(prim)
        return m, list(m.encode_msg(1, maxlen))

    out = []
    for prev in ("none", "echo", "cancel", "cancel+cancel", "echo+cancel"):
        for d, mx in ((0, 16382), (200, 48), (1018, 1030)) + (((2036, 1030), (5000, 0)) if thorough else ()):
            got = []
            rig = ScpRig([(1, CT_STORAGE, "1.2.840.10008.1.2", False, True), (3, "1.2.840.10008.1.1", "1.2.840.10008.1.2", False, True)],
                         handlers=[(evt.EVT_DIMSE_RECV, lambda e: got.append(e.message))])
            a = rig.assoc
            for kind in ([] if prev == "none" else prev.split("+")):
                if kind == "echo":
                    q = C_ECHO()
                    q.MessageID, q.AffectedSOPClassUID = 5, "1.2.840.10008.1.1"
                else:
                    q = C_CANCEL()
                    q.MessageIDBeingRespondedTo = 5
                for pd in pdatas(q, 48)[1]:
                    a.dimse.receive_primitive(pd)
            while a.dimse.get_msg(block=False)[1] is not None:
                pass
            del got[:]
            p = C_STORE()
            p.MessageID, p.AffectedSOPClassUID, p.AffectedSOPInstanceUID, p.Priority = 9, CT_STORAGE, "1.2.3.4", 2
            data = bytes((3 * j + 2) % 251 for j in range(d))
            if d:
                p.DataSet = BytesIO(data)
            else:
                p = C_ECHO()
                p.MessageID, p.AffectedSOPClassUID = 9, "1.2.840.10008.1.1"
            sent, pds = pdatas(p, mx)
            for pd in pds:
                a.dimse.receive_primitive(pd)
            cid, prim = a.dimse.get_msg(block=False)
            pdvs = [{"cmd": bool(v[1][0] & 1), "last": bool(v[1][0] & 2), "len": len(v[1]) - 1} for pd in pds for v in pd.presentation_data_value_list]
            done = prim is not None and len(got) == 1
            cmdok = done and got[0].command_set == sent.command_set
            dsok = done and ((prim.DataSet.getvalue() if getattr(prim, "DataSet", None) is not None else b"") == data)
            out.append({"kind": "frag", "d": d, "max": mx, "backing": f"receive_primitive/after={prev}", "pdvs": pdvs,
                        "pdulens": [4 + 2 + v["len"] for v in pdvs], "announces": bool(d),
                        "rx": [{"done": bool(done), "cmdok": bool(cmdok), "dsok": bool(dsok), "groups": [1]}],
                        "expected_data": [v["len"] for v in pdvs if not v["cmd"]]})
    return out


def run(ctx: Ctx, group: str) -> int:
    import dimse_lab as L

    warnings.simplefilter("ignore")
    thorough = ctx.tier == "thorough"
    obs = []
    # ---- fragmentation behaviours from TLC -----------------------------------------------------------------
    if group in ("C15", "C16"):
        small = frag_cases(ctx, "MC_Dimse_small.cfg",
                           "CmdLens = {5}\n DataLens = {0, 1, 2, 3, 4, 5, 6, 7, 8, 9%s}\n Maxes = {0, 7, 8, 9, 10, 13}" % (", 10, 12, 14" if thorough else ""))
        big = frag_cases(ctx, "MC_Dimse_big.cfg",
                         "CmdLens = {5}\n DataLens = {1, 1018, 1023, 1024, 1025, 2047, 2048, 2049, 16375, 16376, 16377, 32751, 32752, 32753}\n Maxes = {0, 1030, 16382}")
        if ctx.violations:
            return ctx.finish(rule="model violated its own invariants")
        for (d, mx), e in sorted({**small, **big}.items()):
            gs = e["groupings"]
            if len(gs) > (40 if thorough else 12):
                rng = random.Random(ctx.seed + d * 31 + mx)
                gs = rng.sample(gs, 40 if thorough else 12)
            for backing in ("mem", "file"):
                o = L.frag_observe(d, mx, gs + [[1], [2], [64]], backing)
                o["expected_data"] = [int(v["len"]) for v in e["pdvs"] if not v["cmd"]]
                obs.append(o)
        # maxima next to the length of the (real) command set itself: the 6 bytes of PDV item overhead count towards the maximum
        probe = L.frag_observe(10, 0, [[1]], "mem")
        cmdlen = sum(v["len"] for v in probe["pdvs"] if v["cmd"])
        for delta in range(-3, 10):
            o = L.frag_observe(10, cmdlen + delta, [[1], [2]], "mem")
            o["expected_data"] = [v["len"] for v in o["pdvs"] if not v["cmd"]]
            o["backing"] = f"mem/max=cmd{delta:+d}"
            obs.append(o)
        # the maximum actually used by the DIMSE provider: every (own maximum, peer maximum) x role, through the real send_msg
        obs += provider_observations(thorough)
        if group == "C15":
            obs += sequence_observations(thorough)
    # ---- message catalogue cases ------------------------------------------------------------------------------
    if group in ("C16", "C17"):
        cases = msg_cases(ctx)
        if group == "C16":
            cases = [c for c in cases if c["vc"] == 1 and (thorough or len(c["opts"]) <= 1)]
        for c in cases:
            # maxima 11 and 16 make the 5- and 10-byte data sets exact multiples of the fragment size
            for mx in ((16382, 0, 120, 11, 16) if (thorough or c["vc"] == 1 and not c["opts"]) else (16382, 16) if c["ds"] in ("odd", "even") and len(c["opts"]) <= 1 else (16382,)):
                try:
                    obs.append(L.msg_observe(c, mx))
                except L.Rejected as e:
                    ctx.count("catalogue_case_rejected_by_primitive")
                    ctx.sample({"rejected": c, "exc": f"{type(e).__name__}: {e}"}, limit=6)
    if ctx.cov.get("catalogue_case_rejected_by_primitive", 0) > len(obs) // 3 + 10:
        raise MachineryError(f"{ctx.cov['catalogue_case_rejected_by_primitive']} catalogue cases rejected by the primitives: value tables are wrong")
    if group == "C16":
        obs += api_observations()
    for k, o in enumerate(obs):
        o["id"] = k + 1
        o.setdefault("name", "")
        o.setdefault("field", 0)
        o.setdefault("back", "")
        o.setdefault("diff", [])
        o.setdefault("dsok", True)
    verdicts = validate_traces(ctx, "Trace_Dimse", [{k: v for k, v in o.items() if k not in ("rig",)} for o in obs], timeout=3000)
    col = COL[group]
    for o in obs:
        v = verdicts[o["id"]][col]
        ctx.traces += 1
        if o["kind"] == "frag":
            key = ("frag", o["d"], o["max"], o["backing"])
            nontriv = len(o["pdvs"]) > 2 or o["backing"] == "file"
            if [x["len"] for x in o["pdvs"] if not x["cmd"]] != o["expected_data"] and v == "ok":
                ctx.drifted(f"data fragments for d={o['d']} max={o['max']} {o['backing']}: observed {[x['len'] for x in o['pdvs'] if not x['cmd']][:6]} reference {o['expected_data'][:6]}")
        elif o["kind"] == "msg":
            key = ("msg", o["name"], tuple(o["case"]["opts"]), o["case"]["ds"], o["case"]["vc"], o["max"])
            nontriv = bool(o["case"]["opts"]) or o["case"]["ds"] not in ("na", "absent")
        else:
            key = ("api", o["label"])
            nontriv = True
        ctx.case(key, nontrivial=nontriv)
        if v != "ok":
            if o["kind"] == "frag":
                sig = {"clause": v, "kind": "frag", "backing": o["backing"], "boundary": "multiple" if o["max"] and o["d"] and o["d"] % (o["max"] - 6) == 0 else "other"}
                detail = f"{v}: data set {o['d']} bytes ({o['backing']}), maximum {o['max']}: pdvs={o['pdvs'][:8]} pdu lengths={o['pdulens'][:8]} announces={o['announces']} rx={o['rx'][:3]}"
            elif o["kind"] == "msg":
                sig = {"clause": v, "kind": "msg", "name": o["name"], "ds": o["case"]["ds"] if v.startswith("C16") or v == "C17_DataSet" else "*",
                       "param": ",".join(sorted(d.split(":")[0] for d in o["diff"])) if v == "C17_Parameter" else "*"}
                detail = f"{v}: {o['name']} opts={o['case']['opts']} ds={o['case']['ds']} vc={o['case']['vc']} max={o['max']}: field={o['field']} back={o['back']} diff={o['diff']} dsok={o['dsok']} announces={o['announces']} pdvs={o['pdvs'][:4]} rx={o['rx']}"
            else:
                sig = {"clause": v, "kind": "api", "label": o["label"]}
                detail = f"{v}: {o['label']}: announces={o['announces']} pdvs={o['pdvs']} delivered={[r['done'] for r in o['rx']]}"
            ctx.violation(sig, detail, {k: vv for k, vv in o.items() if k != "rig"})
    for o in (obs[0], obs[len(obs) // 2], obs[-1]):
        ctx.sample({k: v for k, v in o.items() if k not in ("rig", "rx")})
    ctx.assume("fragmentation observed on C-STORE-RQ messages (in-memory BytesIO and file-backed data sets); command set length is the real one",
               "catalogue cases use in-range values the primitives accept; parameters the primitive does not have are skipped and reported")
    return ctx.finish(rule="TLC behaviours of Dimse.tla (data length x maximum x regrouping) on the real encode_msg/decode_msg; TLC-enumerated catalogue "
                      "cases (message x optional subset x data-set state x value class) round-tripped; non-trivial = more than two PDVs / file-backed / optional parameters or a data set")
