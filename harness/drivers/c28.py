"""C28 — every status code has one category and all status tables agree with it.

The implementation is observed (code_to_category over all 65536 codes, every row of every status
table, finality probes on the real SCU iterators and the real C-FIND SCP); spec/Status.tla walks the
code space in TLC (one state per code) and evaluates C28_Total, C28_Standard, C28_TablesAgree and
C28_Finality on the observed values (C2S).
"""
from __future__ import annotations

import json
import os

from common import Ctx, MachineryError
from tlc import must_ok, run_tlc
import pn  # noqa: F401
from scu_rig import (PATIENT_ROOT_FIND, PATIENT_ROOT_GET, PATIENT_ROOT_MOVE, REPOSITORY_QUERY, ScuRig,
                     find_rsp, get_rsp, ident_bytes, move_rsp)
from scp_rig import ScpRig, find_rq

IMPL = "1.2.840.10008.1.2"


def table_rows():
    import pynetdicom.status as S

    rows = []
    names = [n for n in dir(S) if n.endswith("_STATUS") and isinstance(getattr(S, n), dict)]
    for n in sorted(names):
        for code, val in getattr(S, n).items():
            rows.append({"table": n, "code": int(code), "cat": val[0]})
    return rows, names


def scu_continues(op: str, model: str, code: int) -> bool:
    """Feed [response(code), response(Success)] to the real SCU iterator: is the second one surfaced?"""
    uid = {"find": REPOSITORY_QUERY if model == "Repository" else PATIENT_ROOT_FIND,
           "get": PATIENT_ROOT_GET, "move": PATIENT_ROOT_MOVE}[op]
    rig = ScuRig([(1, uid, IMPL, True, False)])
    ident = ident_bytes()
    mk = {"find": find_rsp, "get": get_rsp, "move": move_rsp}[op]
    first = mk(code, identifier=ident if op == "find" else None, sop_class=uid)
    if op == "find" and code not in (0xFF00, 0xFF01):
        first = mk(code, sop_class=uid)
    rig.inject(first)
    rig.inject(mk(0x0000, sop_class=uid))
    from pydicom.dataset import Dataset
    q = Dataset()
    q.QueryRetrieveLevel = "PATIENT"
    q.PatientID = "*"
    a = rig.assoc
    if op == "find":
        it = a.send_c_find(q, uid)
    elif op == "get":
        it = a.send_c_get(q, uid)
    else:
        it = a.send_c_move(q, "DEST", uid)
    got = [int(st.Status) for st, _ in it if "Status" in st]
    return len(got) >= 2 and got[0] == code


def scp_continues(model: str, code: int) -> bool:
    """C-FIND SCP: the handler yields (code, identifier) then (Pending, identifier): is the
    operation still open after `code` (i.e. is the handler asked for / the peer sent a further response)?"""
    from pynetdicom import evt
    from pydicom.dataset import Dataset

    uid = REPOSITORY_QUERY if model == "Repository" else PATIENT_ROOT_FIND
    pulled = []

    def handler(event):
        ds = Dataset()
        ds.QueryRetrieveLevel = "PATIENT"
        ds.PatientID = "1"
        pulled.append(1)
        yield code, ds
        pulled.append(2)
        yield 0xFF00, ds
        pulled.append(3)

    rig = ScpRig([(1, uid, IMPL, False, True)], handlers=[(evt.EVT_C_FIND, handler)])
    rig.serve(find_rq(sop_class=uid), 1)
    statuses = [int(p.Status) for p, _ in rig.sent]
    # continued = a response for the second yield (Pending FF00) was sent after the first
    return len(statuses) >= 2 and statuses[1] == 0xFF00 and statuses[0] == code


def run(ctx: Ctx) -> int:
    from pynetdicom.status import code_to_category

    thorough = ctx.tier == "thorough"
    cats = [code_to_category(c) for c in range(65536)]
    rows, names = table_rows()
    tcodes = sorted({r["code"] for r in rows})
    codes = sorted(set(tcodes[:: (1 if thorough else 97)]) | {c for c in tcodes if c < 0x1000 or c >= 0xD000} | {0, 1, 2, 0x00FF, 0x0100, 0x0105, 0x0107, 0x0116, 0x0124, 0x0125, 0x01FF, 0x0200,
                                                  0x0210, 0x0213, 0x0214, 0x9FFF, 0xA000, 0xA700, 0xAFFF, 0xB000, 0xB001, 0xB002,
                                                  0xBFFF, 0xC000, 0xCFFF, 0xD000, 0xFDFF, 0xFE00, 0xFE01, 0xFEFF, 0xFF00, 0xFF01,
                                                  0xFF02, 0xFFFF})
    if thorough:
        codes = list(range(0, 65536, 1))
    probes = []
    for code in codes:
        combos = [("find", "PatientRoot"), ("find", "Repository")]
        if not thorough or code % 16 == 0 or code in (0xFF00, 0xFF01, 0xB001):
            combos += [("get", "PatientRoot"), ("move", "PatientRoot")]
        for op, model in combos:
            probes.append({"side": "scu", "op": op, "model": model, "code": code, "continued": scu_continues(op, model, code)})
            ctx.case(("scu", op, model, cats[code]))
        if not thorough or code % 8 == 0 or code in (0xFF00, 0xFF01, 0xB001):
            for model in ("PatientRoot", "Repository"):
                probes.append({"side": "scp", "op": "find", "model": model, "code": code, "continued": scp_continues(model, code)})
                ctx.case(("scp", model, cats[code]))
    ctx.traces = len(probes)
    # the tables are judged as they are AFTER the library has been used: the probes above, and C-GET / C-MOVE SCPs whose
    # sub-operations were answered with status codes no table lists (vendor warnings, unknown codes) - they are module-level
    # dictionaries shared by every association of the process
    import scp_exec
    old_sub = dict(scp_exec.SUB_STATUS)
    try:
        for code in (0xB00C, 0xB0F0, 0x0001, 0xFFF0, 0xFF00):
            scp_exec.SUB_STATUS["W"] = code
            for svc in ("GET", "MOVE"):
                pre = [{"k": "dest", "st": "ok", "ds": "none", "sub": "S"}] if svc == "MOVE" else []
                scp_exec.execute(svc, pre + [{"k": "count", "st": "n1", "ds": "none", "sub": "S"}, {"k": "y", "st": "P0", "ds": "ds", "sub": "W"}])
                ctx.case(("exercise", svc, code))
    finally:
        scp_exec.SUB_STATUS.clear()
        scp_exec.SUB_STATUS.update(old_sub)
    rows, names = table_rows()
    dump = os.path.join(ctx.work, "dump.json")
    with open(dump, "w") as f:
        by_rows = [[] for _ in range(65536)]
        for row in rows:
            by_rows[row["code"]].append(row)
        by_probes = [[] for _ in range(65536)]
        for p in probes:
            by_probes[p["code"]].append(p)
        json.dump({"cat": cats, "rowsByCode": by_rows, "probesByCode": by_probes}, f)
    r = must_ok(run_tlc("Status", workdir=ctx.work, env={"DUMP": dump}, workers=8, cont=True, timeout=3000))
    ctx.add_tlc(r)
    if r.distinct != 65536:
        raise MachineryError(f"Status walk visited {r.distinct} codes, expected 65536")
    import re
    bad = set(re.findall(r"Error: Invariant (\S+) is violated", r.out))
    if bad:
        # locate the offending codes in Python for the report (TLC named the failing predicate)
        for inv in sorted(bad):
            if inv == "C28_TablesAgree":
                for row in rows:
                    if row["cat"] != cats[row["code"]]:
                        ctx.violation({"clause": inv, "code": row["code"], "table": row["table"]},
                                      f"table {row['table']} says {row['cat']} for 0x{row['code']:04X}, code_to_category says {cats[row['code']]}", row)
            elif inv == "C28_Finality":
                for p in probes:
                    want = cats[p["code"]] == "Pending" or (p["model"] == "Repository" and p["code"] == 0xB001)
                    if p["continued"] != want:
                        ctx.violation({"clause": inv, "side": p["side"], "op": p["op"], "model": p["model"], "cat": cats[p["code"]],
                                       "code": p["code"] if p["code"] in (0xB001, 0xFF00, 0xFF01) else "*"},
                                      f"{p['side']} {p['op']} ({p['model']}): after status 0x{p['code']:04X} ({cats[p['code']]}) continued={p['continued']}, expected {want}", p)
            else:
                ctx.violation({"clause": inv}, f"TLC: {inv} violated on the observed category function", None)
    ctx.sample({"tables": len(names), "rows": len(rows), "probe": probes[0]})
    ctx.sample(probes[len(probes) // 2])
    ctx.assume("PS3.7 Annex C range rules as transcribed in Status.tla (01xx/02xx codes: Failure where assigned)",
               "finality probes drive the real send_c_find/get/move iterators and the real C-FIND SCP with the transport cut at the DIMSE boundary")
    return ctx.finish(rule="all 65536 codes and every row of every status table checked by TLC on the observed dump; "
                      "finality probes per (side, operation, model, code); distinct = distinct (side, op, model, category)",
                      exhaustive=True, extra={"tables": len(names), "table_rows": len(rows), "probes": len(probes)})
