"""C13 — associations are established only when the acceptance policy allows them.

MC  : spec/Policy.tla — every combination of calling title (padding / case / embedded-space variants),
      required-calling list, called title, own title, require-called switch and identity verdict;
      C13_OnlyIfAllowed, C13_NoHandlerAfterReject.
S2C : every case TLC enumerates is sent as raw A-ASSOCIATE-RQ bytes (exact title bytes) to a real
      acceptor AE on loopback; whatever the answer, a C-ECHO request follows on the same connection.
C2S : Trace_Policy judges (established?, rejected with which source/reason?, handler calls).
"""
from __future__ import annotations

import re
import threading
import time
import warnings

from common import Ctx, MachineryError
from tlc import _P, must_ok, run_tlc
from trace import validate_traces
import pn  # noqa: F401


def title(t):
    # ("%00" in the model's title: the rest of the 16-byte field is filled with NUL bytes)
    if t["core"].endswith("%00"):
        return (" " * t["lead"] + t["core"][:-3]).ljust(16, "\x00")
    return " " * t["lead"] + t["core"] + " " * t["trail"]


def observe(lab, c):
    lab.configure([{"ab": "A", "ts": ["T1"], "scu": "N", "scp": "N"}], "normal",
                  require_calling=[title(r) for r in c["required"]], require_called=c["requireCalled"],
                  identity=None if c["identity"] in ("none", "unbound") else c["identity"], inplace=c.get("how") == "inplace")
    lab.server.ae_title = title(c["own"])
    lab.apply_idhist(None if c["identity"] in ("none", "unbound") else c["identity"], c["idhist"])
    ident = None if c["identity"] == "none" else {"type": 1, "primary": b"user"}
    cg, cd = title(c["calling"]), title(c["called"])
    rq = lab.rq_pdu([{"id": 1, "ab": "A", "ts": ["T1"]}], calling=cg.replace("\x00", " "), called=cd.replace("\x00", " "), identity=ident)
    raw = bytearray(rq.encode())
    if "\x00" in cd:                  # the exact bytes of the 16-byte title fields (called: 10..25, calling: 26..41)
        raw[10:26] = cd.encode("ascii")[:16].ljust(16, b"\x00")
    if "\x00" in cg:
        raw[26:42] = cg.encode("ascii")[:16].ljust(16, b"\x00")
    out = lab.raw_associate(bytes(raw), then_echo=True)
    a = lab.acceptor_view(0.5)
    t0 = time.time()
    while out["kind"] == "AC" and not lab.handler_calls and time.time() - t0 < 0.5:
        time.sleep(0.005)
    est = out["kind"] == "AC"
    rj = out["kind"] == "RJ"
    return {"c": c, "established": est, "rejected": rj, "src": int(out["pdu"].source) if rj else -1, "rsn": int(out["pdu"].reason_diagnostic) if rj else -1,
            "result": int(out["pdu"].result) if rj else -1, "calls": len(lab.handler_calls), "kind": out["kind"],
            "acceptor_established": bool(a is not None and (a.is_established or a.is_released)), "user_id_calls": lab.user_id_calls}


def handler_bindings(ctx: Ctx):
    """Handlers.tla: the binding rules the acceptance-policy slot (and every other handler slot) follows.  TLC checks the
    rules' consequences exhaustively for short histories and simulates longer ones; those are run on a real server and its
    real associations, and Trace_Handlers compares what get_handlers() / a C-ECHO show with Apply() step by step.
    A difference is reported as drift of the binding model (C13's own predicate is judged on the EVT_USER_ID histories)."""
    import os
    from handlers_lab import HandlersLab
    from tlc import read_sim_traces

    thorough = ctx.tier == "thorough"
    r = must_ok(run_tlc("Handlers", "Handlers.cfg" if thorough else "Handlers_quick.cfg", workdir=ctx.work, workers=8, timeout=1500))
    ctx.add_tlc(r)
    if r.violated:
        ctx.violation({"where": "model", "invariant": r.violated}, f"Handlers.tla violates {r.violated}", r.trace)
        return
    sim = os.path.join(ctx.work, "hsim")
    os.makedirs(sim, exist_ok=True)
    n = 1200 if thorough else 160
    must_ok(run_tlc("Handlers", "Handlers_sim.cfg", workdir=ctx.work, workers=1, simulate=f"file={sim}/tr,num={n}", depth=9, seed=ctx.seed + 131))
    hists = []
    for beh in read_sim_traces(os.path.join(sim, "tr")):
        ops = [dict(o) for o in beh[-1][1]["hist"]]
        if ops:
            hists.append(ops)
    if len(hists) < n // 2:
        raise MachineryError(f"only {len(hists)} simulated binding histories read")
    nthreads = 8
    outs = [[] for _ in range(nthreads)]
    errs = []

    def worker(k):
        lab = HandlersLab()
        try:
            for ops in hists[k::nthreads]:
                try:
                    outs[k].append({"ops": ops, "obs": [lab.apply(op) for op in ops]})
                finally:
                    lab.reset()
        except Exception as e:  # noqa: BLE001
            errs.append(f"{type(e).__name__}: {e}")
        finally:
            lab.close()

    ts = [threading.Thread(target=worker, args=(k,)) for k in range(nthreads)]
    [t.start() for t in ts]
    [t.join() for t in ts]
    if errs:
        raise MachineryError("handlers lab: " + errs[0])
    obs = [o for out in outs for o in out]
    for k, o in enumerate(obs):
        o["id"] = k + 1
    vs = validate_traces(ctx, "Trace_Handlers", obs, name="handlers", timeout=1800)
    for o in obs:
        v, step = vs[o["id"]][0], int(vs[o["id"]][1])
        ctx.traces += 1
        ctx.case(("bindings", tuple((p["k"], p["e"], p["h"], p["a"], p["x"]) for p in o["ops"])), nontrivial=any(p["k"] == "echo" for p in o["ops"]))
        if v != "ok":
            ctx.drifted(f"binding model {v} at step {step} of {[(p['k'], p['e'], p['h'], p['a'], p['x']) for p in o['ops'][:step]]}: real objects show {o['obs'][step - 1]}")
    ctx.cov["binding_histories"] = len(obs)


def run(ctx: Ctx) -> int:
    from neg_lab import NegLab

    warnings.simplefilter("ignore")
    r = must_ok(run_tlc("Policy", workdir=ctx.work, workers=1, timeout=1200))
    ctx.add_tlc(r)
    if r.violated:
        ctx.violation({"where": "model", "invariant": r.violated}, f"Policy.tla violates {r.violated}", r.trace)
        return ctx.finish(rule="model violated its own invariants")
    cases = []
    for m in re.finditer(r'<<\s*"CASE",', r.out):
        p = _P(r.out)
        p.i = m.start()
        v = p.value()[1]
        cases.append({"calling": v["calling"], "called": v["called"], "own": v["own"], "requireCalled": v["requireCalled"], "identity": v["identity"], "how": v["how"], "idhist": {"start": v["idhist"]["start"], "ops": [list(x) for x in v["idhist"]["ops"]]},
                      "required": [dict(t) for t in sorted(v["required"], key=repr)]})
    if len(cases) < 1000:
        raise MachineryError(f"only {len(cases)} cases exported")
    if ctx.tier != "thorough":
        import random
        plain = [c for c in cases if not c["idhist"]["ops"]]
        cases = random.Random(ctx.seed + 13).sample(plain, 2000) + [c for c in cases if c["idhist"]["ops"]]
    nthreads = 8
    outs = [[] for _ in range(nthreads)]

    def worker(k):
        lab = NegLab()
        try:
            for c in cases[k::nthreads]:
                outs[k].append(observe(lab, c))
        finally:
            lab.close()

    ts = [threading.Thread(target=worker, args=(k,)) for k in range(nthreads)]
    [t.start() for t in ts]
    [t.join() for t in ts]
    obs = [o for out in outs for o in out]
    for k, o in enumerate(obs):
        o["id"] = k + 1
        for key in ("calling", "called", "own"):
            o["c"][key] = dict(o["c"][key])
    verdicts = validate_traces(ctx, "Trace_Policy", obs, timeout=1800)
    for o in obs:
        v = verdicts[o["id"]][0]
        c = o["c"]
        ctx.traces += 1
        ctx.case((title(c["calling"]), tuple(title(x) for x in c["required"]), title(c["called"]), title(c["own"]), c["requireCalled"], c["identity"], c.get("how"), c["idhist"]["start"], tuple(map(tuple, c["idhist"]["ops"]))),
                 nontrivial=bool(c["required"]) or c["requireCalled"] or c["identity"] != "none")
        if v != "ok":
            ctx.violation({"clause": v, "identity": c["identity"], "reconfigured": bool(c["idhist"]["ops"]), "padded": bool(c["calling"]["lead"] or c["calling"]["trail"] or c["called"]["lead"] or c["called"]["trail"])},
                          f"{v}: calling={title(c['calling'])!r} required={[title(x) for x in c['required']]} called={title(c['called'])!r} own={title(c['own'])!r} "
                          f"require_called={c['requireCalled']} identity={c['identity']} EVT_USER_ID slot history={c['idhist']}: answer={o['kind']} result/source/reason=({o['result']},{o['src']},{o['rsn']}) "
                          f"DIMSE handler calls={o['calls']} user-id handler calls={o['user_id_calls']}", c)
    ctx.sample(obs[0])
    ctx.sample(obs[len(obs) // 2])
    handler_bindings(ctx)
    ctx.assume("AE titles = significant core + leading/trailing spaces; reject codes compared: (source, reason) = (1,3) calling / (1,7) called AE title not recognised; identity rejections may carry any codes",
               "after the A-ASSOCIATE answer the raw requestor always sends a C-ECHO request on context 1")
    return ctx.finish(rule="every policy case of Policy.tla (7 calling-title variants x 5 required lists x 4 called titles x 2 own titles x require_called x 5 identity verdicts; half of them in quick) "
                      "against a real acceptor; non-trivial = some policy element active")
