"""C03 — PDU framing is independent of how TCP splits the byte stream.

MC  : spec/Framing.tla — peer writes in arbitrary pieces and may close after any byte, the kernel hands
      over any part of what arrived, the reader collects header then body; C03_Prefix and
      C03_CloseIsClose for every interleaving of small frames; a second, greedy-reader configuration
      with the real PDU lengths enumerates the peer's write patterns and close points.
S2C : each pattern is played over real TCP loopback to a real pynetdicom acceptor (a stream of three
      P-DATA-TF PDUs carrying one C-ECHO-RQ in three command fragments plus an A-RELEASE-RQ, and the
      A-ASSOCIATE-RQ itself) and to a real pynetdicom requestor (the A-ASSOCIATE-AC), with short gaps
      and with gaps longer than the connection timeout but inside the protocol timeouts.
C2S : Trace_Framing judges what pynetdicom reported (EVT_DATA_RECV bytes, FSM events).
"""
from __future__ import annotations

import os
import random
import re
import socket
import threading
import time
import warnings

from common import Ctx, MachineryError
from tlc import _P, must_ok, run_tlc
from trace import validate_traces
import pn  # noqa: F401


def stream_frames():
    """[P-DATA(cmd frag 1), P-DATA(cmd frag 2), P-DATA(last cmd frag), A-RELEASE-RQ] as bytes."""
    from neg_lab import echo_command
    from pynetdicom.pdu import A_RELEASE_RQ

    payload = echo_command(1)            # control header + command set
    cmd = payload[1:]
    frags = [cmd[:10], cmd[10:20], cmd[20:]]
    out = []
    for k, f in enumerate(frags):
        hdr = b"\x03" if k == 2 else b"\x01"
        out.append(pn.pdata_pdu(1, hdr + f).encode())
    out.append(A_RELEASE_RQ().encode())
    return out


SMALL = [8, 9, 7]


def small_patterns(ctx: Ctx, maxcuts):
    """Write patterns / close points of the small Framing model (greedy reader: one behaviour per pattern)."""
    work = ctx.work
    with open(os.path.join(work, "MC_Pat.tla"), "w") as f:
        f.write(f"---- MODULE MC_Pat ----\nEXTENDS Framing\nLensDef == <<{', '.join(map(str, SMALL))}>>\n====\n")
    with open(os.path.join(work, "MC_Pat.cfg"), "w") as f:
        f.write(f"SPECIFICATION Spec\nCONSTANTS Lens <- LensDef\n MaxCuts = {maxcuts}\n Greedy = TRUE\n WakeOnArrivalOnly = FALSE\nINVARIANT C03_Prefix\nINVARIANT C03_CloseIsClose\nINVARIANT Export\n")
    r = must_ok(run_tlc("MC_Pat", "MC_Pat.cfg", workdir=work, workers=1, timeout=3000, spec_dir=work))
    ctx.add_tlc(r)
    if r.violated:
        ctx.violation({"where": "model", "invariant": r.violated}, f"Framing.tla violates {r.violated}", r.trace)
        return []
    out = set()
    for m in re.finditer(r'<<\s*"CASE",', r.out):
        p = _P(r.out)
        p.i = m.start()
        v = p.value()
        out.add((tuple(v[1]), bool(v[2]), int(v[3])))
    return sorted(out)


def map_offset(p, real_lens):
    """Map a stream offset of the small model onto the real stream, preserving its class (inside the header,
    header/body boundary, inside the body, frame boundary)."""
    base_s = base_r = 0
    for ls, lr in zip(SMALL, real_lens):
        if p <= base_s + ls:
            o = p - base_s
            if o <= 6:
                return base_r + o
            if o == ls:
                return base_r + lr
            return base_r + max(7, min(lr - 1, 6 + round((o - 6) * (lr - 6) / (ls - 6))))
        base_s += ls
        base_r += lr
    return base_r


def map_pattern(pat, real_lens):
    wr, cl, w = pat
    cuts, acc = [], 0
    for k in wr:
        acc += k
        cuts.append(map_offset(acc, real_lens))
    writes, prev = [], 0
    for c in cuts:
        if c > prev:
            writes.append(c - prev)
            prev = c
    return (tuple(writes), cl, prev)


def single_frame_patterns(n, rng, doubles):
    """All single cuts and close offsets of one PDU of n bytes, plus sampled double cuts (harness-generated)."""
    out = [((n,), False, n)]
    for c in range(1, n):
        out.append(((c, n - c), False, n))
        out.append(((c,), True, c))
    for _ in range(doubles):
        a, b = sorted(rng.sample(range(1, n), 2))
        out.append(((a, b - a, n - b), False, n))
        out.append(((a, b - a), True, b))
    return out


def send_pattern(sock, data: bytes, writes, closed, gap):
    pos = 0
    for k, n in enumerate(writes):
        if k:
            time.sleep(gap)
        sock.sendall(data[pos:pos + n])
        pos += n
    if closed:
        time.sleep(gap)
        try:
            sock.shutdown(socket.SHUT_WR)
        except OSError:
            pass
    return pos


class AcceptorLab:
    """Real pynetdicom acceptor; records, per association, the raw PDUs it reports and the FSM events."""

    def __init__(self, network_timeout=5, tls=False):
        from pynetdicom import AE, evt

        self.ae = AE("ACCEPTOR")
        self.ae.acse_timeout = 5
        self.ae.dimse_timeout = 5
        self.ae.network_timeout = network_timeout
        self.ae.add_supported_context("1.2.840.10008.1.1")
        self.ae.maximum_associations = 1000
        self.log = {}
        self.lock = threading.Lock()
        hs = [(evt.EVT_DATA_RECV, self._data), (evt.EVT_FSM_TRANSITION, self._fsm), (evt.EVT_C_ECHO, self._echo)]
        sslctx = None
        if tls:
            import ssl
            from common import REPO
            sslctx = ssl.create_default_context(ssl.Purpose.CLIENT_AUTH)
            sslctx.load_cert_chain(REPO + "/pynetdicom/tests/cert_files/server.crt", REPO + "/pynetdicom/tests/cert_files/server.key")
        self.tls = tls
        self.server = self.ae.start_server(("127.0.0.1", 0), block=False, evt_handlers=hs, ssl_context=sslctx)
        self.port = self.server.socket.getsockname()[1]

    def _rec(self, event):
        key = id(event.assoc)
        with self.lock:
            if key not in self.log:
                self.log[key] = {"assoc": event.assoc, "port": None, "n": len(self.log), "data": [], "fsm": [], "echo": 0}
            rec = self.log[key]
            if rec["port"] is None:
                try:
                    rec["port"] = event.assoc.requestor.port
                except Exception:  # noqa: BLE001
                    pass
            return rec

    def lookup(self, port):
        with self.lock:
            cands = [r for r in self.log.values() if (r["port"] or getattr(r["assoc"].requestor, "port", None)) == port]
            return max(cands, key=lambda r: r["n"]) if cands else {"data": [], "fsm": [], "echo": 0}

    def _data(self, event):
        self._rec(event)["data"].append(bytes(event.data))

    def _fsm(self, event):
        self._rec(event)["fsm"].append((event.current_state, event.fsm_event))

    def _echo(self, event):
        self._rec(event)["echo"] += 1
        return 0x0000

    def close(self):
        self.server.shutdown()


def run_acceptor_case(lab, frames, writes, closed, w, gap, on_rq=False):
    from neg_lab import recv_pdu

    rq = lab_rq()
    s = socket.create_connection(("127.0.0.1", lab.port), timeout=5)
    s.setsockopt(socket.IPPROTO_TCP, socket.TCP_NODELAY, 1)
    port = s.getsockname()[1]
    if getattr(lab, "tls", False):
        # every write below becomes one TLS record: what the peer wrote in one piece reaches the reader's TLS layer in one piece
        from stall_lab import client_tls
        s = client_tls().wrap_socket(s, server_hostname="localhost")
    try:
        if on_rq:
            send_pattern(s, rq, writes, closed, gap)
            ac = None if closed and w < len(rq) else recv_pdu(s, 3.0)
            sent_frames = [rq]
        else:
            s.sendall(rq)
            ac = recv_pdu(s, 3.0)
            if not ac or ac[0] != 2:
                raise MachineryError("no A-ASSOCIATE-AC from the acceptor lab")
            send_pattern(s, b"".join(frames), writes, closed, gap)
            sent_frames = frames
        # what was written must be delivered without any further action of the peer: before doing anything else (reading,
        # closing - either wakes a reader that sleeps on the socket), wait until the acceptor has reported every frame, at most
        # 3 s (well inside the 5 s timeouts); the frames reported by then are the ones judged
        snap = None
        if not closed:
            t0 = time.time()
            while time.time() - t0 < 3.0:
                snap = len(lab.lookup(port)["data"]) - (0 if on_rq else 1)
                if snap >= len(sent_frames):
                    break
                time.sleep(0.005)
        # let the acceptor finish: read whatever it answers until it closes or stays silent
        t0 = time.time()
        while time.time() - t0 < 3.0:
            b = recv_pdu(s, 0.5)
            if not b:
                break
    finally:
        s.close()
    # the acceptor ends the association on its own in every case (release, closed connection, idle timeout 5 s): wait for its
    # threads rather than for a fixed time (under load the end-of-stream can be processed long after the peer's close)
    deadline = time.time() + 9
    while time.time() < deadline:
        rec = lab.lookup(port)
        a = rec.get("assoc")
        if a is not None and not a.dul.is_alive():       # (the association thread itself may linger for acse_timeout)
            break
        time.sleep(0.01)
    time.sleep(0.02)
    rec = lab.lookup(port)
    got = rec["data"] if on_rq else rec["data"][1:]
    if snap is not None:
        got = got[:max(snap, 0)]
    delivered, intact = [], True
    for k, d in enumerate(got):
        delivered.append(k + 1)
        if k >= len(sent_frames) or d != sent_frames[k]:
            intact = False
    evs = [e for _, e in rec["fsm"]]
    # transport-closed seen before everything written was delivered, although the peer did not close early
    ev17before = (not closed) and "Evt17" in evs and len(delivered) < len(sent_frames)
    return {"role": "acceptor" + ("/rq" if on_rq else ""), "lens": [len(f) for f in sent_frames], "w": w, "closed": closed, "writes": list(writes), "gap": gap,
            "delivered": delivered, "intact": intact, "ev17": "Evt17" in evs, "ev19": "Evt19" in evs, "ev17before": ev17before, "echo": rec["echo"]}


_RQ = None


def lab_rq():
    global _RQ
    if _RQ is None:
        _RQ = pn.rq_pdu().encode()
    return _RQ


def run_requestor_case(writes, closed, w, gap, connection_timeout):
    """pynetdicom as requestor; a raw acceptor sends the A-ASSOCIATE-AC following the pattern."""
    from neg_lab import recv_pdu
    from pynetdicom import AE, evt
    from pynetdicom.pdu import A_RELEASE_RP

    ac = pn.ac_pdu().encode()
    srv = socket.socket()
    srv.bind(("127.0.0.1", 0))
    srv.listen(1)
    port = srv.getsockname()[1]
    done = threading.Event()

    def peer():
        try:
            c, _ = srv.accept()
            c.setsockopt(socket.IPPROTO_TCP, socket.TCP_NODELAY, 1)
            recv_pdu(c, 3.0)
            send_pattern(c, ac, writes, closed, gap)
            t0 = time.time()
            while time.time() - t0 < 4.0:
                b = recv_pdu(c, 0.5)
                if b == b"":
                    break
                if b and b[0] == 5:
                    c.sendall(A_RELEASE_RP().encode())
                elif b and b[0] == 7:
                    break
            c.close()
        except OSError:
            pass
        finally:
            done.set()

    t = threading.Thread(target=peer, daemon=True)
    t.start()
    data, fsm = [], []
    ae = AE("REQUESTOR")
    ae.acse_timeout, ae.dimse_timeout, ae.network_timeout = 5, 5, 5
    ae.connection_timeout = connection_timeout
    ae.add_requested_context("1.2.840.10008.1.1")
    assoc = ae.associate("127.0.0.1", port, evt_handlers=[(evt.EVT_DATA_RECV, lambda e: data.append(bytes(e.data))),
                                                           (evt.EVT_FSM_TRANSITION, lambda e: fsm.append((e.current_state, e.fsm_event)))])
    est = assoc.is_established
    if est:
        assoc.release()
    done.wait(6)
    srv.close()
    evs = [e for _, e in fsm]
    delivered = [1] if data[:1] else []
    return {"role": "requestor/ac", "lens": [len(ac)], "w": w, "closed": closed, "writes": list(writes), "gap": gap, "delivered": delivered,
            "intact": (not data) or data[0] == ac, "ev17": "Evt17" in evs, "ev19": "Evt19" in evs,
            "ev17before": (not closed) and not est, "echo": 0, "established": est, "ctimeout": connection_timeout}


def run(ctx: Ctx) -> int:
    warnings.simplefilter("ignore")
    thorough = ctx.tier == "thorough"
    rng = random.Random(ctx.seed + 3)
    # MC with every reader interleaving on small frames
    with open(os.path.join(ctx.work, "MC_Small.tla"), "w") as f:
        f.write("---- MODULE MC_Small ----\nEXTENDS Framing\nLensDef == <<8, 9, 7>>\n====\n")
    with open(os.path.join(ctx.work, "MC_Small.cfg"), "w") as f:
        f.write(f"SPECIFICATION Spec\nCONSTANTS Lens <- LensDef\n MaxCuts = {4 if thorough else 3}\n Greedy = FALSE\n WakeOnArrivalOnly = FALSE\nINVARIANT C03_Prefix\nINVARIANT C03_CloseIsClose\n")
    r = must_ok(run_tlc("MC_Small", "MC_Small.cfg", workdir=ctx.work, workers=16, timeout=3000, spec_dir=ctx.work))
    ctx.add_tlc(r)
    if r.violated:
        ctx.violation({"where": "model", "invariant": r.violated}, f"Framing.tla violates {r.violated}", r.trace)
        return ctx.finish(rule="model violated its own invariants")
    # liveness: what has arrived is consumed without a further action of the peer; a reader woken by arrivals only is refuted
    for wake, want in (("FALSE", None), ("TRUE", "C03_Prompt")):
        with open(os.path.join(ctx.work, f"MC_Live_{wake}.cfg"), "w") as f:
            f.write(f"SPECIFICATION FairSpec\nCONSTANTS Lens <- LensDef\n MaxCuts = 2\n Greedy = FALSE\n WakeOnArrivalOnly = {wake}\nPROPERTY C03_Prompt\n")
        rl = must_ok(run_tlc("MC_Small", f"MC_Live_{wake}.cfg", workdir=ctx.work, workers=4, timeout=1500, spec_dir=ctx.work))
        ctx.add_tlc(rl)
        if rl.violated != want:
            if want is None:
                ctx.violation({"where": "model", "invariant": rl.violated}, f"Framing.tla violates {rl.violated}", rl.trace)
                return ctx.finish(rule="model violated its own invariants")
            raise MachineryError(f"a reader woken by arrivals only is not refuted by TLC ({rl.violated!r})")
    frames = stream_frames()
    lens = [len(f) for f in frames]
    small = small_patterns(ctx, 4 if thorough else 3)
    if ctx.violations:
        return ctx.finish(rule="model violated its own invariants")
    # the small model has three frames: map them onto (P-DATA 1, P-DATA 2, P-DATA 3 + A-RELEASE-RQ handled below)
    pats = sorted({map_pattern(p, lens[:3]) for p in small})
    # continue every non-closing pattern with the A-RELEASE-RQ, cut at each class of offset
    ext = []
    for wr, cl, w in pats:
        if not cl and w == sum(lens[:3]):
            for tail in ((10,), (3, 7), (6, 4), (9, 1)):
                ext.append((wr + tail, False, w + 10))
        else:
            ext.append((wr, cl, w))
    for c in range(1, 10):
        ext.append(((sum(lens[:3]), c), True, sum(lens[:3]) + c))
    pats = sorted(set(ext))
    # harness-generated: every single cut / close offset of the whole stream
    n = sum(lens)
    pats += [p for p in single_frame_patterns(n, rng, 0)]
    rq_pats = single_frame_patterns(len(lab_rq()), rng, 60)
    ac_pats = single_frame_patterns(len(pn.ac_pdu().encode()), rng, 60)
    total = sum(lens)

    def pick(ps, n):
        single = [p for p in ps if len(p[0]) <= 2]
        multi = [p for p in ps if len(p[0]) > 2]
        return single + (multi if len(multi) <= n else rng.sample(multi, n))

    jobs = []
    for (wr, cl, w) in pick(pats, 3000 if thorough else 250):
        jobs.append(("acc", wr, cl, w, 0.003))
    for (wr, cl, w) in pick(rq_pats, 200)[:: (1 if thorough else 3)]:
        jobs.append(("rq", wr, cl, w, 0.003))
    for (wr, cl, w) in pick(ac_pats, 400 if thorough else 40)[:: (1 if thorough else 4)]:
        jobs.append(("ac", wr, cl, w, 0.003))
    # gaps longer than the connection timeout (requestor) / well inside the network timeout (acceptor)
    slow_ac = [p for p in ac_pats if len(p[0]) == 3 and not p[1]]
    for (wr, cl, w) in rng.sample(slow_ac, min(len(slow_ac), 6 if not thorough else 30)):
        jobs.append(("ac-slow", wr, cl, w, 0.7))
    slow_acc = [p for p in pats if len(p[0]) == 3 and not p[1]]
    for (wr, cl, w) in rng.sample(slow_acc, min(len(slow_acc), 6 if not thorough else 30)):
        jobs.append(("acc-slow", wr, cl, w, 0.6))
    # a PDU whose body is longer than one 4096-byte socket read (the body is collected over several recv() calls):
    # cuts and closes at the read-size boundaries, next to the header and the end, and at sampled offsets
    big = [pn.pdata_pdu(1, b"\x01" + bytes(range(1, 251)) * 28).encode(), frames[3]]
    nb = len(big[0])
    offs = sorted({1, 5, 6, 7, 4095, 4096, 4097, 4101, 4102, 4103, 6 + 4096 + 1, nb - 4096, nb - 1} | set(rng.sample(range(8, nb - 1), 40 if thorough else 8)))
    for c in offs:
        jobs.append(("acc-big", (c, nb - c, 10), False, nb + 10, 0.003))
        jobs.append(("acc-big", (c,), True, c, 0.003))
    jobs.append(("acc-big", (nb, 4), True, nb + 4, 0.003))
    # the same stream over TLS (pynetdicom as TLS acceptor): each write of the peer is one TLS record, so several PDUs written in
    # one piece arrive inside one record - whole stream in one write, split at every PDU boundary, and sampled cuts
    bounds = [sum(lens[:k]) for k in range(1, len(lens))]
    tls_pats = [((total,), False, total)] + [((b, total - b), False, total) for b in bounds]
    tls_pats += [((bounds[0], bounds[1] - bounds[0], total - bounds[1]), False, total), ((bounds[1], bounds[2] - bounds[1], total - bounds[2]), False, total)]
    for c in rng.sample(range(1, total), 20 if thorough else 6):
        tls_pats.append(((c, total - c), False, total))
    for (wr, cl, w) in tls_pats:
        jobs.append(("acc-tls", wr, cl, w, 0.003))
    lab = AcceptorLab()
    tls_lab = AcceptorLab(tls=True)
    obs, lock = [], threading.Lock()
    errors = []

    def worker(chunk):
        for kind, wr, cl, w, gap in chunk:
            try:
                if kind in ("acc", "acc-slow"):
                    o = run_acceptor_case(lab, frames, wr, cl, w, gap)
                elif kind == "acc-tls":
                    o = run_acceptor_case(tls_lab, frames, wr, cl, w, gap)
                    o["role"] = "acceptor/tls"
                elif kind == "acc-big":
                    o = run_acceptor_case(lab, big, wr, cl, w, gap)
                elif kind == "rq":
                    o = run_acceptor_case(lab, frames, wr, cl, w, gap, on_rq=True)
                else:
                    o = run_requestor_case(wr, cl, w, gap, 0.3 if kind == "ac-slow" else None)
                with lock:
                    obs.append(o)
            except MachineryError as e:
                errors.append(str(e))

    nthreads = 8
    ts = [threading.Thread(target=worker, args=(jobs[k::nthreads],)) for k in range(nthreads)]
    [t.start() for t in ts]
    [t.join() for t in ts]
    lab.close()
    tls_lab.close()
    if errors:
        raise MachineryError(errors[0])
    for k, o in enumerate(obs):
        o["id"] = k + 1
    keep = ("id", "lens", "w", "closed", "delivered", "intact", "ev17", "ev19", "ev17before")
    verdicts = validate_traces(ctx, "Trace_Framing", [{k: o[k] for k in keep} for o in obs], timeout=1800)
    for o in obs:
        v = verdicts[o["id"]][0]
        ctx.traces += 1
        ctx.case((o["role"], tuple(o["writes"]), o["closed"], o["gap"]), nontrivial=len(o["writes"]) > 1 or o["closed"])
        if v != "ok":
            pos = "header" if any((sum(o["writes"][:k + 1]) - sum(l for l in o["lens"] if False)) % 1 == 0 for k in range(0)) else ""
            ctx.violation({"clause": v, "role": o["role"], "slow": o["gap"] > 0.1},
                          f"{v}: {o['role']}: frames {o['lens']}, peer writes {o['writes']} (gap {o['gap']} s), closed early={o['closed']} after {o['w']} bytes: "
                          f"delivered={o['delivered']} intact={o['intact']} Evt17={o['ev17']} Evt19={o['ev19']} echo handler calls={o['echo']}", o)
    ctx.sample(obs[0])
    ctx.sample(obs[-1])
    ctx.assume("TCP loopback with TCP_NODELAY and a pause between writes; the kernel may still coalesce pieces, which the property permits",
               "gaps: 3 ms, and 0.6-0.7 s (longer than connection_timeout 0.3 s on the requestor, shorter than the 5 s acse/dimse/network timeouts)")
    return ctx.finish(rule="write patterns (up to 2 cuts) and close points enumerated by TLC for the real PDU lengths: all single cuts and all close offsets, sampled double cuts, "
                      "on the acceptor's P-DATA/RELEASE stream, a 7 kB P-DATA-TF (body longer than one socket read) followed by A-RELEASE-RQ, the A-ASSOCIATE-RQ and the requestor's A-ASSOCIATE-AC; non-trivial = at least one cut or an early close")
