"""C01 — every PDU value survives encode/decode and matches the PS3.8 byte layout.

MC  : spec/Gen_Pdu.tla over spec/PduLayout.tla — the bounded space of well-formed values of the seven
      PDUs (all item and sub-item kinds); TLC checks the layout lemmas on Bytes(v) for every value.
S2C : every (value, Bytes(v)) pair TLC exports is run on the real codec: primitive -> PDU -> encode must
      equal Bytes(v) byte for byte; decode(Bytes(v)) must equal the PDU and re-encode to the same
      bytes; PDU -> primitive must preserve every transmitted parameter.
C2S : Trace_Pdu judges the observations and re-reads the produced bytes with PduLayout's structural
      reader (every nested length field).
"""
from __future__ import annotations

import json
import os
import warnings

from common import Ctx, MachineryError
from tlc import must_ok, run_tlc
from trace import validate_traces
import pn  # noqa: F401

LEMMAS = ("L_Length", "L_Type", "L_Fixed", "L_ItemsSplit", "L_WellFormed")


def gen_values(ctx: Ctx, part: str, maxlens: str, check=True):
    if check:
        cfg = os.path.join(ctx.work, f"MC_Pdu_{part}.cfg")
        with open(cfg, "w") as f:
            f.write(f'SPECIFICATION Spec\nCONSTANTS Part = "{part}"\n MaxLens = {maxlens}\n' + "".join(f"INVARIANT {x}\n" for x in LEMMAS))
        r = must_ok(run_tlc("Gen_Pdu", cfg, workdir=ctx.work, workers=16, timeout=3000))
        ctx.add_tlc(r)
        if r.violated:
            ctx.violation({"where": "model", "part": part, "invariant": r.violated}, f"Gen_Pdu/PduLayout violates {r.violated}", r.trace)
            return []
    cfg = os.path.join(ctx.work, f"Dump_Pdu_{part}.cfg")
    out = os.path.join(ctx.work, f"values_{part}.ndjson")
    with open(cfg, "w") as f:
        f.write(f'SPECIFICATION DumpSpec\nCONSTANTS Part = "{part}"\n MaxLens = {maxlens}\n')
    must_ok(run_tlc("Gen_Pdu", cfg, workdir=ctx.work, workers=1, env={"OUT": out}, timeout=3000))
    vals = [json.loads(l) for l in open(out) if l.strip()]
    if not vals:
        raise MachineryError(f"no values exported for {part}")
    return vals


def run(ctx: Ctx) -> int:
    import pdu_lab as L

    warnings.simplefilter("ignore")
    thorough = ctx.tier == "thorough"
    maxlens = "{0, 1, 16382, 65536, 2147483647}" if thorough else "{0, 16382, 2147483647}"
    obs = []
    for part in ("SMALL", "AC", "RQ"):
        vals = gen_values(ctx, part, maxlens)
        if ctx.violations:
            return ctx.finish(rule="model violated its own lemmas")
        ctx.count(f"values_{part}", len(vals))
        if part == "RQ" and not thorough:
            # quick: every 4th value plus every value with a user-identity item or more than one context
            vals = [x for k, x in enumerate(vals) if k % 4 == 0 or any(it["k"] == "uidrq" for it in x["v"]["userinfo"]) and k % 2 == 0]
        for x in vals:
            o = L.observe(x["v"], x["bytes"])
            o["v"] = x["v"]
            obs.append(o)
    traces = []
    for k, o in enumerate(obs):
        o["id"] = k + 1
        traces.append({"id": o["id"], "kind": "c01", "pdu": o["pdu"], "enc": o["enc"], "enc_ok": o["enc_ok"], "dec_eq": o["dec_eq"], "reenc_ok": o["reenc_ok"],
                       "ndiff": len(o["prim_diff"]), "exc": o["exc"], "rq": [], "ac": []})
    verdicts = validate_traces(ctx, "Trace_Pdu", traces, timeout=3000, workers=1)
    for o in obs:
        v = verdicts[o["id"]][0]
        ctx.traces += 1
        val = o["v"]
        kinds = tuple(sorted({it["k"] for it in val.get("userinfo", [])}))
        ctx.case(json.dumps(val, sort_keys=True), nontrivial=val["pdu"] in ("RQ", "AC", "PDATA"))
        if v != "ok":
            feature = "+".join(k for k in kinds if k not in ("maxlen", "implcls")) or val["pdu"]
            uid = next((it for it in val.get("userinfo", []) if it["k"] == "uidrq"), None)
            if uid is not None:
                feature = f"uidrq:type{uid['type']}:primary{len(uid['primary'])}:secondary{len(uid['secondary'])}"
            ctx.violation({"clause": v, "pdu": val["pdu"], "feature": feature},
                          f"{v}: {val['pdu']} value with user-information items {kinds}: enc_ok={o['enc_ok']} first differing byte={o.get('first_diff')} dec_eq={o['dec_eq']} "
                          f"reenc_ok={o['reenc_ok']} primitive differences={o['prim_diff'][:3]} exc={o['exc']}", val)
    ctx.sample({k: v for k, v in obs[0].items() if k != "enc"})
    ctx.sample({k: v for k, v in obs[-1].items() if k != "enc"})
    ctx.assume("leaf strings (UIDs, AE titles, names) come from the finite pool in spec/PduLeaves.tla; structure, multiplicities and length arithmetic are exhaustive within Gen_Pdu's option sets",
               "values are in the normal form the primitives accept (no duplicate transfer syntax in a context); AE titles compared modulo space padding")
    return ctx.finish(rule="all values of Gen_Pdu (RJ/ABORT/RELEASE/P-DATA: all; AC: all; RQ: every 4th plus identity variants in quick, all in thorough): byte equality with Bytes(v), "
                      "decode equality, re-encode, primitive round trip; non-trivial = RQ/AC/P-DATA values")
