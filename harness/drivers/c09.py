"""C09 — protocol timers measure elapsed time, unaffected by wall-clock changes.

MC  : spec/Timer.tla. The design that reads the elapsed clock satisfies C09_Expired on the whole
      bounded model; the design that reads the wall clock violates it (non-vacuity of the property).
S2C : TLC -simulate behaviours of Timer are replayed, action by action, into the real
      pynetdicom.timer.Timer running on a two-clock virtual time module.
C2S : the log of every replay (action, argument, observed `expired`) is validated by
      spec/Trace_Timer.tla, which evaluates SpecExpired (elapsed time only) at every step.
"""
from __future__ import annotations

import os
import random
import re

from common import Ctx, MachineryError
from tlc import must_ok, read_sim_traces, run_tlc
from trace import validate_traces
from fakes import VirtualClock, install_clock
import pn  # noqa: F401  (sets sys.path)


def replay(beh, tid: int) -> dict:
    """Drive the real Timer along one TLC behaviour; return the recorded trace."""
    from pynetdicom.timer import Timer

    st0 = beh[0][1]
    clock = VirtualClock(wall=1_000_000.0 + st0["wall"], mono=777.0)
    steps = []
    with install_clock(clock):
        t = Timer(None if st0["timeout"] == -1 else st0["timeout"])
        prev = st0
        for label, st in beh[1:]:
            m = re.match(r"(\w+)(?:\((-?\d+)\))?", label)
            a, v = m.group(1), int(m.group(2)) if m.group(2) else 0
            if a == "Start":
                t.start()
            elif a == "Restart":
                t.restart()
            elif a == "Stop":
                t.stop()
            elif a == "SetTimeout":
                t.timeout = None if v == -1 else v
            elif a == "Advance":
                clock.advance(v)
            elif a == "WallJump":
                clock.jump_wall(v)
            else:
                raise MachineryError(f"unknown Timer action {label}")
            steps.append({"a": a, "v": v, "expired": bool(t.expired)})
            prev = st
    return {"id": tid, "wall0": st0["wall"], "timeout0": st0["timeout"], "steps": steps}


def random_behaviours(rng: random.Random, n: int, depth: int):
    """Longer, harness-generated action sequences with the same alphabet (seeded)."""
    out = []
    for _ in range(n):
        st0 = {"wall": rng.choice([0, 100]), "timeout": rng.choice([-1, 0, 1, 2, 3, 5, 30])}
        beh = [("Init", st0)]
        for _ in range(depth):
            a = rng.choice(["Start", "Restart", "Stop", "SetTimeout", "Advance", "Advance", "WallJump", "WallJump"])
            if a == "SetTimeout":
                a += f"({rng.choice([-1, 0, 1, 2, 3, 5, 30])})"
            elif a == "Advance":
                a += f"({rng.choice([1, 1, 2, 3, 7, 31])})"
            elif a == "WallJump":
                a += f"({rng.choice([-86400, -50, -3, -1, 1, 3, 50, 86400])})"
            beh.append((a, {}))
        out.append(beh)
    return out


def replay_use(beh):
    """Drive a real acceptor node (real DUL thread, real timers on the virtual clocks) along one
    TimerUse behaviour; after every step compare the provider's answers with idleExp / artimExp."""
    from rig import Rig

    rig = Rig("acceptor", gate_idle=False)
    ctl = rig.ctl
    a = rig.assoc
    out = []
    try:
        a.acse_timeout = 3
        a.network_timeout = 4
        rig.start_assoc_thread()
        ctl.step("dul"); ctl.step("dul")          # Evt5 -> AE-5 -> Sta2, ARTIM started
        def idle_iteration():
            ctl.step("dul")
            q18 = 18 in [int(e[3:]) for e in list(a.dul.event_queue.queue)]
            return q18
        for label, st in beh[1:]:
            m = re.match(r"(\w+)(?:\((-?\d+)\))?", label)
            act, v = m.group(1), int(m.group(2)) if m.group(2) else 0
            q18 = False
            if act == "Establish":
                rig.feed("RQ")
                ctl.step("dul"); ctl.step("dul")      # read RQ (idle restart), AE-6
                ctl.step("assoc")                     # accept
                ctl.step("dul"); ctl.step("dul")      # AE-7 -> Sta6
            elif act == "Data":
                rig.feed("PD_FRAG")
                ctl.step("dul"); ctl.step("dul")
            elif act == "Advance":
                rig.clock.advance(v)
                q18 = idle_iteration()
            elif act == "WallJump":
                rig.clock.jump_wall(v)
                q18 = idle_iteration()
            obs = {"a": act, "v": v, "idleExp": bool(a.dul.idle_timer_expired()),
                   "artimExp": bool(a.dul.artim_timer.expired) if st["phase"] == "sta2" else False,
                   "evt18": q18, "spec_idle": st["idleExp"], "spec_artim": st["artimExp"], "phase": st["phase"]}
            out.append(obs)
            if act in ("Advance", "WallJump"):
                if st["artimExp"] or q18:
                    break                              # the provider is now closing (AA-2)
                ctl.step("dul")                        # finish the idle iteration (event half)
        return out
    finally:
        rig.close()


def run(ctx: Ctx) -> int:
    thorough = ctx.tier == "thorough"
    # MC: the elapsed-clock design satisfies the property ...
    r = must_ok(run_tlc("MC_Timer", "MC_Timer_mono.cfg", workdir=ctx.work, coverage=True))
    ctx.add_tlc(r)
    if r.violated:
        ctx.violation({"where": "model", "invariant": r.violated}, "Timer.tla (elapsed clock design) violates " + r.violated, r.trace)
    for act in ("Start", "Stop", "SetTimeout", "Advance", "WallJump"):
        if r.coverage.get(act, 0) == 0:
            raise MachineryError(f"Timer action {act} never taken (vacuous)")
    # ... and the wall-clock design does not (the property discriminates)
    rw = must_ok(run_tlc("MC_Timer", "MC_Timer_wall.cfg", workdir=ctx.work))
    if rw.violated != "C09_Expired":
        raise MachineryError("wall-clock design was not rejected by C09_Expired: property is vacuous")
    ctx.cov["wall_design_counterexample_len"] = len(rw.trace)
    # S2C: behaviours from TLC
    sim = os.path.join(ctx.work, "sim")
    os.makedirs(sim)
    n = 3000 if thorough else 400
    rs = must_ok(
        run_tlc("MC_Timer", "MC_Timer_mono.cfg", workdir=ctx.work, workers=1,
                simulate=f"file={sim}/tr,num={n}", depth=14, seed=ctx.seed + 1)
    )
    behs = read_sim_traces(os.path.join(sim, "tr"))
    if len(behs) < n // 2:
        raise MachineryError(f"only {len(behs)} simulated behaviours read")
    rng = random.Random(ctx.seed)
    behs += random_behaviours(rng, 20000 if thorough else 1500, 24)
    traces = [replay(b, i + 1) for i, b in enumerate(behs)]
    verdicts = validate_traces(ctx, "Trace_Timer", traces)
    for t in traces:
        v = int(verdicts[t["id"]][0])
        ctx.traces += 1
        key = tuple((s["a"], s["v"], s["expired"]) for s in t["steps"])
        ctx.case(hash(key), nontrivial=any(s["expired"] for s in t["steps"]) and any(s["a"] == "WallJump" for s in t["steps"]))
        if v:
            st = t["steps"][v - 1]
            jumps = [s["v"] for s in t["steps"][:v] if s["a"] == "WallJump"]
            sign = "forward" if st["a"] == "WallJump" and st["v"] > 0 else "backward" if st["a"] == "WallJump" else "after-jump" if jumps else "no-jump"
            ctx.violation(
                {"site": "timer.Timer.expired", "cause": "wall-clock" if jumps else "elapsed", "kind": sign},
                f"step {v} ({st['a']} {st['v']}): Timer.expired={st['expired']} but elapsed-time semantics say {not st['expired']}; "
                f"prefix={[(s['a'], s['v']) for s in t['steps'][:v]]} timeout0={t['timeout0']}",
                t,
            )
    ctx.sample(traces[0])
    ctx.sample(traces[-1])
    # ---- the provider's use of its timers (TimerUse.tla) ------------------------------------------------
    ru = must_ok(run_tlc("TimerUse", workdir=ctx.work, timeout=900))
    ctx.add_tlc(ru)
    if ru.violated:
        ctx.violation({"where": "model", "invariant": ru.violated}, "TimerUse.tla violates " + ru.violated, ru.trace)
    simu = os.path.join(ctx.work, "simu")
    os.makedirs(simu)
    nu = 600 if thorough else 80
    must_ok(run_tlc("TimerUse", workdir=ctx.work, workers=1, simulate=f"file={simu}/tr,num={nu}", depth=16, seed=ctx.seed + 3))
    for i, beh in enumerate(read_sim_traces(os.path.join(simu, "tr"))):
        obs = replay_use(beh)
        ctx.traces += 1
        ctx.case(("use", tuple((o["a"], o["v"]) for o in obs)), nontrivial=any(o["a"] == "WallJump" for o in obs))
        for k, o in enumerate(obs):
            bad = None
            if o["idleExp"] != o["spec_idle"]:
                bad = ("dul._idle_timer", f"idle timer expired={o['idleExp']} but elapsed time says {o['spec_idle']}")
            elif o["phase"] == "sta2" and (o["artimExp"] != o["spec_artim"] or (o["a"] in ("Advance", "WallJump") and o["evt18"] != o["spec_artim"])):
                bad = ("dul.artim_timer", f"ARTIM expired={o['artimExp']} Evt18 queued={o['evt18']} but elapsed time says {o['spec_artim']}")
            if bad:
                jumps = any(x["a"] == "WallJump" for x in obs[:k + 1])
                ctx.violation({"site": bad[0], "cause": "wall-clock" if jumps else "elapsed"},
                              f"step {k + 1} {o['a']}({o['v']}): {bad[1]}; steps={[(x['a'], x['v']) for x in obs[:k + 1]]}", obs)
                break
        if i == 0:
            ctx.sample({"timer_use_behaviour": obs})
    ctx.assume(
        "pynetdicom.timer reads its clock through the module attribute `time` (replaced by a two-clock virtual module)",
        "integer seconds; wall and elapsed clocks advance together except for explicit wall steps",
    )
    return ctx.finish(
        rule="TLC-simulated Timer behaviours (depth 14) plus seeded random action sequences (depth 24) replayed on the real "
        "Timer; non-trivial = contains a wall-clock step and an expiry; each step's observed `expired` judged by Trace_Timer"
    )
