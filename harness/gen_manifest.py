"""Regenerate MANIFEST.json from the table below (kept next to the drivers so they stay in step)."""
import json
import os
import subprocess

HERE = os.path.dirname(os.path.dirname(os.path.abspath(__file__)))

# pid -> (category, technique, level text, level note, design ref, engine)
CHECKS = {
    "C04": (
        "model_checking",
        "TLA+ transcription of PS3.8 Tables 9-6..9-10 (ULTable) model-checked by TLC; every TLC-generated (event,state,context) case replayed on the real StateMachine (S2C)",
        "Exhaustive over the 247 pairs x role x protocol-version x abort-source x queued-abort contexts: TLC checks the table lemmas and census; each case's prescribed reaction (next state, PDU sent with source, indication, ARTIM, close, primitive consumed) is compared with the real do_action on a fresh Association.",
        "Trusted: the transcription of PS3.8 in ULTable.tla (census-checked), fake transport, virtual clock. Fields the standard leaves open are not compared.",
        "§6 C04", "ultable",
    ),
    "C09": (
        "model_checking",
        "TLA+ Timer spec model-checked by TLC (elapsed-clock design holds, wall-clock design refuted); TLC-simulated behaviours replayed on the real Timer and the recorded logs validated by the Trace_Timer spec (S2C + C2S)",
        "TLC explores all start/stop/restart/timeout/advance/wall-step sequences within bounds; thousands of simulated and seeded sequences run on the real Timer under a two-clock virtual time, each step's observed `expired` judged by TLC against elapsed-time semantics.",
        "Trusted: virtual clock substitution of pynetdicom.timer.time; integer seconds.",
        "§6 C09", "timer",
    ),
}

CHECKS["C05"] = (
    "model_checking",
    "TLA+ spec of the DUL/association/user threads (Assoc.tla over ULTable) model-checked by TLC against an adversarial peer; known crash signatures witnessed by TLC trap invariants and replayed on the real threads; TLC-simulated behaviours replayed step by step on the real Association+DUL threads with state comparison (S2C)",
    "TLC explores every interleaving of provider loop halves, association reactor steps, user abort/release calls, peer frames/EOF and timer expiries within bounds (C05_DefinedEventsOnly modulo known_findings, C05_DoneImpliesIdle). Each model action is one step of a real thread under the gate controller; the projected implementation state is compared after every step, and a real InvalidEventError or a finished-but-not-idle node is the violation.",
    "Trusted: step boundaries (queue reads, event waits, spin sleeps, DUL hook points) serialise the real threads; fake transport mirrors AssociationSocket; time-progress assumption for timeouts. Acceptor role here; requestor/pair in C06.",
    "§6 C05", "assoc",
)

CHECKS["C28"] = (
    "model_checking",
    "TLA+ Status spec (PS3.7 Annex C category ranges, table agreement, finality rule) evaluated by TLC over all 65536 codes on values dumped from the implementation (C2S); finality observed by driving the real SCU iterators and the real C-FIND SCP per code",
    "All 65536 status codes and every row of every service status table are checked by TLC against the category function observed from the code and the PS3.7 range rules; SCU/SCP finality decisions are observed on the real send_c_find/get/move iterators and the real C-FIND SCP for boundary codes (quick) or all codes (thorough).",
    "Trusted: transcription of PS3.7 Annex C ranges; transport cut at the DIMSE boundary for the finality probes.",
    "§6 C28", "status",
)

_SCP_TECH = ("TLA+ reference machine of the SCP side (Scp.tla: handler as environment, responses as history) model-checked by TLC; "
             "every terminal behaviour (handler script) TLC finds is executed on the real service classes through Association._serve_request "
             "(S2C) and the observed response history is judged by the Trace_Scp spec with the same predicates (C2S)")
_SCP_NOTE = ("Trusted: handler alphabet (status classes x dataset classes x sub-operation outcomes) and step bound; transport cut at "
             "dul.send_pdu (real DIMSE encode + decode); C-MOVE destination association stubbed; documented failure codes transcribed from docs/service_classes/*.rst.")
CHECKS["C20"] = ("model_checking", _SCP_TECH,
    "All handler scripts up to the step bound for C-ECHO, C-STORE (acceptor and C-GET-requestor side), C-FIND (Patient Root, Repository Query), C-GET, C-MOVE and the six DIMSE-N services: Pending* then exactly one final, nothing after it, message id and context of the request, final missing only after a handler abort.",
    _SCP_NOTE, "§6 C20", "scp")
CHECKS["C21"] = ("model_checking", _SCP_TECH,
    "Same behaviours as C20; each response's status is compared with the handler-supplied int / Dataset.Status (optional status elements copied) or the documented failure code, and response datasets with the handler's dataset after decoding in the negotiated transfer syntax.",
    _SCP_NOTE + " Undocumented cases (C-ECHO invalid status type, out-of-range ints) are unconstrained.", "§6 C20-C22", "scp")
CHECKS["C22"] = ("model_checking", _SCP_TECH,
    "C-GET and C-MOVE with N in 1..3 announced sub-operations, every interleaving of pending yields with sub-operation outcomes success/warning/failure/exception, invalid datasets, early finals, raises and aborts: counter sum, monotonicity, final total, failed-instance list and final status rule.",
    _SCP_NOTE, "§6 C20-C22", "scp")

_NEG_TECH = ("TLA+ NegotiationOps/Negotiation specs (PS3.8 context negotiation, documented role-selection table as a closed form checked against its 9 rows) "
             "model-checked by TLC: acceptor table vs requestor reading for every proposal x support x role combination; every TLC-enumerated case plus seeded "
             "random multi-context cases negotiated on a real acceptor AE (raw requestor / real requestor AE) and judged by the Trace_Negotiation spec (S2C + C2S)")
CHECKS["C10"] = ("model_checking", _NEG_TECH,
    "Exhaustive single-context domain (all ordered TS lists over 2 syntaxes x supported/unsupported x 9 acceptor role settings x 5 proposed roles) from TLC plus seeded random 1-4 context cases (duplicate abstract syntaxes, 3 syntaxes, unrestricted-storage mode) run against a real acceptor with a raw requestor; results per context id, reject reasons 3/4, chosen transfer syntax, role table, role replies, no accepted context without a role.",
    "Trusted: transcription of the documented role table; loopback acceptor; role clauses judged on contexts whose abstract syntax is proposed once.", "§6 C10", "neg")
CHECKS["C11"] = ("model_checking", _NEG_TECH,
    "TLC checks complementarity/agreement of the two tables on the whole bounded domain (2 contexts in thorough); a real requestor AE and a real acceptor AE negotiate every fourth TLC case plus random cases and both sides' accepted/rejected contexts and roles are compared.",
    "Trusted: as C10; role proposals (False, False) cannot be sent by the real requestor and are excluded here (covered by C10's raw requestor).", "§6 C11", "neg")

_DIMSE_TECH = ("TLA+ Dimse spec (fragmenter, arbitrary regrouping, reassembler) and DimseMsg catalogue (PS3.7 message table with lemmas) model-checked by TLC; "
               "every terminal behaviour / catalogue case TLC enumerates is run through the real primitive_to_message, encode_msg, decode_msg, message_to_primitive and dimse.send_msg "
               "(S2C) and the observed PDV sequences and round trips are judged by the Trace_Dimse spec (C2S)")
CHECKS["C15"] = ("model_checking", _DIMSE_TECH,
    "Data set lengths 0..9 (14 thorough) x maxima {0,7,8,9,10,13} with every regrouping of up to 7 PDVs, realistic sizes around exact multiples for maxima 1030/16382/0, in-memory and file-backed data sets, and the maximum chosen by the real DIMSE provider for every (own, peer) maximum x role: PDV list length, order, last flags, exact reassembly.",
    "Also: a fragmented message that follows a C-ECHO / C-CANCEL through the real receive_primitive (provider state between messages). Trusted: C-STORE-RQ as carrier message; regrouping of long messages limited to fixed patterns.", "§6 C15", "dimse")
CHECKS["C16"] = ("model_checking", _DIMSE_TECH,
    "Fragmentation behaviours of C15 plus every message type x data-set state (absent, empty, odd, even) and the public send_* API with empty and non-empty data sets and the service classes' response paths, observed at a wire tap that re-assembles with the real decoder: data set announced iff data set fragments are sent, message completed by the receiver.",
    "Trusted: wire tap at dul.send_pdu; peer modelled by pynetdicom's own DIMSE decoder.", "§6 C16", "dimse")
CHECKS["C17"] = ("model_checking", _DIMSE_TECH,
    "All 23 messages x every subset of their optional/conditional parameters x data-set state x three value classes (minimum, maximum, typical; 1 and 3 element tag lists, tag 0) enumerated by TLC from the PS3.7 catalogue and round-tripped; command field compared with the catalogue.",
    "Trusted: transcription of the PS3.7 parameter tables; values restricted to what the primitives accept; AE titles compared modulo padding.", "§6 C17", "dimse")

CHECKS["C19"] = ("model_checking",
    "TLA+ CtxGuard spec (peer chooses request kind and the context ids of command and data fragments; serve only on accepted contexts) model-checked by TLC; every case TLC enumerates is injected as real P-DATA primitives into the real DIMSE provider and served through the reactor path, the N-EVENT-REPORT thread path and the C-GET requestor's storage SCP (S2C); observations judged by the Trace_CtxGuard spec (C2S)",
    "All 12 request kinds x command context in {accepted, rejected with the same abstract syntax, another kind's accepted/rejected, never proposed 201/255, invalid 0/2/100} x data context in {same, accepted, rejected}: no handler call and no normal response unless the command set arrived on an accepted context.",
    "Also: the accepted set as the real negotiation leaves it - a real requestor against a scripted acceptor that answers a context with every class of non-zero result (1-4 and reserved 5-255) and then sends a request on it. Trusted: one emulated reactor iteration (get_msg -> _serve_request); transport cut at dul.send_pdu. A data fragment mislabelled with another id is observed (DRIFT), not judged.", "§6 C19", "ctxguard")

CHECKS["C24"] = ("model_checking",
    "TLA+ Scu spec (peer as environment: responses, undecodable identifiers, 0xB001, invalid / unexpected messages, sub-operation requests, silence) model-checked by TLC; every peer script TLC finds is played, through the real DIMSE decoder, to the real send_c_find/get/move iterators and the eight single-response send_* calls (S2C); yields, abort and the AE lock at every yield are judged by the Trace_Scu spec (C2S)",
    "All peer scripts of up to 4 (5 thorough) items for C-FIND (Patient Root and Repository Query), C-GET, C-MOVE and all one-item scripts for C-ECHO, C-STORE and the six DIMSE-N calls: each response yielded exactly once in order (attributed by a tag carried in the response), stop at the first non-Pending, documented empty result plus abort on silence / invalid / unexpected message, None for undecodable identifiers, AE lock free at every yield and after the iterator ends.",
    "Trusted: requestor Association with the transport cut at dul.send_pdu; dimse_timeout 0.05 s; Deflated transfer syntax for undecodable identifiers.", "§6 C24", "scu")

CHECKS["C13"] = ("model_checking",
    "TLA+ Policy spec (AE titles as significant core plus padding; calling list, called-title switch, identity verdicts) model-checked by TLC; every case TLC enumerates is sent as raw A-ASSOCIATE-RQ bytes to a real acceptor AE on loopback, followed by a C-ECHO request whatever the answer (S2C); outcome, reject source/reason and handler calls judged by the Trace_Policy spec (C2S); Handlers spec (binding rules of every handler slot of a server and its associations) model-checked and its simulated bind/unbind/open/close/echo histories replayed on a real server, judged step by step by Trace_Handlers",
    "7 calling-title variants (padding left/right, case, embedded space) x 5 required-calling lists x 4 called titles x 2 own titles x require_called x identity in {absent, handler unbound, true, false, falsy, raises}, plus every history of up to two bind/unbind calls on the running server's EVT_USER_ID slot for every verdict: established only if allowed, rejected otherwise with calling/called-AE-title-not-recognised codes, no DIMSE handler call on a rejected connection.",
    "Trusted: raw requestor built from pynetdicom's PDU classes (checked by C01); wrongly *rejecting* an allowed request is outside the property and not judged.", "§6 C13", "policy")
CHECKS["C23"] = ("model_checking",
    "TLA+ Cancel spec (two consecutive operations, cancels naming either or an unrelated id at any moment, polls at yields) model-checked by TLC; TLC's behaviours replayed on the real C-FIND/C-GET/C-MOVE SCPs with requests and C-CANCELs entering through the real DIMSE provider (S2C); the event log with observed poll results validated by the Trace_Cancel spec, which replays it through Cancel's actions (C2S trace validation)",
    "All interleavings of up to 3 (4 thorough) cancels over ids {op1, op2, unrelated} with start/poll/end of two operations (sampled in quick), plus directed bursts of 8-12 unrelated cancels before a matching one: a poll reports exactly when a cancel naming the operation arrived while it was in progress.",
    "Trusted: cancel arrivals placed at yield points by the handler thread; one emulated reactor iteration per operation.", "§6 C23", "cancel")

CHECKS["C01"] = ("model_checking",
    "TLA+ PduLayout spec (PS3.8 9.3 / PS3.7 Annex D layouts as byte-sequence constructors plus a structural reader) with the Gen_Pdu generator model-checked by TLC (layout lemmas on every generated value); every (value, Bytes(v)) pair TLC exports is run on the real encoder, decoder and primitive converters (S2C); observations and the produced bytes are judged / re-read by the Trace_Pdu spec (C2S)",
    "Bounded value space of the seven PDUs: A-ASSOCIATE-RQ/AC with 1-3 contexts, 1-3 transfer syntaxes, ids 1/3/127/255, results 0-4, every user-information sub-item kind (max length incl. 0 and 2^31-1, version name, async ops, roles, SOP class extended, common extended with 0/2 related classes, user identity RQ types 1-5 with empty/short/300-byte fields, user identity AC with empty and non-empty response), all RJ result/source/reason and ABORT source/reason combinations, P-DATA with 1-3 PDVs of 0-40 bytes: byte equality, decode equality, re-encode, primitive round trip.",
    "Trusted: transcription of the PS3.8/PS3.7 tables; leaf strings from the finite pool in PduLeaves.tla (leaf space sampled, structure exhaustive within the option sets).", "§6 C01", "pdu")
CHECKS["C12"] = ("model_checking",
    "TLA+ Gen_Config (requestor/acceptor configuration space) enumerated by TLC and PduLayout's WellFormedRQ/WellFormedAC predicates; every configuration is given to the real AE.associate against a real acceptor on loopback and the A-ASSOCIATE-RQ/AC bytes actually sent are captured (S2C); the Trace_Pdu spec reads the captured bytes with the structural reader and evaluates the predicates (C2S)",
    "One-group-at-a-time variations around two base configurations: 7 AE-title shapes (1 char, 16 chars, padded, inner space, over 16 with padding, 17 chars, spaces only), 1/2/3/127/128/129 contexts in three shapes, maximum lengths 0/16382/2^32-1/1, all 32 subsets of extended-negotiation kinds, version name present/absent/16 chars, four acceptor support shapes (incl. role-based rejection): structure, counts, ids, UID/AE legality of every RQ and AC sent.",
    "Also: where the context objects come from (fresh, reused from an earlier association with their IDs, new ones in front of reused ones, all the same ID, edited from a handler while the request is being made) and hand-built contexts lacking a syntax. Trusted: EVT_DATA_SENT/RECV capture; configurations the API refuses are outside the quantifier; full product only sampled (thorough).", "§6 C12", "pdu")

CHECKS["C03"] = ("model_checking",
    "TLA+ Framing spec (peer writes in arbitrary pieces / closes after any byte, kernel hands over any part, reader collects header then body) model-checked by TLC for every interleaving; TLC's write patterns and close points, mapped class-preservingly onto real PDU lengths, plus every single cut / close offset, are played over TCP loopback to a real acceptor and a real requestor (S2C); the PDUs and FSM events pynetdicom reports are judged by the Trace_Framing spec (C2S)",
    "Small frames with up to 2 (3) cuts and every reader interleaving in TLC; on the real code: a stream of three P-DATA-TF PDUs (one C-ECHO-RQ in three command fragments) plus A-RELEASE-RQ, the A-ASSOCIATE-RQ, and the A-ASSOCIATE-AC towards a requestor: all single cuts, all close offsets, TLC's double-cut patterns, gaps of 3 ms and of 0.6-0.7 s (beyond connection_timeout, inside the protocol timeouts): PDUs delivered in order, each once, byte-identical; a close inside a PDU gives Evt17 and never Evt19.",
    "Also: a 7 kB P-DATA-TF (body longer than one 4096-byte socket read) cut / closed at the read-size boundaries, the stream over TLS (several PDUs in one TLS record), frames judged before the peer's next action (liveness C03_Prompt: a reader woken by arrivals only is refuted). Trusted: loopback TCP with TCP_NODELAY and pauses (the kernel may coalesce).", "§6 C03", "framing")

CHECKS["C02"] = ("model_checking",
    "TLA+ PdataLimit spec (a received P-DATA-TF is bounded by the receiver's own Maximum Length, both roles, asymmetric announcements) and TLA+ Mutate spec over PduLayout (receive-path classification, conformant variants PS3.8 allows, systematic mutations) evaluated by TLC; every input is sent over TCP loopback to a real pynetdicom acceptor in the state where that PDU can arrive (S2C); escapes from provider/association threads, hangs, first FSM event, stability of decoded PDUs and acceptance of conformant variants are judged by the Trace_Bytes spec (C2S)",
    "Six base PDUs (two A-ASSOCIATE-RQ, P-DATA with a C-ECHO-RQ, A-RELEASE-RQ, A-ABORT, A-ASSOCIATE-RJ): truncation and extension at every offset, substitution with 0x00/0xFF and bit flip at every offset, PDU length and every top-level item length off by one / zero / huge, unknown PDU types, and the conformant variants (reserved bytes 0xFF/0x01, protocol versions 3/0xFFFF/0x8001): about 3200 inputs (1440 in quick).",
    "Trusted: loopback delivery; inputs reach Sta2 or Sta6 only; races between the received bytes and the association layer's own requests are the C05 known findings and are listed for C02 by the same event/state.", "§6 C02", "pdu")

CHECKS["C30"] = ("model_checking",
    "TLA+ StorePath spec (UID values as token sequences, POSIX resolution, Inside predicate); TLC enumerates the values; each is handled by the real qrscp and storescp handle_store in a scratch tree with canaries (S2C); every created/modified path is resolved and judged by the Trace_StorePath spec (C2S)",
    "All token sequences up to length 3 (4 thorough) over digits, '.', '..', '/', letters, backslash, the storage directory's own name with a suffix (a sibling), optionally with an absolute prefix, as SOP Instance UID (all) and as Modality / Patient ID / Study / Series Instance UID (hostile values; sampled in quick) of a C-STORE for a SOP class with and without a file-name prefix, handled by both applications; filesystem snapshot before/after; only files inside the storage directory or the database file may change.",
    "Also: the database pre-state (instance already managed, its file recorded outside the storage directory). Trusted: handlers called directly with an event built from the encoded/decoded dataset; POSIX only.", "§6 C30", "storepath")

CHECKS["C25"] = ("model_checking",
    "TLA+ StorePipeline spec (encode, fragment, wire, reassemble in memory or temp file, access) whose configuration vectors TLC enumerates; each configuration is executed between two real AEs on loopback and the receiving side records every view the API offers (S2C); the Trace_Store spec reports the first view that differs from the original (C2S)",
    "Operation (C-STORE from memory / from file / as C-GET sub-operation, C-FIND/GET/MOVE identifiers, C-FIND response identifier, N-SET/N-CREATE/N-ACTION/N-EVENT-REPORT data sets, N-GET response) x 4 transfer syntaxes (implicit/explicit LE, explicit BE, deflated) x maximum PDU {0,128,16382} (+7,1030,131072) x chunked send x chunked receive x 7 (10) dataset shapes; decoded view, raw encoded bytes and the chunked-receive file compared with pydicom's own encode/decode of the original.",
    "Trusted: dataset shape catalogue (leaf space sampled); pydicom's codec; 300 configurations in quick with all chunked-mode big/VR-mix ones kept.", "§6 C25", "store")

_PAIR_NOTE = ("Trusted: loopback TCP; timeouts 0.8 s; seeded delays (0-3 ms) at every notification point perturb the interleaving (sampling, not enumeration, of the real schedules); "
              "counterexamples of the pair model with a second user thread are not replayed step by step (the stepped replay drives one user thread) but must match crash signatures the scenario runs list; the recorder orders notifications by entry into events.trigger.")
CHECKS["C06"] = ("model_checking",
    "TLA+ Assoc spec instantiated as a requestor/acceptor pair joined by FIFO channels (user release/abort/echo, acceptor-side release/abort, accept/reject, one timeout) model-checked by TLC for "
    "C06_OneTerminal / C06_OneFlag / C06_Agreement / C06_NoLeak on every interleaving (the variant in which abort() and the reactor's release branch are not atomic - the code takes no lock - is refuted: the open race finding); every counterexample is replayed on the real threads of the node concerned (S2C by projection); the user scripts of "
    "Scenario.tla are run on two real AEs and the recorded notification histories / pair outcomes judged by the Trace_Notify and Trace_Pair specs (C2S)",
    "TLC: all interleavings of provider loop halves, association reactor steps and user calls of both nodes (about 720k distinct states with one user thread per node, several million with a second user thread on the requestor) modulo the C05 crash signatures. Real code: about 1040 (quick) / 5600 (thorough) scenario runs "
    "(requestor operations x ending incl. two terminal calls in sequence x acceptor handler behaviour incl. abort/release inside a handler x second-thread abort/release on either side at three moments x rejection): "
    "termination in time, no thread left, OS sockets closed, one outcome flag, one terminal notification, agreement (strict in calm scenarios).",
    _PAIR_NOTE, "§0.2, §6 C06", "pair")
CHECKS["C27"] = ("model_checking",
    "TLA+ Trace_Notify observer over ULTable (the PS3.8 transition table of C04): the notification history recorded from every association of the Scenario.tla user scripts run on two real AEs is validated by TLC "
    "(C2S): each EVT_FSM_TRANSITION is a table cell and chains with the previous one, open first/once, close once/last, established once and before released/aborted, PDU notifications paired with byte-level notifications and with what the peer's transport read",
    "About 1500 (quick) / 9000 (thorough) association histories from lifecycle scenarios; thorough also validates the ~680 histories recorded while the repository's own tests (test_assoc, test_ae, test_service_verification, test_service_storage, test_events) run unchanged under the recorder; with seeded delays at every notification point, incl. rejections, aborts inside handlers, release collisions and second-thread actions.",
    _PAIR_NOTE, "§6 C27", "pair")

CHECKS["C07"] = ("model_checking",
    "TLA+ Release spec (reactor loop and _wrap_handler loop against a peer that sends A-RELEASE-RQ at any moment) model-checked by TLC: the design as found (the handler wrapper takes the indication) is refuted, "
    "a release request that does not end a pending wait for a DIMSE response is refuted (C07_Answered), the repaired design satisfies C07_NeverSwallowed and the liveness property C07_Answered under fairness; every (service, N, arrival point) TLC reaches is run on a real acceptor (and a real C-MOVE destination) "
    "against a scripted raw peer (S2C) and the observation judged by the Trace_Release spec (C2S)",
    "All arrival points: idle, inside a plain handler, before the preliminary yields (destination / count) of C-GET and C-MOVE handlers, before each yield and after the last one of C-FIND/C-GET/C-MOVE handlers with up to 2 (3 thorough) results, during each C-GET / C-MOVE sub-operation (with and without a DIMSE timeout), "
    "before the final response, between messages, and while a user thread of the acceptor side waits for a response with the reactor paused: A-RELEASE-RP read by the peer within 3 s, association released, threads ended.",
    "Trusted: arrival points held by stopping the handler thread until the provider has queued the indication; peer otherwise cooperative; acceptor role.", "§6 C07", "release")
CHECKS["C08"] = ("model_checking",
    "TLA+ Stall spec (provider, association and user threads against a peer that keeps the connection open and stops at a PDU boundary, inside a header or inside a body, silent or dribbling) model-checked by TLC: "
    "the code as found (no read deadline inside a PDU) is refuted by a liveness lasso, boundary stalls hold, a read deadline makes every stall end; every scenario is played by a raw peer against the real node (S2C) "
    "and the observation at the bound judged by the Trace_Stall spec (C2S)",
    "8 role/phase pairs (acceptor awaiting A-ASSOCIATE-RQ, idle, mid data set, awaiting A-RELEASE-RP; requestor awaiting A-ASSOCIATE-AC, idle, awaiting a DIMSE response, awaiting A-RELEASE-RP) x {boundary, mid-header, mid-body} x {silence, dribble}: "
    "the public call returns, association and provider threads end, the OS socket is closed within the sum of the configured timeouts + 1.5 s.",
    "Trusted: short timeouts (0.6/0.6/0.8/1.0 s); loopback; one incomplete PDU per scenario. Mid-PDU stalls are the open finding D9.", "§6 C08", "stall")

CHECKS["C14"] = ("model_checking",
    "TLA+ AcceptLimit spec (negotiation threads: spawn, reading of the alive acceptor threads + decision, establish / rejected, end; several listening servers of one AE, server restart) model-checked by TLC for every "
    "interleaving: C14_Bound / C14_BoundCommitted / C14_Reason hold for the code's reading, the readings 'established only' and 'associations of registered servers only' are refuted; one witness history per reachable state "
    "is replayed on a real acceptor AE with the negotiation threads parked in user handlers (S2C) and every replay and free-running stress run judged by the Trace_Limit spec (C2S)",
    "4 requests / Max 2 / one server restarted once (129k states), 3 requests / Max 1 / two servers (49k states), thorough also 5 requests / Max 3: about 190 (quick) / 4600 (thorough) histories stepped on real threads with the "
    "established count read after every step, plus 12 (40) stress runs of Max+0..8 concurrent raw requestors with the count sampled every 0.5 ms; reject PDUs must carry (2, 3, 2).",
    "Trusted: parking points EVT_ASYNC_OPS (just before the reading) and EVT_ACSE_SENT (decision taken, is_established not yet set); raw requestors on loopback.", "§6 C14", "limit")
CHECKS["C26"] = ("model_checking",
    "TLA+ Notify spec (protocol script with the notification events around each step and the intervention handler of request / negotiation steps; any subset of invocations raises; handler flavours) model-checked by TLC: "
    "C26_SameExchange / C26_Contained hold when trigger() catches and its report line cannot fail, both broken designs are refuted; deterministic user scripts are run on two real AEs quiet and raising (S2C) and each pair "
    "of runs compared by the Trace_Exchange spec; DIMSE intervention handlers raising five exception kinds are judged by the Trace_Scp spec, negotiation interventions directly (C2S)",
    "About 27 (quick) / all single-thread scripts (thorough) x {every invocation, every invocation of one of the 17 notification events, seeded random subsets} x handler flavour {function, callable object, partial, "
    "exception without arguments, exception whose str() fails}: PDUs, DIMSE messages, outcomes and user-visible results equal to the quiet run; every DIMSE service with a handler raising RuntimeError / FileNotFoundError / "
    "TimeoutError / KeyError / Exception(); EVT_ASYNC_OPS, EVT_SOP_COMMON, EVT_SOP_EXTENDED, EVT_USER_ID raising.",
    "Trusted: scripts without second-thread actions are their own reference (run twice; a difference must reproduce); the recorder wraps events.trigger.", "§6 C26", "notify")

CHECKS["C18"] = ("model_checking",
    "TLA+ CtxSelect spec (the five C18 predicates over accepted contexts, operation and result; a reference chooser) with MC_Ctx model-checked by TLC: the reference satisfies C18 on all 73220 cases "
    "(every set of at most two accepted contexts over 4 abstract syntaxes x 5 transfer syntaxes x 3 role pairs, 10 send operations); the cases are run through the public send_* API of a real Association "
    "with those contexts installed (S2C) and the captured context id and data-set encoding judged by the Trace_Ctx spec with the same predicates (C2S)",
    "C-STORE of a data set that arrived in each of 5 transfer syntaxes, C-FIND, C-ECHO, N-EVENT-REPORT, N-CREATE for UPS Push (documented substitution), N-GET; 5500 cases in quick (4000 with a usable context), all 73220 in thorough: "
    "context accepted, abstract syntax, role, encoding of the bytes actually sent (decoded under every transfer syntax), conversion only between uncompressed syntaxes of one byte order.",
    "Trusted: transport cut at dul.send_pdu (peer = pynetdicom's own decoder); data sets without pixel data. C-STORE sub-operations of C-GET use the same send_c_store path (acceptor-mode role flags are covered by the role pairs).", "§6 C18", "ctx")
CHECKS["C29"] = ("model_checking",
    "TLA+ QRMatch spec (PS3.4 C.2.2.2 single value / universal / list of UID / wild card / range matching, hierarchical selection, identifier validity) with MC_QR model-checked by TLC (selection of every case, lemmas "
    "L_Universal, L_Monotone, L_ListOne); every case is run on the real qrscp database code and C-FIND handler (S2C) and the observed selection, acceptance and number of responses judged by the Trace_QR spec (C2S)",
    "Four databases (one left behind by re-storing an instance with fewer attributes) (5 instances of 3 patients chosen to separate case, '%', '_', list and range semantics) x 2 information models x {C-FIND, C-GET/C-MOVE} x 4 levels x every identifier within one key (1968 cases) and two keys "
    "(34224 cases; 2500 sampled in quick) of the plain identifier of its level.",
    "Trusted: transcription of PS3.4 C.2.2.2 / C.4.1.3.1.1; pydicom configured as qrscp.py configures it; identifiers encoded and decoded as on the wire; the handler is called with an event object carrying what it reads.", "§6 C29", "qr")

NOT_YET = {}


def main():
    props = [json.loads(l) for l in open(os.path.join(HERE, "properties.jsonl"))]
    hooks = []
    try:
        out = subprocess.run(["git", "-C", "/repo", "log", "--format=%H %s"], capture_output=True, text=True).stdout
        hooks = [l.split()[0] for l in out.splitlines() if " verif-hook:" in l or " hook:" in l]
    except Exception:
        pass
    man = {
        "version": 1,
        "setup_cmd": "sh bin/setup",
        "hooks": {
            "guard": "PYNETDICOM_VERIF",
            "enable": "checks import pynetdicom from /repo's working tree (editable install in /venv) with PYNETDICOM_VERIF=1 in the environment; nothing to build",
            "baseline_off_cmd": "cd /repo && env -u PYNETDICOM_VERIF /venv/bin/python -m pytest -ra -q -p no:cacheprovider --timeout=900 --continue-on-collection-errors",
            "source_commits": hooks,
            "add_only": True,
        },
        "engines": [
            {"name": "tlc", "path": "harness/tlc.py", "kind_free_text": "TLC 1.8 model checker / simulator / trace validator over spec/*.tla", "serves_properties": sorted(CHECKS)},
        ],
        "checks": [],
        "notes": "Model-based verification with explicit TLA+ specifications (spec/). Every check runs TLC on its module and binds it to the code by replaying TLC-generated behaviours/cases into the real objects (S2C) and/or validating recorded traces with a trace spec (C2S). See DESIGN.md.",
        "not_applicable": [],
    }
    for p in props:
        pid = p["id"]
        if pid in CHECKS:
            cat, tech, text, note, ref, eng = CHECKS[pid]
            man["checks"].append(
                {
                    "property_id": pid,
                    "quick_cmd": f"bin/check {pid} --tier quick",
                    "thorough_cmd": f"bin/check {pid} --tier thorough",
                    "evidence_file": f"/verif/evidence/{pid}.json",
                    "replay_cmd_template": f"bin/check {pid} --replay {{path}}",
                    "engine": "tlc",
                    "level_claimed": {"category": cat, "text": text, "design_ref": ref},
                    "level_note": note,
                    "technique": tech,
                }
            )
        else:
            man["not_applicable"].append(
                {"property_id": pid, "reason": NOT_YET.get(pid, "check not built yet in this round (planned, see DESIGN.md §6); not claimed")}
            )
    with open(os.path.join(HERE, "MANIFEST.json"), "w") as f:
        json.dump(man, f, indent=1)
    print("checks:", len(man["checks"]), "not claimed:", len(man["not_applicable"]))


if __name__ == "__main__":
    main()
