"""pytest plugin (thorough tier of C27): run the repository's own tests with the notification recorder installed and dump
every association's notification history, so that Trace_Notify can validate histories the repository's tests produce.

    pytest -p recorder_plugin ...      (with /verif/harness on PYTHONPATH and VERIF_REC_OUT=<file>)

Nothing in the tests changes: the recorder wraps pynetdicom.events.trigger from outside and never raises."""
import json
import os

import pytest

_REC = None


def pytest_configure(config):
    global _REC
    import sys
    sys.path.insert(0, os.path.dirname(os.path.abspath(__file__)))
    from recorder import Recorder
    _REC = Recorder(seed=0, max_delay=0.0)
    _REC.install()
    _REC.test_of = {}          # association uid -> test node id
    _REC.current = None


@pytest.hookimpl(tryfirst=True)
def pytest_runtest_setup(item):
    if _REC is not None:
        _REC.current = item.nodeid
        _REC.mark_from = len(_REC.events)


@pytest.hookimpl(trylast=True)
def pytest_runtest_teardown(item, nextitem):
    if _REC is None:
        return
    for e in _REC.events[getattr(_REC, "mark_from", 0):]:
        _REC.test_of.setdefault(e["assoc"], item.nodeid)


def pytest_sessionfinish(session, exitstatus):
    if _REC is None:
        return
    _REC.uninstall()
    out = os.environ.get("VERIF_REC_OUT")
    if not out:
        return
    by = _REC.by_assoc()
    with open(out, "w") as f:
        for uid, evs in by.items():
            f.write(json.dumps({"uid": uid, "test": _REC.test_of.get(uid, "?"), "mode": evs[0].get("mode", "?"), "events": evs}) + "\n")
