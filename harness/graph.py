"""Read TLC's state-graph dump (-dump dot,actionlabels) and derive behaviours that cover it.

guided_walks() is a deterministic, seeded walk generator: each walk starts in the initial state and
always takes an outgoing edge that has been taken least often so far (ties broken by the seeded RNG),
until a terminal state or `maxlen`.  Unlike uniform `tlc -simulate`, the walks reach the deep paths
(every edge reachable within maxlen is eventually taken) and the evidence can state edge coverage.
"""
from __future__ import annotations

import random
import re

from tlc import parse_state


class Graph:
    def __init__(self):
        self.raw: dict[str, str] = {}
        self.out: dict[str, list[tuple[str, str]]] = {}
        self.init: list[str] = []
        self._parsed: dict[str, dict] = {}

    def state(self, sid: str) -> dict:
        st = self._parsed.get(sid)
        if st is None:
            st = parse_state(self.raw[sid])
            self._parsed[sid] = st
        return st

    @property
    def n_edges(self) -> int:
        return sum(len(v) for v in self.out.values())


_NODE = re.compile(r'^(-?\d+) \[label="((?:[^"\\]|\\.)*)"(,style = filled)?')
_EDGE = re.compile(r'^(-?\d+) -> (-?\d+) \[label="((?:[^"\\]|\\.)*)"')


def _unesc(s: str) -> str:
    return s.replace("\\n", "\n").replace('\\"', '"').replace("\\\\", "\\")


def load_dot(path: str) -> Graph:
    g = Graph()
    with open(path) as f:
        for line in f:
            m = _EDGE.match(line)
            if m:
                a, b, lab = m.group(1), m.group(2), _unesc(m.group(3))
                if a != b:
                    g.out.setdefault(a, []).append((lab, b))
                continue
            m = _NODE.match(line)
            if m:
                sid = m.group(1)
                if sid not in g.raw:
                    g.raw[sid] = _unesc(m.group(2))
                    g.out.setdefault(sid, [])
                if m.group(3) and sid not in g.init:
                    g.init.append(sid)
    for sid in g.out:
        # deterministic order
        g.out[sid] = sorted(set(g.out[sid]))
    return g


def guided_walks(g: Graph, n: int, maxlen: int, seed: int, prefer=None):
    """Edge-targeted walks: repeatedly pick a not-yet-covered edge (deepest first, seeded shuffle
    within a depth), reach its source by a shortest path, take it, then extend greedily through
    uncovered edges until a terminal state or maxlen.  Returns (behaviours, edges covered)."""
    rng = random.Random(seed)
    # BFS tree from the initial states
    parent: dict[str, tuple[str, str] | None] = {}
    depth: dict[str, int] = {}
    frontier = list(g.init)
    for s0 in frontier:
        parent[s0] = None
        depth[s0] = 0
    while frontier:
        nxt = []
        for u in frontier:
            for lab, v in g.out.get(u, []):
                if v not in parent:
                    parent[v] = (u, lab)
                    depth[v] = depth[u] + 1
                    nxt.append(v)
        frontier = nxt
    edges = [(u, lab, v) for u, outs in g.out.items() if u in depth for lab, v in outs]
    rng.shuffle(edges)
    # first half of the budget: deepest edges first; second half: seeded random order
    deep = sorted(edges, key=lambda e: -depth[e[0]])
    order = []
    for i in range(max(len(edges), 1)):
        if i < len(deep):
            order.append(deep[i])
        if i < len(edges):
            order.append(edges[i])
    edges = order
    covered: set[tuple[str, str, str]] = set()
    walks = []
    for (u, lab, v) in edges:
        if len(walks) >= n:
            break
        if (u, lab, v) in covered:
            continue
        # shortest path to u
        pre = []
        x = u
        while parent[x] is not None:
            pu, pl = parent[x]
            pre.append((pu, pl, x))
            x = pu
        pre.reverse()
        path = pre + [(u, lab, v)]
        cur = v
        while len(path) < maxlen:
            outs = g.out.get(cur, [])
            if not outs:
                break
            unc = [(l2, d2) for l2, d2 in outs if (cur, l2, d2) not in covered and (cur, l2, d2) not in path]
            l2, d2 = (unc or outs)[rng.randrange(len(unc or outs))]
            path.append((cur, l2, d2))
            cur = d2
        for e in path:
            covered.add(e)
        beh = [("Init", g.state(path[0][0]))] + [(l, g.state(d)) for (_, l, d) in path]
        walks.append(beh)
    return walks, len(covered)
