"""Negotiation laboratory: one real acceptor AE on loopback whose configuration is changed per case,
a raw-socket requestor (exact control over the A-ASSOCIATE-RQ bytes) and the real requestor AE.

Used by C10 (acceptor negotiation), C11 (both views), C13 (acceptance policy), C12 (captured PDUs).
"""
from __future__ import annotations

import socket
import struct
import threading
import time

import pn  # noqa: F401
from pynetdicom import AE, _config, build_context, build_role, evt
from pynetdicom.pdu import A_ABORT_RQ, A_ASSOCIATE_AC, A_ASSOCIATE_RJ, A_ASSOCIATE_RQ, A_RELEASE_RQ, P_DATA_TF
from pynetdicom.pdu_primitives import (A_ASSOCIATE, ImplementationClassUIDNotification, MaximumLengthNotification,
                                       SCP_SCU_RoleSelectionNegotiation, UserIdentityNegotiation)
from pynetdicom.transport import AddressInformation

AB = {"A": "1.2.840.10008.1.1", "B": "1.2.840.10008.5.1.4.1.1.2", "C": "1.2.840.10008.5.1.4.1.1.4", "D": "1.2.840.10008.5.1.4.1.2.1.1"}
AB_INV = {v: k for k, v in AB.items()}
TS = {"T1": "1.2.840.10008.1.2", "T2": "1.2.840.10008.1.2.1", "T3": "1.2.840.10008.1.2.2"}
TS_INV = {v: k for k, v in TS.items()}
STORAGE_LIKE = ["B", "C"]
TRI = {"N": None, "T": True, "F": False}

ALL_DIMSE = [evt.EVT_C_ECHO, evt.EVT_C_STORE, evt.EVT_C_FIND, evt.EVT_C_GET, evt.EVT_C_MOVE, evt.EVT_N_GET, evt.EVT_N_SET,
             evt.EVT_N_ACTION, evt.EVT_N_CREATE, evt.EVT_N_DELETE, evt.EVT_N_EVENT_REPORT]


def recv_pdu(sock, timeout=3.0):
    """Read one PDU from a raw socket; returns bytes, b'' on close, None on timeout."""
    sock.settimeout(timeout)
    buf = b""
    try:
        while len(buf) < 6:
            d = sock.recv(6 - len(buf))
            if not d:
                return b""
            buf += d
        n = struct.unpack(">I", buf[2:6])[0]
        while len(buf) < 6 + n:
            d = sock.recv(6 + n - len(buf))
            if not d:
                return b""
            buf += d
        return buf
    except (socket.timeout, TimeoutError):
        return None
    except OSError:
        return b""


def cx_view(cx):
    return {"id": int(cx.context_id), "ab": AB_INV.get(str(cx.abstract_syntax), str(cx.abstract_syntax)),
            "result": -1 if cx.result is None else int(cx.result),
            "ts": TS_INV.get(str(cx.transfer_syntax[0]), str(cx.transfer_syntax[0])) if cx.transfer_syntax else "",
            "asSCU": bool(cx.as_scu), "asSCP": bool(cx.as_scp)}


THREAD_CRASHES = []


def _quiet_excepthook(args):
    THREAD_CRASHES.append(f"{args.exc_type.__name__}: {args.exc_value}")


class NegLab:
    def __init__(self, ae_title="ACCEPTOR"):
        threading.excepthook = _quiet_excepthook
        self.ae = AE(ae_title)
        self.ae.acse_timeout = 5
        self.ae.dimse_timeout = 5
        self.ae.network_timeout = 5
        self.ae.add_supported_context(AB["A"])
        self.ae.maximum_associations = 1000      # association threads of refused / malformed requests linger for acse_timeout: never the limit
        self.acc_views = []          # acceptor-side associations seen (latest last)
        self.handler_calls = []
        self.identity = None         # per-case verdict for EVT_USER_ID: "true" "false" "raise" or None (unbound)
        self.user_id_calls = 0
        handlers = [(evt.EVT_REQUESTED, self._on_requested)]
        handlers += [(e, self._dimse_handler) for e in ALL_DIMSE]
        self.server = self.ae.start_server(("127.0.0.1", 0), block=False, evt_handlers=handlers)
        self.port = self.server.socket.getsockname()[1]
        self._uid_bound = False

    # ---- acceptor side --------------------------------------------------------------------------
    def _on_requested(self, event):
        self.acc_views.append(event.assoc)

    def _dimse_handler(self, event):
        self.handler_calls.append(event.event.name)
        if event.event.name in ("EVT_C_ECHO", "EVT_C_STORE", "EVT_N_DELETE"):
            return 0x0000
        return 0x0000, None

    def _user_id(self, event):
        self.user_id_calls += 1
        self.user_id_calls_total = getattr(self, "user_id_calls_total", 0) + 1
        if self.identity == "raise":
            # (whatever its class - an exception is not a positive verdict)
            kinds = (RuntimeError, TypeError, KeyError, ValueError, AttributeError)
            raise kinds[self.user_id_calls_total % len(kinds)]("identity check failed")
        if self.identity == "falsy":
            return None, None
        return (self.identity == "true"), None

    def _user_ok(self, event):
        self.user_id_calls += 1
        return True, None

    def apply_idhist(self, identity, hist):
        """The EVT_USER_ID slot of the running server after a configuration history: started with hist["start"] bound
        ("none" | "ok" accept-all | "H" the handler giving the case's verdict), then bind / unbind calls."""
        hs = {"H": self._user_id, "ok": self._user_ok}
        cur = self.server.get_handlers(evt.EVT_USER_ID)[0]
        if cur in hs.values():
            self.server.unbind(evt.EVT_USER_ID, cur)
        self._uid_bound = False
        self.identity = identity
        if hist["start"] != "none":
            self.server.bind(evt.EVT_USER_ID, hs[hist["start"]])
        for op, h in hist["ops"]:
            (self.server.bind if op == "bind" else self.server.unbind)(evt.EVT_USER_ID, hs[h])
        self.user_id_calls = 0

    def configure(self, supported, mode="normal", require_calling=(), require_called=False, identity=None, inplace=False):
        cxs = []
        for s in supported:
            cx = build_context(AB[s["ab"]], [TS[t] for t in s["ts"]])
            cx.scu_role = TRI[s.get("scu", "N")]
            cx.scp_role = TRI[s.get("scp", "N")]
            cxs.append(cx)
        self.server.contexts = cxs
        if threading.active_count() <= 3:      # the switch is process-wide: parallel drivers set it themselves per batch
            _config.UNRESTRICTED_STORAGE_SERVICE = mode == "unrestricted"
        if inplace:
            # the application edits the list it got from the getter (no setter call)
            # start from an empty list, then fill the list object the getter returns
            self.ae.require_calling_aet = []
            live = self.ae.require_calling_aet
            live.extend(require_calling)
        else:
            self.ae.require_calling_aet = list(require_calling)
        self.ae.require_called_aet = bool(require_called)
        self.identity = identity
        if identity is not None and not self._uid_bound:
            self.server.bind(evt.EVT_USER_ID, self._user_id)
            self._uid_bound = True
        elif identity is None and self._uid_bound:
            self.server.unbind(evt.EVT_USER_ID, self._user_id)
            self._uid_bound = False
        del self.acc_views[:]
        del self.handler_calls[:]
        self.user_id_calls = 0

    def acceptor_view(self, wait=1.0):
        t0 = time.time()
        while time.time() - t0 < wait:
            if self.acc_views and (self.acc_views[-1].is_established or self.acc_views[-1].is_rejected or self.acc_views[-1].is_aborted
                                   or self.acc_views[-1].is_released):
                break
            time.sleep(0.002)
        if not self.acc_views:
            return None
        a = self.acc_views[-1]
        return a

    def close(self):
        self.server.shutdown()

    # ---- raw requestor ----------------------------------------------------------------------------
    def rq_pdu(self, proposed, roles=(), calling="REQUESTOR", called="ACCEPTOR", identity=None) -> A_ASSOCIATE_RQ:
        p = A_ASSOCIATE()
        p.application_context_name = "1.2.840.10008.3.1.1.1"
        p.calling_ae_title = "X"
        p.called_ae_title = "Y"
        p.calling_presentation_address = AddressInformation("127.0.0.1", 11112)
        p.called_presentation_address = AddressInformation("127.0.0.1", self.port)
        ml = MaximumLengthNotification()
        ml.maximum_length_received = 16382
        ic = ImplementationClassUIDNotification()
        ic.implementation_class_uid = "1.2.3.4"
        ui = [ml, ic]
        late = []
        for r in roles:
            item = SCP_SCU_RoleSelectionNegotiation()
            item.sop_class_uid = AB[r["ab"]]
            item.scu_role = bool(r["scu"])
            item.scp_role = bool(r["scp"])
            if not r["scu"] and not r["scp"]:
                late.append(item)      # legal on the wire, refused by the primitive: added at the PDU item level
            else:
                ui.append(item)
        if identity is not None:
            u = UserIdentityNegotiation()
            u.user_identity_type = identity.get("type", 1)
            u.primary_field = identity.get("primary", b"user")
            if u.user_identity_type == 2:
                u.secondary_field = identity.get("secondary", b"pw")
            u.positive_response_requested = bool(identity.get("positive", False))
            ui.append(u)
        p.user_information = ui
        cxs = []
        for c in proposed:
            cx = build_context(AB[c["ab"]], [TS[t] for t in c["ts"]])
            cx.context_id = c["id"]
            cxs.append(cx)
        p.presentation_context_definition_list = cxs
        pdu = A_ASSOCIATE_RQ(p)
        for item in late:
            from pynetdicom.pdu_items import SCP_SCU_RoleSelectionSubItem

            sub = SCP_SCU_RoleSelectionSubItem()
            sub.from_primitive(item)
            pdu.user_information.user_data.append(sub)
        # exact title strings as given (the PDU stores them as-is, padded to 16 on encode)
        pdu.calling_ae_title = calling
        pdu.called_ae_title = called
        return pdu

    def raw_associate(self, rq_bytes: bytes, then_echo=False):
        """Send RQ bytes; returns dict(kind, pdu, bytes). Releases an accepted association."""
        s = socket.create_connection(("127.0.0.1", self.port), timeout=3)
        out = {"kind": "none", "pdu": None, "bytes": b"", "after": None}
        try:
            s.sendall(rq_bytes)
            b = recv_pdu(s, 8.0)
            out["bytes"] = b or b""
            if b:
                if b[0] == 2:
                    pdu = A_ASSOCIATE_AC()
                    pdu.decode(b)
                    out.update(kind="AC", pdu=pdu)
                elif b[0] == 3:
                    pdu = A_ASSOCIATE_RJ()
                    pdu.decode(b)
                    out.update(kind="RJ", pdu=pdu)
                elif b[0] == 7:
                    pdu = A_ABORT_RQ()
                    pdu.decode(b)
                    out.update(kind="ABORT", pdu=pdu)
            elif b == b"":
                out["kind"] = "closed"
            if then_echo:
                # a C-ECHO request on context 1 regardless of the outcome
                try:
                    s.sendall(pn.pdata_pdu(1, echo_command()).encode())
                    out["after"] = recv_pdu(s, 2.0)
                except OSError:
                    out["after"] = b""
            if out["kind"] == "AC":
                try:
                    s.sendall(A_RELEASE_RQ().encode())
                    recv_pdu(s, 2.0)
                except OSError:
                    pass
        finally:
            s.close()
        return out

    # ---- real requestor ---------------------------------------------------------------------------
    def real_associate(self, proposed, roles=(), calling="REQUESTOR", called="ACCEPTOR"):
        ae = AE(calling)
        ae.acse_timeout = 5
        ae.dimse_timeout = 5
        ae.network_timeout = 5
        cxs = [build_context(AB[c["ab"]], [TS[t] for t in c["ts"]]) for c in proposed]
        # every second request is made of context objects that carry IDs from elsewhere (as if taken from an earlier association's
        # accepted_contexts, placed after a new one): associate() numbers the contexts of the request itself
        self._real_n = getattr(self, "_real_n", 0) + 1
        if self._real_n % 2 == 0:
            for k, cx in enumerate(cxs):
                if k >= 1:
                    cx.context_id = 2 * (k - 1) + 1
        ext = [build_role(AB[r["ab"]], scu_role=bool(r["scu"]), scp_role=bool(r["scp"])) for r in roles]
        captured = {}

        def on_data(event):
            if event.data and event.data[0] == 2 and "ac" not in captured:
                captured["ac"] = bytes(event.data)

        assoc = ae.associate("127.0.0.1", self.port, contexts=cxs, ae_title=called, ext_neg=ext,
                             evt_handlers=[(evt.EVT_DATA_RECV, on_data)])
        return assoc, captured.get("ac")


def echo_command(msg_id=1) -> bytes:
    """PDV payload (control header + command set) of a C-ECHO-RQ."""
    from pynetdicom.dimse_primitives import C_ECHO
    from pynetdicom.dimse_messages import C_ECHO_RQ

    p = C_ECHO()
    p.MessageID = msg_id
    p.AffectedSOPClassUID = "1.2.840.10008.1.1"
    m = C_ECHO_RQ()
    m.primitive_to_message(p)
    pd = next(iter(m.encode_msg(1, 16382)))
    return pd.presentation_data_value_list[0][1]
