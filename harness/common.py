"""Shared context for every property check: tiers, seeds, evidence, known findings, verdicts.

Verdict policy (DESIGN.md §3.2):
  exit 0  property held on everything explored (KNOWN-FINDING / DRIFT lines allowed)
  exit 1  at least one violation not listed in known_findings.json (VIOLATION line each)
  exit 2  machinery failure (TLC crashed, vacuous coverage, harness exception)
"""
from __future__ import annotations

import hashlib
import json
import os
import re
import shutil
import sys
import time
import traceback

VERIF = os.path.dirname(os.path.dirname(os.path.abspath(__file__)))
REPO = os.environ.get("VERIF_REPO", "/repo")
SPEC = os.path.join(VERIF, "spec")
GUARD = "PYNETDICOM_VERIF"


class MachineryError(Exception):
    """Raised when the machinery (not the property) failed."""


def jdefault(o):
    if isinstance(o, (bytes, bytearray)):
        return o.hex()
    if isinstance(o, (set, frozenset)):
        return sorted(o, key=repr)
    if isinstance(o, tuple):
        return list(o)
    return repr(o)


def slug(obj) -> str:
    s = json.dumps(obj, sort_keys=True, default=jdefault)
    h = hashlib.sha1(s.encode()).hexdigest()[:10]
    t = re.sub(r"[^A-Za-z0-9]+", "-", s)[:60].strip("-")
    return f"{t}-{h}"


class Ctx:
    def __init__(self, pid: str, tier: str, seed: int):
        self.pid = pid
        self.tier = tier
        self.seed = seed
        self.t0 = time.time()
        # VERIF_OUT (seed testing only): keep work files, replays and evidence of a run against a scratch copy of the
        # repository (VERIF_REPO) apart from those of the registered checks
        out = os.environ.get("VERIF_OUT") or VERIF
        self.out_root = out
        self.work = os.path.join(out, ".work", pid)
        shutil.rmtree(self.work, ignore_errors=True)
        os.makedirs(self.work, exist_ok=True)
        self.replay_dir = os.path.join(out, "replays", pid)
        os.makedirs(self.replay_dir, exist_ok=True)
        self.violations: list[dict] = []
        self.known_hits: dict[str, dict] = {}
        self.drift: list[str] = []
        self.cov: dict = {}
        self.assumptions: list[str] = []
        self.samples: list = []
        self.states = 0
        self.transitions = 0
        self.traces = 0
        self.evaluations = 0
        self.nontrivial: set = set()
        self.level = "model_checking"
        self.notes: list[str] = []
        with open(os.path.join(VERIF, "known_findings.json")) as f:
            self.known = [
                k
                for k in json.load(f)["findings"]
                if k["property"] == pid and k.get("status") == "open"
            ]

    # ---- coverage accounting -------------------------------------------------
    def add_tlc(self, res) -> None:
        self.states += res.distinct
        self.transitions += res.generated
        self.cov.setdefault("tlc_runs", []).append(res.summary())

    def count(self, key: str, n: int = 1) -> None:
        self.cov[key] = self.cov.get(key, 0) + n

    def sample(self, obj, limit: int = 4) -> None:
        if len(self.samples) < limit:
            self.samples.append(obj)

    def case(self, key=None, nontrivial: bool = True) -> None:
        """Record one case/behaviour executed against the implementation."""
        self.evaluations += 1
        if nontrivial and key is not None:
            self.nontrivial.add(key if isinstance(key, (str, int, tuple)) else slug(key))

    # ---- verdicts --------------------------------------------------------------
    def _match_known(self, sig: dict):
        for k in self.known:
            ks = k["signature"]
            if all(v == "*" or str(sig.get(kk)) == str(v) for kk, v in ks.items()):
                return k
        return None

    def violation(self, sig: dict, detail: str, replay=None) -> bool:
        """Report a property-predicate failure observed on the implementation/model.

        Returns True when it is a new (unlisted) violation.
        """
        k = self._match_known(sig)
        if k is not None:
            ent = self.known_hits.setdefault(k["id"], {"entry": k, "n": 0, "first": detail})
            ent["n"] += 1
            return False
        key = slug(sig)
        for v in self.violations:
            if v["key"] == key:
                v["n"] += 1
                return True
        path = os.path.join(self.replay_dir, key + ".json")
        with open(path, "w") as f:
            json.dump(
                {"property": self.pid, "signature": sig, "detail": detail, "replay": replay},
                f,
                indent=1,
                default=jdefault,
            )
        self.violations.append({"key": key, "sig": sig, "detail": detail, "path": path, "n": 1})
        return True

    def drifted(self, msg: str) -> None:
        if len(self.drift) < 200:
            self.drift.append(msg)
        self.count("drift")

    def assume(self, *texts: str) -> None:
        for t in texts:
            if t not in self.assumptions:
                self.assumptions.append(t)

    # ---- finish -----------------------------------------------------------------
    def finish(self, rule: str, exhaustive: bool = False, extra: dict | None = None) -> int:
        cov = dict(self.cov)
        cov.update(
            {
                "states": self.states,
                "transitions": self.transitions,
                "traces_validated_against_impl": self.traces,
                "evaluations": max(self.evaluations, self.traces),
                "distinct_nontrivial": len(self.nontrivial),
                "rule": rule,
                "samples": self.samples or ["(none)"],
                "exhaustive": exhaustive,
                "known_findings_hit": {
                    k: {"n": v["n"], "first": v["first"]} for k, v in self.known_hits.items()
                },
                "drift_lines": self.drift[:20],
            }
        )
        if extra:
            cov.update(extra)
        ev = {
            "property_id": self.pid,
            "tier": self.tier,
            "seed": self.seed,
            "level": self.level,
            "coverage": cov,
            "assumptions": self.assumptions,
            "wall_s": round(time.time() - self.t0, 2),
            "violations": len(self.violations),
        }
        os.makedirs(os.path.join(self.out_root, "evidence"), exist_ok=True)
        with open(os.path.join(self.out_root, "evidence", self.pid + ".json"), "w") as f:
            json.dump(ev, f, indent=1, default=jdefault)
        for d in self.drift[:20]:
            print(f"DRIFT property={self.pid} {d}")
        for kid, v in self.known_hits.items():
            print(f"KNOWN-FINDING: property={self.pid} {kid}: {v['entry']['what']} (hit {v['n']}x)")
        for i, v in enumerate(self.violations):
            print(f"VIOLATION property={self.pid} replay={v['path']}")
            if i < 12:
                print(f"  signature={json.dumps(v['sig'], default=jdefault)} count={v['n']}")
                print(f"  detail={v['detail'][:600]}")
        print(
            f"[{self.pid}/{self.tier}] states={self.states} transitions={self.transitions} "
            f"impl_runs={max(self.evaluations, self.traces)} nontrivial={len(self.nontrivial)} "
            f"violations={len(self.violations)} known={len(self.known_hits)} "
            f"drift={self.cov.get('drift', 0)} wall={ev['wall_s']}s"
        )
        return 1 if self.violations else 0


def main_wrapper(run, pid: str, argv: list[str]) -> int:
    import argparse

    ap = argparse.ArgumentParser()
    ap.add_argument("--tier", default=os.environ.get("VERIF_TIER", "quick"))
    ap.add_argument("--replay", default=None)
    ns = ap.parse_args(argv)
    seed = int(os.environ.get("VERIF_SEED", "0") or 0)
    os.environ[GUARD] = "1"
    os.environ.setdefault("PYTHONHASHSEED", "0")
    ctx = Ctx(pid, ns.tier, seed)
    ctx.replay_path = ns.replay
    try:
        rc = run(ctx)
        return rc if rc is not None else 0
    except MachineryError as e:
        print(f"MACHINERY-FAILURE property={pid}: {e}")
        return 2
    except Exception as e:
        traceback.print_exc()
        site = _anchored_raise(e, pid)
        if site is not None:
            # the code the property is anchored in raised inside an operation this check drives - on the unchanged tree it never
            # does (the check completes); the operation's outcome is "raised", which no property predicate of this check allows
            rel, func, line, text = site
            ctx.violation({"clause": f"{pid}_AnchoredCodeRaised", "where": f"{rel}:{func}", "exc": type(e).__name__},
                          f"{pid}_AnchoredCodeRaised: {text} raised in {rel}:{line} ({func}) during an operation the check drives; "
                          "the check could not go on", {"traceback": traceback.format_exc()[-4000:]})
            return ctx.finish(rule="stopped by an exception raised in the property's anchored code")
        print(f"MACHINERY-FAILURE property={pid}: harness exception")
        return 2


def _anchored_raise(exc, pid):
    """(relative file, function, line, text) of the innermost frame of the innermost cause, if that frame lies in one of the
    files the property is anchored in (properties.jsonl anchors.files) - else None."""
    try:
        props = [json.loads(l) for l in open(os.path.join(os.path.dirname(os.path.dirname(os.path.abspath(__file__))), "properties.jsonl")) if l.strip()]
        files = set(next(p for p in props if p["id"] == pid)["anchors"]["files"])
        root = exc
        while root.__cause__ is not None or (root.__context__ is not None and not root.__suppress_context__):
            root = root.__cause__ or root.__context__
        tb = traceback.extract_tb(root.__traceback__)
        if not tb:
            return None
        last = tb[-1]
        repo = os.path.realpath(REPO)
        fn = os.path.realpath(last.filename)
        if not fn.startswith(repo + os.sep):
            return None
        rel = os.path.relpath(fn, repo)
        if rel not in files:
            return None
        return rel, last.name, last.lineno, f"{type(root).__name__}: {root}"[:200]
    except Exception:  # noqa: BLE001
        return None
