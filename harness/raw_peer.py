"""A scripted peer on a raw TCP socket: it speaks the Upper Layer / DIMSE wire formats (built and parsed with
pynetdicom's own PDU and message classes, which C01 / C17 check) but is not bound by the protocol's rules -
it can send A-RELEASE-RQ in the middle of an operation, stay silent, stop half-way through a PDU, dribble.

Used by C07 (release answered wherever it arrives), C08 (stalls), C14 (admission), C26.
"""
from __future__ import annotations

import socket
import struct
import time

import pn  # noqa: F401
from pynetdicom import build_context
from pynetdicom.dimse import _RQ_TO_MESSAGE, _RSP_TO_MESSAGE
from pynetdicom.dimse_messages import DIMSEMessage
from pynetdicom.pdu import A_ABORT_RQ, A_ASSOCIATE_AC, A_ASSOCIATE_RQ, A_RELEASE_RP, A_RELEASE_RQ, P_DATA_TF
from pynetdicom.pdu_primitives import (A_ASSOCIATE, ImplementationClassUIDNotification, MaximumLengthNotification,
                                       SCP_SCU_RoleSelectionNegotiation)
from pynetdicom.transport import AddressInformation

IMPLICIT = "1.2.840.10008.1.2"
KINDS = {1: "assoc_rq", 2: "assoc_ac", 3: "assoc_rj", 4: "pdata", 5: "release_rq", 6: "release_rp", 7: "abort"}


class _Shim:
    """What DIMSEMessage.decode_msg needs from an association: the accepted contexts' transfer syntax (not used for commands)."""
    _accepted_cx: dict = {}


def assoc_rq_bytes(port, proposals, calling="PEER", called="ACCEPTOR", roles=(), max_len=16382, async_ops=None):
    p = A_ASSOCIATE()
    p.application_context_name = "1.2.840.10008.3.1.1.1"
    p.calling_ae_title, p.called_ae_title = calling, called
    p.calling_presentation_address = AddressInformation("127.0.0.1", 11112)
    p.called_presentation_address = AddressInformation("127.0.0.1", port)
    ml = MaximumLengthNotification()
    ml.maximum_length_received = max_len
    ic = ImplementationClassUIDNotification()
    ic.implementation_class_uid = "1.2.3.4"
    ui = [ml, ic]
    for uid, scu, scp in roles:
        r = SCP_SCU_RoleSelectionNegotiation()
        r.sop_class_uid, r.scu_role, r.scp_role = uid, scu, scp
        ui.append(r)
    if async_ops:
        from pynetdicom.pdu_primitives import AsynchronousOperationsWindowNegotiation
        a = AsynchronousOperationsWindowNegotiation()
        a.maximum_number_operations_invoked, a.maximum_number_operations_performed = async_ops
        ui.append(a)
    p.user_information = ui
    cxs = []
    for k, (ab, tss) in enumerate(proposals):
        cx = build_context(ab, list(tss))
        cx.context_id = 2 * k + 1
        cxs.append(cx)
    p.presentation_context_definition_list = cxs
    return A_ASSOCIATE_RQ(p).encode()


class RawPeer:
    def __init__(self, port, proposals, roles=(), calling="PEER", called="ACCEPTOR", connect_timeout=3.0, async_ops=None):
        self.port, self.proposals, self.roles, self.calling, self.called = port, list(proposals), list(roles), calling, called
        self.async_ops = async_ops
        self.sock = socket.create_connection(("127.0.0.1", port), timeout=connect_timeout)
        self.sock.setsockopt(socket.IPPROTO_TCP, socket.TCP_NODELAY, 1)
        self.cx = {}            # abstract syntax -> accepted context id
        self.log = []           # (t, direction, kind)
        self._msg = None
        self.t0 = time.monotonic()

    # ---- raw I/O ----
    def _note(self, d, kind):
        self.log.append((round(time.monotonic() - self.t0, 4), d, kind))

    def send_bytes(self, b, kind="bytes"):
        self.sock.sendall(b)
        self._note("out", kind)

    def recv_pdu(self, timeout=3.0):
        """One PDU as (kind, bytes); ("closed", b"") on EOF/reset; ("timeout", b"") if nothing complete arrived in time."""
        self.sock.settimeout(timeout)
        buf = b""
        try:
            while len(buf) < 6:
                d = self.sock.recv(6 - len(buf))
                if not d:
                    self._note("in", "closed")
                    return "closed", b""
                buf += d
            n = struct.unpack(">I", buf[2:6])[0]
            while len(buf) < 6 + n:
                d = self.sock.recv(6 + n - len(buf))
                if not d:
                    self._note("in", "closed")
                    return "closed", b""
                buf += d
        except (socket.timeout, TimeoutError):
            return "timeout", b""
        except OSError:
            self._note("in", "closed")
            return "closed", b""
        kind = KINDS.get(buf[0], "unknown")
        self._note("in", kind)
        return kind, buf

    # ---- association ----
    def associate(self, timeout=3.0):
        self.send_rq()
        return self.read_answer(timeout)

    def send_rq(self):
        self.send_bytes(assoc_rq_bytes(self.port, self.proposals, self.calling, self.called, self.roles, async_ops=self.async_ops), "assoc_rq")

    def read_answer(self, timeout=3.0):
        """"assoc_ac" (contexts recorded), "assoc_rj" (self.rj = (result, source, reason)), or what else arrived."""
        kind, b = self.recv_pdu(timeout)
        if kind == "assoc_rj":
            self.rj = (b[7], b[8], b[9])
        if kind == "assoc_ac":
            ac = A_ASSOCIATE_AC()
            ac.decode(b)
            for item in ac.presentation_context:
                if item.result == 0:
                    self.cx[self.proposals[(item.presentation_context_id - 1) // 2][0]] = item.presentation_context_id
        return kind

    def release_rq(self):
        self.send_bytes(A_RELEASE_RQ().encode(), "release_rq")

    def release_rp(self):
        self.send_bytes(A_RELEASE_RP().encode(), "release_rp")

    def abort(self):
        pdu = A_ABORT_RQ()
        pdu.source, pdu.reason_diagnostic = 0, 0
        self.send_bytes(pdu.encode(), "abort")

    def close(self):
        try:
            self.sock.close()
        except OSError:
            pass

    # ---- DIMSE ----
    def dimse_bytes(self, primitive, abstract=None, cx_id=None, max_pdu=16382):
        """The P-DATA-TF PDUs (bytes) carrying one DIMSE message."""
        cid = cx_id if cx_id is not None else self.cx[abstract]
        m = (_RQ_TO_MESSAGE if primitive.MessageIDBeingRespondedTo is None else _RSP_TO_MESSAGE)[primitive.__class__]()
        m.primitive_to_message(primitive)
        out = []
        for pd in m.encode_msg(cid, max_pdu):
            pdu = P_DATA_TF()
            pdu.from_primitive(pd)
            out.append(pdu.encode())
        return out

    def send_dimse(self, primitive, abstract=None, cx_id=None):
        for b in self.dimse_bytes(primitive, abstract, cx_id):
            self.send_bytes(b, "pdata:" + type(primitive).__name__)

    def recv_event(self, timeout=3.0):
        """Next protocol-level event: ("dimse", primitive, context id) once a whole message has arrived, or (kind, bytes)."""
        deadline = time.monotonic() + timeout
        while True:
            left = deadline - time.monotonic()
            if left <= 0:
                return ("timeout", b"")
            kind, b = self.recv_pdu(left)
            if kind != "pdata":
                return (kind, b)
            pdu = P_DATA_TF()
            pdu.decode(b)
            prim = pdu.to_primitive()
            if self._msg is None:
                self._msg = DIMSEMessage()
            if self._msg.decode_msg(prim, _Shim()):
                msg, self._msg = self._msg, None
                p = msg.message_to_primitive()
                self._note("in", "dimse:" + type(p).__name__ + (f":{p.Status:04X}" if getattr(p, "Status", None) is not None else ""))
                return ("dimse", p, msg.context_id)
