"""Harness-side substitutions: virtual clock, fake transport, recording timer. Nothing here touches /repo."""
from __future__ import annotations

import threading
import time as _real_time


class VirtualClock:
    """Stands in for the `time` module inside pynetdicom.timer.

    Two independent clocks: `wall` (what time.time() returns; may jump either way) and `mono`
    (elapsed time; what monotonic()/perf_counter() return; only advances).
    """

    def __init__(self, wall: float = 1_000_000.0, mono: float = 500.0):
        self.wall = wall
        self.mono = mono

    def time(self) -> float:
        return self.wall

    def monotonic(self) -> float:
        return self.mono

    def perf_counter(self) -> float:
        return self.mono

    def monotonic_ns(self) -> int:
        return int(self.mono * 1e9)

    def time_ns(self) -> int:
        return int(self.wall * 1e9)

    def perf_counter_ns(self) -> int:
        return int(self.mono * 1e9)

    def sleep(self, s: float) -> None:
        _real_time.sleep(0)

    def advance(self, d: float) -> None:
        self.wall += d
        self.mono += d

    def jump_wall(self, d: float) -> None:
        self.wall += d

    def __getattr__(self, name):
        return getattr(_real_time, name)


class install_clock:
    """Context manager: replace pynetdicom.timer's `time` with a VirtualClock."""

    def __init__(self, clock: VirtualClock):
        self.clock = clock

    def __enter__(self):
        import pynetdicom.timer as T

        self._mod = T
        self._old = T.time
        T.time = self.clock
        return self.clock

    def __exit__(self, *a):
        self._mod.time = self._old


class FakeSocket:
    """Scripted stand-in for transport.AssociationSocket at the DUL boundary."""

    def __init__(self, assoc=None):
        self.assoc = assoc
        self.sent: list[bytes] = []
        self.closed = 0
        self.shutdown = 0
        self.connected = 0
        self.inbuf = bytearray()
        self.eof = False
        self._ready = False
        self._is_connected = True
        self.socket = object()
        self.lock = threading.Lock()
        self.os_closed = False

    # -- what the DUL/FSM call ------------------------------------------------
    @property
    def ready(self) -> bool:
        # mirrors transport.AssociationSocket.ready
        if self.socket is None or self._is_connected is False:
            return False
        if self.os_closed:
            # select() on a closed descriptor raises -> Evt17
            self.assoc.dul.event_queue.put("Evt17")
            return False
        return bool(self.inbuf) or self.eof

    def send(self, bytestream: bytes) -> None:
        # mirrors transport.AssociationSocket.send: a failed send queues Evt17
        if self.socket is None or self.os_closed:
            if self.assoc is not None:
                self.assoc.dul.event_queue.put("Evt17")
            return
        self.sent.append(bytes(bytestream))

    def recv(self, nr_bytes: int) -> bytearray:
        if len(self.inbuf) >= nr_bytes:
            out = self.inbuf[:nr_bytes]
            del self.inbuf[:nr_bytes]
            return bytearray(out)
        if self.eof:
            # the real recv() returns what it has when the peer closed
            out = bytearray(self.inbuf)
            self.inbuf.clear()
            return out
        raise AssertionError("FakeSocket.recv would block")

    def close(self) -> None:
        # mirrors transport.AssociationSocket.close(): idempotent, Evt17 once
        self.closed += 1
        self._shutdown_socket()
        if self.socket is None or self._is_connected is False:
            return
        self.socket = None
        self._is_connected = False
        if self.assoc is not None:
            self.assoc.dul.event_queue.put("Evt17")

    def _shutdown_socket(self) -> None:
        self.shutdown += 1
        self.os_closed = True

    def connect(self, primitive) -> None:
        self.connected += 1
