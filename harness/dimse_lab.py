"""DIMSE laboratory: real primitive -> DIMSEMessage -> encode_msg (fragments) -> regroup -> real decode_msg ->
message_to_primitive.  Used by C15 (fragmentation), C16 (data-set flag / receivability), C17 (round trip)."""
from __future__ import annotations

import os
import tempfile
from io import BytesIO
from pathlib import Path

import pn  # noqa: F401
from pynetdicom import dimse_primitives as DP
from pynetdicom import dimse_messages as DM
from pynetdicom.pdu_primitives import P_DATA

CTX = 3
PRIM = {"C-STORE": DP.C_STORE, "C-GET": DP.C_GET, "C-FIND": DP.C_FIND, "C-MOVE": DP.C_MOVE, "C-ECHO": DP.C_ECHO, "C-CANCEL": DP.C_CANCEL,
        "N-EVENT-REPORT": DP.N_EVENT_REPORT, "N-GET": DP.N_GET, "N-SET": DP.N_SET, "N-ACTION": DP.N_ACTION, "N-CREATE": DP.N_CREATE,
        "N-DELETE": DP.N_DELETE}

UIDS = ["1.2.840.10008.1.1", "1.2", "1." + "2" * 62]
VALUES = {
    "MessageID": [1, 0, 65535], "MessageIDBeingRespondedTo": [1, 0, 65535], "MoveOriginatorMessageID": [7, 0, 65535],
    "AffectedSOPClassUID": UIDS, "AffectedSOPInstanceUID": ["1.2.3.4", "1.2", "1." + "3" * 62],
    "RequestedSOPClassUID": UIDS, "RequestedSOPInstanceUID": ["1.2.3.4", "1.2", "1." + "3" * 62],
    "Priority": [2, 0, 1], "Status": [0x0000, 0xFF00, 0xA700],
    "MoveDestination": ["DEST", "A", "ABCDEFGHIJKLMNOP"], "MoveOriginatorApplicationEntityTitle": ["ORIG", "B", "ABCDEFGHIJKLMNOP"],
    "OffendingElement": [[0x00100010], [0x00100010, 0x00100020], [0x00100010, 0x00100020, 0x0020000D]],
    "ErrorComment": ["error", "e", "x" * 64], "ErrorID": [1, 0, 65535],
    "EventTypeID": [1, 0, 65535], "ActionTypeID": [1, 0, 65535],
    "NumberOfRemainingSuboperations": [1, 0, 65535], "NumberOfCompletedSuboperations": [2, 0, 65535],
    "NumberOfFailedSuboperations": [3, 0, 65535], "NumberOfWarningSuboperations": [4, 0, 65535],
    "AttributeIdentifierList": [[0x00100010], [0x00100010, 0x00100020, 0x0020000D], [0x00000000]],
}
DS_BYTES = {"absent": None, "empty": b"", "odd": b"\x08\x00\x05\x00\x01", "even": b"\x10\x00\x20\x00\x02\x00\x00\x00\x41\x42", "na": None}


def prim_class(name):
    base, kind = name.rsplit("-", 1)
    return PRIM[base], kind == "RQ"


def norm(k, v):
    if v is None:
        return None
    if k in ("OffendingElement", "AttributeIdentifierList"):
        if not isinstance(v, (list, tuple)) and not hasattr(v, "__iter__"):
            v = [v]
        try:
            return [int(x) for x in v]
        except TypeError:
            return [int(v)]
    if "UID" in k:
        return str(v)
    if k in ("MoveDestination", "MoveOriginatorApplicationEntityTitle"):
        return (v.decode() if isinstance(v, bytes) else str(v)).strip()
    if isinstance(v, (bytes, str)):
        return v
    return int(v)


def build_primitive(case):
    cls, is_rq = prim_class(case["name"])
    p = cls()
    vc = case["vc"] - 1
    skipped = []
    for k in sorted(set(case["mand"]) | set(case["opts"])):
        if not hasattr(p, k):
            skipped.append(k)
            continue
        val = VALUES[k][vc]
        if k == "MessageIDBeingRespondedTo" and not is_rq and case["name"] != "C-CANCEL-RQ":
            pass
        setattr(p, k, val)
    if not is_rq and hasattr(p, "MessageID") and case["name"] != "C-CANCEL-RQ":
        # pynetdicom's response primitives mark "response" by MessageIDBeingRespondedTo
        pass
    dsb = DS_BYTES[case["ds"]]
    if case["dsparam"] and hasattr(p, case["dsparam"]) and case["ds"] != "absent":
        setattr(p, case["dsparam"], BytesIO(dsb))
    return p, skipped


def message_for(p):
    if isinstance(p, DP.C_CANCEL):
        return DM.C_CANCEL_RQ()
    from pynetdicom.dimse import _RQ_TO_MESSAGE, _RSP_TO_MESSAGE

    return (_RQ_TO_MESSAGE if p.MessageIDBeingRespondedTo is None else _RSP_TO_MESSAGE)[type(p)]()


def pdv_list(pdatas):
    """[(ctx, header, data)] for every PDV of every P-DATA primitive, and the PDV-list length per PDU."""
    pdvs, pdulens = [], []
    for p in pdatas:
        n = 0
        for cid, data in p.presentation_data_value_list:
            pdvs.append((cid, data[0], data[1:]))
            n += 4 + 1 + len(data)
        pdulens.append(n)
    return pdvs, pdulens


def regroup(pdvs, groups):
    """Pack the PDVs into P-DATA primitives following `groups` (sizes, applied cyclically)."""
    out, i, g = [], 0, 0
    while i < len(pdvs):
        k = max(1, groups[g % len(groups)])
        p = P_DATA()
        for cid, h, data in pdvs[i:i + k]:
            p.presentation_data_value_list.append((cid, bytes([h]) + bytes(data)))
        out.append(p)
        i += k
        g += 1
    return out


def receive(pdatas, assoc=None):
    msg = DM.DIMSEMessage()
    done = False
    for p in pdatas:
        if msg.decode_msg(p, assoc):
            done = True
    return msg, done


def frag_observe(d: int, maxlen: int, groupings, backing="mem", payload=None):
    """Fragment a C-STORE-RQ whose data set is `d` bytes (in memory or file-backed), regroup, reassemble."""
    from pynetdicom.dsutils import encode as _enc  # noqa: F401

    p = DP.C_STORE()
    p.MessageID, p.AffectedSOPClassUID, p.AffectedSOPInstanceUID, p.Priority = 1, "1.2.840.10008.5.1.4.1.1.2", "1.2.3.4", 2
    data = payload if payload is not None else bytes((7 * j + 3) % 251 for j in range(d))
    tmp = None
    if backing == "mem":
        if d > 0:
            p.DataSet = BytesIO(data)
    else:
        fd, tmp = tempfile.mkstemp(suffix=".dcm", dir=os.environ.get("VERIF_TMP"))
        os.write(fd, b"\x00" * 132 + b"META" + data)
        os.close(fd)
        p._dataset_path = (Path(tmp), 136)
    try:
        msg = DM.C_STORE_RQ()
        msg.primitive_to_message(p)
        cmd_bytes_len = None
        # an exception out of the fragmenter is an observation (the message cannot be sent completely), not a harness failure:
        # whatever was produced before it is what a peer would have received
        pdatas, raised = [], ""
        try:
            for pd in msg.encode_msg(CTX, maxlen):
                pdatas.append(pd)
        except Exception as e:  # noqa: BLE001
            raised = f"{type(e).__name__}: {e}"[:160]
        pdvs, pdulens = pdv_list(pdatas)
        rx = []
        for g in groupings:
            if not pdvs:
                rx.append({"done": False, "cmdok": False, "dsok": False, "groups": list(g)})
                continue
            m2, done = receive(regroup(pdvs, g))
            cmdok = done and m2.command_set == msg.command_set
            got = m2.data_set.getvalue() if (done and m2.data_set is not None) else b""
            rx.append({"done": bool(done), "cmdok": bool(cmdok), "dsok": got == (data if d > 0 or backing == "file" else b""), "groups": list(g)})
        return {"kind": "frag", "d": d, "max": maxlen, "backing": backing,
                "pdvs": [{"cmd": bool(h & 1), "last": bool(h & 2), "len": len(b)} for _, h, b in pdvs],
                "pdulens": pdulens, "announces": int(msg.command_set.CommandDataSetType) != 0x0101, "rx": rx,
                "ctxok": all(c == CTX for c, _, _ in pdvs), "raised": raised}
    finally:
        if tmp:
            os.unlink(tmp)


class Rejected(Exception):
    pass


def msg_observe(case, maxlen=16382):
    """Round trip of one catalogue case; returns the observation for Trace_Dimse."""
    try:
        p, skipped = build_primitive(case)
    except Exception as e:  # noqa: BLE001   the primitive does not accept this value: outside the property's quantifier
        raise Rejected(f"{type(e).__name__}: {e}")
    diff, back, dsok = [], "", True
    try:
        msg = message_for(p)
        msg.primitive_to_message(p)
        field = int(msg.command_set.CommandField)
        pdatas = list(msg.encode_msg(CTX, maxlen))
        pdvs, pdulens = pdv_list(pdatas)
        m2, done = receive(pdatas)
    except Exception as e:  # noqa: BLE001   an accepted primitive that cannot be converted/encoded/decoded
        return {"kind": "msg", "name": case["name"], "field": int(case["field"]), "back": f"raised {type(e).__name__}: {e}"[:200], "diff": [], "dsok": False,
                "skipped": skipped, "case": {"opts": sorted(case["opts"]), "ds": case["ds"], "vc": case["vc"]}, "max": maxlen,
                "pdvs": [{"cmd": True, "last": True, "len": 1}], "pdulens": [7], "announces": False, "rx": []}
    if done:
        q = m2.message_to_primitive()
        cls, is_rq = prim_class(case["name"])
        back_rq = isinstance(q, DP.C_CANCEL) or q.MessageIDBeingRespondedTo is None
        base = {v: k for k, v in PRIM.items()}[type(q)]
        back = f"{base}-{'RQ' if back_rq else 'RSP'}"
        for k in sorted(set(case["mand"]) | set(case["opts"])):
            if k in skipped:
                continue
            a, b = norm(k, getattr(p, k)), norm(k, getattr(q, k, None))
            if a != b:
                diff.append(f"{k}: {a!r} -> {b!r}")
        if case["dsparam"] and hasattr(p, case["dsparam"]):
            want = DS_BYTES[case["ds"]] or b""
            gotv = getattr(q, case["dsparam"])
            dsok = (gotv.getvalue() if gotv is not None else b"") == want
    return {"kind": "msg", "name": case["name"], "field": field, "back": back, "diff": diff, "dsok": bool(dsok), "skipped": skipped,
            "case": {"opts": sorted(case["opts"]), "ds": case["ds"], "vc": case["vc"]}, "max": maxlen,
            "pdvs": [{"cmd": bool(h & 1), "last": bool(h & 2), "len": len(b)} for _, h, b in pdvs], "pdulens": pdulens,
            "announces": int(msg.command_set.CommandDataSetType) != 0x0101,
            "rx": [{"done": bool(done), "cmdok": bool(done), "dsok": bool(dsok), "groups": [1]}]}
