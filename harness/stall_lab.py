"""C08 lab: one real pynetdicom node (acceptor or requestor) against a raw peer that keeps the TCP connection open
and stops sending at a chosen point of a chosen protocol phase (spec/Stall.tla: role, phase, cut, style).

Timeouts are short (ACSE 0.6 s, DIMSE 0.6 s, network 0.8 s, connection 1 s); the bound by which every call must have
returned and every thread ended is their sum plus a margin.  The peer closes its socket only after the verdict has
been taken (which also frees threads that were still blocked).
"""
from __future__ import annotations

import socket
import threading
import time

import pn  # noqa: F401
from pynetdicom import AE, evt
from pynetdicom.pdu import A_RELEASE_RP

from pair_lab import CT, VERIF_UID, ct_ds
from raw_peer import RawPeer, assoc_rq_bytes

ACSE, DIMSE, NETWORK, CONNECT = 0.6, 0.6, 0.8, 1.0
BOUND = ACSE + DIMSE + NETWORK + 1.5
PIECE_GAP = 0.35          # a dribbling peer sends its late pieces this far apart (less than every timeout)


def cut_bytes(pdu: bytes, cut: str):
    """(first piece, late pieces) of a PDU the peer never completes."""
    if cut == "header":
        return pdu[:3], [pdu[3:4], pdu[4:5]]
    body = max(7, 6 + (len(pdu) - 6) // 2)
    return pdu[:body], [pdu[body:body + 1], pdu[body + 1:body + 2]]


def stall(sock, pdu, cut, style, stop):
    """Write the incomplete PDU as the scenario says (nothing at all for a boundary stall)."""
    if cut == "boundary":
        return
    first, late = cut_bytes(pdu, cut)
    sock.sendall(first)
    if style == "dribble":
        def drip():
            for piece in late:
                if stop.wait(PIECE_GAP):
                    return
                try:
                    sock.sendall(piece)
                except OSError:
                    return
        threading.Thread(target=drip, daemon=True).start()


def flood(sock, stop):
    """Keep complete A-RELEASE-RP PDUs (ignored in Sta13) arriving, and drain what the node sends, until told to stop."""
    rp = A_RELEASE_RP().encode()

    def run():
        # one very long write: the kernel's buffers stay full for as long as the node keeps reading (about 20 000 PDUs/s),
        # so the node's receive side never runs dry, whatever the thread scheduling on this side
        sock.settimeout(BOUND + 3)
        try:
            # (every 50th PDU is of an unrecognised type: AA-7 in Sta13, the others AA-6 - neither may prolong the wait)
            sock.sendall((rp * 49 + b"\x09\x00\x00\x00\x00\x00") * 8000)
        except OSError:
            pass
    threading.Thread(target=run, daemon=True).start()


from common import REPO
CERTS = REPO + "/pynetdicom/tests/cert_files/"


def client_tls():
    import ssl
    c = ssl.create_default_context()
    c.check_hostname = False
    c.verify_mode = ssl.CERT_NONE
    return c


def run_acceptor_tls(case):
    """A silent client during the listener's TLS handshake: is a second, well-behaved client still served in time?"""
    import ssl
    ctx = ssl.create_default_context(ssl.Purpose.CLIENT_AUTH)
    ctx.load_cert_chain(CERTS + "server.crt", CERTS + "server.key")
    ae = AE("ACCEPTOR")
    ae.acse_timeout, ae.dimse_timeout, ae.network_timeout = ACSE, DIMSE, NETWORK
    ae.add_supported_context(VERIF_UID)
    server = ae.start_server(("127.0.0.1", 0), block=False, ssl_context=ctx)
    port = server.socket.getsockname()[1]
    silent = socket.create_connection(("127.0.0.1", port))
    try:
        time.sleep(BOUND)                       # every configured timeout has long expired
        ae2 = AE("SECOND")
        ae2.add_requested_context(VERIF_UID)
        ae2.acse_timeout, ae2.connection_timeout = 1.5, 1.5
        t0 = time.monotonic()
        box = {}

        def second():
            a = ae2.associate("127.0.0.1", port, tls_args=(client_tls(), None))
            box["ok"] = bool(a.is_established)
            if box["ok"]:
                a.release()
        th = threading.Thread(target=second, daemon=True)
        th.start()
        th.join(4.0)                            # (the second client itself must not be able to hang the lab)
        ok = bool(box.get("ok"))
        return {"returned": ok, "t_call": round(time.monotonic() - t0, 3), "alive": [] if ok else ["AssociationServer(accept loop)"], "sockopen": not ok, "aborted": False, "released": False,
                "established": False, "state": 1, "elapsed": round(BOUND, 3), "peer_saw": []}
    finally:
        silent.close()
        server.shutdown()


def store_rq_pdus():
    """[command-set PDU, data-set PDU] of a C-STORE-RQ on context 3 (CT, implicit VR)."""
    from io import BytesIO
    from pynetdicom.dimse_primitives import C_STORE
    from pynetdicom.dsutils import encode

    ds = ct_ds()
    p = C_STORE()
    p.MessageID, p.AffectedSOPClassUID, p.AffectedSOPInstanceUID, p.Priority = 1, CT, ds.SOPInstanceUID, 2
    p.DataSet = BytesIO(encode(ds, True, True))
    return p


def echo_rsp(msg_id=1):
    from pynetdicom.dimse_primitives import C_ECHO

    r = C_ECHO()
    r.MessageIDBeingRespondedTo, r.AffectedSOPClassUID, r.Status = msg_id, VERIF_UID, 0x0000
    return r


def threads_of(assoc):
    return [t for t in (assoc, assoc.dul) if t.is_alive()]


def view(assoc, t_call, returned):
    sock = getattr(assoc.dul, "socket", None)
    raw = getattr(sock, "socket", None) if sock is not None else None
    try:
        so = bool(raw is not None and raw.fileno() != -1)
    except Exception:  # noqa: BLE001
        so = False
    return {"returned": bool(returned), "t_call": round(t_call, 3), "alive": [type(t).__name__ for t in threads_of(assoc)], "sockopen": so,
            "aborted": bool(assoc.is_aborted), "released": bool(assoc.is_released), "established": bool(assoc.is_established),
            "state": int(assoc.dul.state_machine.current_state[3:])}


def run_acceptor(case):
    phase, cut, style = case["phase"], case["cut"], case["style"]
    if phase == "tls":
        return run_acceptor_tls(case)
    accs = []
    ae = AE("ACCEPTOR")
    ae.acse_timeout, ae.dimse_timeout, ae.network_timeout = ACSE, DIMSE, NETWORK
    ae.add_supported_context(VERIF_UID)
    ae.add_supported_context(CT)
    server = ae.start_server(("127.0.0.1", 0), block=False, evt_handlers=[(evt.EVT_CONN_OPEN, lambda e: accs.append(e.assoc)), (evt.EVT_C_STORE, lambda e: 0), (evt.EVT_C_ECHO, lambda e: 0)])
    port = server.socket.getsockname()[1]
    stop = threading.Event()
    peer = RawPeer(port, [(VERIF_UID, ["1.2.840.10008.1.2"]), (CT, ["1.2.840.10008.1.2"])])
    call = {"done": True, "t": 0.0}
    try:
        t0 = time.monotonic()
        if phase == "assoc_rq":
            stall(peer.sock, assoc_rq_bytes(port, peer.proposals), cut, style, stop)
        else:
            if peer.associate() != "assoc_ac":
                return {"harness_exc": "not accepted"}
            t1 = time.monotonic() + 1
            while (not accs or not accs[-1].is_established) and time.monotonic() < t1:
                time.sleep(0.002)
            t0 = time.monotonic()
            if phase == "idle":
                stall(peer.sock, peer.dimse_bytes(echo_rsp(), cx_id=1)[0], cut, style, stop)
            elif phase == "dataset":
                pdus = peer.dimse_bytes(store_rq_pdus(), cx_id=3)
                peer.sock.sendall(pdus[0])                       # the command set, announcing a data set
                stall(peer.sock, pdus[1], cut, style, stop)
            elif phase == "closing":
                # unexpected in Sta6: AA-8, A-ABORT sent, ARTIM started, Sta13; a flooding peer never lets the receive side run dry
                peer.sock.sendall(A_RELEASE_RP().encode() * (400 if style == "flood" else 1))
                if style == "flood":
                    flood(peer.sock, stop)
            elif phase == "release_rp":
                acc = accs[-1]
                call["done"] = False

                def user():
                    acc.release()
                    call["done"], call["t"] = True, time.monotonic() - t0
                threading.Thread(target=user, daemon=True).start()
                if peer.recv_pdu(1.0)[0] == "release_rq":
                    stall(peer.sock, A_RELEASE_RP().encode(), cut, style, stop)
        t1 = time.monotonic() + 1
        while not accs and time.monotonic() < t1:
            time.sleep(0.002)
        if not accs:
            return {"harness_exc": "no acceptor association"}
        acc = accs[-1]
        t1 = time.monotonic() + 1
        while not threads_of(acc) and time.monotonic() < t1 and acc.dul.state_machine.current_state == "Sta1" and not acc.is_aborted:
            time.sleep(0.002)                                   # (the association thread is started just after EVT_CONN_OPEN)
        while time.monotonic() - t0 < BOUND and (threads_of(acc) or not call["done"]):
            time.sleep(0.01)
        o = view(acc, call["t"], call["done"])
        o["elapsed"] = round(time.monotonic() - t0, 3)
        # did the peer see the local side end the association (A-ABORT or close)?
        seen = []
        stop.set()
        time.sleep(0.01)
        while True:
            k, _ = peer.recv_pdu(0.05)
            if k == "timeout":
                break
            seen.append(k)
            if k == "closed":
                break
        o["peer_saw"] = seen[-4:]
        return o
    finally:
        stop.set()
        peer.close()
        server.shutdown()


def run_requestor(case):
    phase, cut, style = case["phase"], case["cut"], case["style"]
    srv = socket.socket()
    srv.bind(("127.0.0.1", 0))
    srv.listen(1)
    port = srv.getsockname()[1]
    stop, ready = threading.Event(), threading.Event()
    conn = {}
    ac = pn.ac_pdu().encode()
    seen = []

    def peer():
        from neg_lab import recv_pdu
        try:
            c, _ = srv.accept()
            conn["c"] = c
            c.setsockopt(socket.IPPROTO_TCP, socket.TCP_NODELAY, 1)
            if phase == "tls":
                stop.wait(BOUND + CONNECT + 2)                      # accept the TCP connection and say nothing
                return
            recv_pdu(c, 3.0)                                    # the A-ASSOCIATE-RQ
            if phase == "assoc_ac":
                stall(c, ac, cut, style, stop)
            else:
                c.sendall(ac)
                ready.wait(3.0)
                if phase == "idle":
                    stall(c, RawPeer.dimse_bytes(None, echo_rsp(), cx_id=1)[0], cut, style, stop)
                elif phase == "closing":
                    c.sendall(A_RELEASE_RP().encode() * (400 if style == "flood" else 1))
                    if style == "flood":
                        flood(c, stop)
                        stop.wait(BOUND + 2)
                        return
                elif phase == "dimse_rsp":
                    b = recv_pdu(c, 2.0)                        # the C-ECHO-RQ
                    stall(c, RawPeer.dimse_bytes(None, echo_rsp(), cx_id=1)[0], cut, style, stop)
                elif phase == "release_rp":
                    b = recv_pdu(c, 2.0)                        # the A-RELEASE-RQ
                    stall(c, A_RELEASE_RP().encode(), cut, style, stop)
                elif phase == "release_collision":
                    b = recv_pdu(c, 2.0)                        # the A-RELEASE-RQ
                    c.sendall(b"\x05\x00\x00\x00\x00\x04\x00\x00\x00\x00")   # our own A-RELEASE-RQ instead of the answer
                    b = recv_pdu(c, 2.0)                        # the node's A-RELEASE-RP; from here on: silence
                    seen.append({6: "release_rp", 7: "abort"}.get(b[0], str(b[0])) if b else "nothing")
            # keep reading what the node sends (A-ABORT, close) without ever closing ourselves
            while not stop.is_set():
                b = recv_pdu(c, 0.1)
                if b == b"":
                    seen.append("closed")
                    break
                if b:
                    seen.append({5: "release_rq", 7: "abort", 4: "pdata"}.get(b[0], str(b[0])))
        except OSError:
            pass

    threading.Thread(target=peer, daemon=True).start()
    ae = AE("REQUESTOR")
    ae.acse_timeout, ae.dimse_timeout, ae.network_timeout, ae.connection_timeout = ACSE, DIMSE, NETWORK, CONNECT
    ae.add_requested_context(VERIF_UID)
    call = {"done": False, "t": 0.0, "assoc": None}
    t0 = time.monotonic()

    def user():
        try:
            a = ae.associate("127.0.0.1", port, tls_args=(client_tls(), None)) if phase == "tls" else ae.associate("127.0.0.1", port)
            call["assoc"] = a
            if phase != "assoc_ac" and a.is_established:
                ready.set()
                if phase == "dimse_rsp":
                    a.send_c_echo()
                elif phase in ("release_rp", "release_collision"):
                    a.release()
                elif phase == "idle":
                    pass
        except Exception as e:  # noqa: BLE001
            call["exc"] = f"{type(e).__name__}: {e}"
        call["done"], call["t"] = True, time.monotonic() - t0

    ut = threading.Thread(target=user, daemon=True)
    ut.start()
    try:
        def assoc():
            if call["assoc"] is not None:
                return call["assoc"]
            for t in threading.enumerate():
                if type(t).__name__ == "Association" and getattr(t, "ae", None) is ae:
                    return t
                if type(t).__name__ == "DULServiceProvider" and getattr(getattr(t, "assoc", None), "ae", None) is ae:
                    return t.assoc        # (during negotiation the requestor's association thread has not been started yet)
            return None

        while time.monotonic() - t0 < BOUND + (CONNECT if phase in ("assoc_ac", "tls") else 0):
            a = assoc()
            if call["done"] and a is not None and not threads_of(a):
                break
            time.sleep(0.01)
        a = assoc()
        if a is None:
            return {"harness_exc": "no requestor association object"}
        o = view(a, call["t"], call["done"])
        o["elapsed"] = round(time.monotonic() - t0, 3)
        time.sleep(0.15)
        o["peer_saw"] = seen[-4:]
        if "exc" in call:
            o["call_exc"] = call["exc"]
        return o
    finally:
        stop.set()
        try:
            conn.get("c") and conn["c"].close()
        except OSError:
            pass
        srv.close()


def run_case(case):
    o = (run_acceptor if case["role"] == "acceptor" else run_requestor)(case)
    o.update(role=case["role"], phase=case["phase"], cut=case["cut"], style=case["style"], bound=BOUND)
    return o
