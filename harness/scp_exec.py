"""Execute one handler script (a behaviour of spec/Scp.tla) against the real pynetdicom service classes.

The request goes through the real Association._serve_request; the handler is bound with the public
bind() API and behaves exactly as the script says; responses are captured at dimse.send_msg; C-STORE
sub-operations of C-GET are answered by injecting real C-STORE response primitives; the C-MOVE
destination association is a stub (its send_c_store returns the scripted sub-operation status).

Returns an observation: the response history with, per response, the handler step that was the
latest one pulled, counters, the data set verdict, optional status elements, message id, context.
"""
from __future__ import annotations

from io import BytesIO

import pn  # noqa: F401
from pydicom.dataset import Dataset
from pynetdicom import evt
from pynetdicom.dsutils import decode, encode
from pynetdicom.dimse_primitives import (C_ECHO, C_STORE, N_ACTION, N_CREATE, N_DELETE, N_EVENT_REPORT, N_GET, N_SET)

from scp_rig import (CT_STORAGE, PATIENT_ROOT_FIND, PATIENT_ROOT_GET, PATIENT_ROOT_MOVE, REPOSITORY_QUERY, ScpRig,
                     ct_dataset, echo_rq, find_rq, get_rq, move_rq, store_rsp)

IMPL = "1.2.840.10008.1.2"
ST = {"S0": 0x0000, "P0": 0xFF00, "P1": 0xFF01, "WL": 0xB001, "WS": 0xB000, "WG": 0x0107, "FA": 0xA700, "CA": 0xFE00, "UNK": 0x0FFF}
SUB_STATUS = {"S": 0x0000, "W": 0xB000, "F": 0xA700, "X": 0x0FFF}
MPPS, MPPS_GET, MPPS_EVT, STORAGE_COMMIT, FILM_SESSION = ("1.2.840.10008.3.1.2.3.3", "1.2.840.10008.3.1.2.3.4",
                                                           "1.2.840.10008.3.1.2.3.5", "1.2.840.10008.1.20.1", "1.2.840.10008.5.1.1.1")
MSG_ID = 77
CTX = 5


def _default_exc():
    return RuntimeError("scripted handler exception")


# what a scripted "raise" step raises (C26 varies it: OSError subclasses, exceptions without arguments, ...)
RAISE_WHAT = _default_exc


def status_value(cls: str):
    if cls in ST:
        return ST[cls]
    ds = Dataset()
    if cls == "DSP":
        ds.Status = 0xFF00
        # a status data set may hold command elements that are not status elements (e.g. one built from a copy of a command
        # set): they are not the handler's to set - the response still answers THIS request
        ds.MessageIDBeingRespondedTo = 4242
    elif cls == "DSF":
        ds.Status = 0xA700
        ds.ErrorComment = "ec"
        ds.MessageIDBeingRespondedTo = 4242
    elif cls == "DSNO":
        ds.PatientID = "nostatus"
    elif cls == "BAD":
        return "not-a-status"
    elif cls == "OOR":
        return 0x10000
    elif cls == "NOPAIR":
        return 0xFF00
    return ds


def ds_value(cls: str, svc: str, k: int):
    if cls == "none":
        return None
    if cls == "obj":
        return "not-a-dataset"
    if svc in ("GET", "MOVE"):
        ds = ct_dataset(f"1.2.3.{k}")
    else:
        ds = Dataset()
        ds.QueryRetrieveLevel = "PATIENT"
        ds.PatientID = f"P{k}"
    if cls == "unenc":
        import warnings
        with warnings.catch_warnings():
            warnings.simplefilter("ignore")
            ds.add_new(0x00280010, "US", 70000)  # Rows out of range for US: cannot be encoded
    return ds


class StubStoreAssoc:
    """Stands in for the association to the C-MOVE destination."""

    def __init__(self, established, owner):
        self.is_established = established
        self.owner = owner
        self.released = 0

        class _S:
            def close(self_inner):
                pass

        class _D:
            socket = _S()

        self.dul = _D()

    def send_c_store(self, dataset, msg_id=1, **kw):
        self.owner.stores.append(dataset)
        sub = self.owner.sub_for(dataset)
        st = Dataset()
        st.Status = SUB_STATUS[sub]
        return st

    def release(self):
        self.released += 1
        self.is_established = False


class Run:
    def __init__(self, svc: str, script: list[dict]):
        self.svc, self.script = svc, script
        self.pulled = 0
        self.events = []
        self.stores = []
        self.handler_ds = {}
        self.sub_by_uid = {}
        self.exc = None
        self.handler_aborted = False

    def sub_for(self, dataset):
        return self.sub_by_uid.get(str(getattr(dataset, "SOPInstanceUID", "")), "S")

    # ---- handlers ---------------------------------------------------------------------------
    def gen_handler(self, event):
        for idx, s in enumerate(self.script, 1):
            self.pulled = idx
            k = s["k"]
            if k == "end":
                return
            if k == "raise":
                raise RAISE_WHAT()
            if k == "abort":
                self.handler_aborted = True
                event.assoc.abort()
                continue
            if k == "dest":
                v = {"ok": ("127.0.0.1", 11112), "refused": ("127.0.0.1", 11113), "unknown": (None, None), "bad": 12345}[s["st"]]
                yield v
                continue
            if k == "count":
                yield {"n0": 0, "n1": 1, "n2": 2, "n3": 3, "nbad": "x", "nbig": 70000}[s["st"]]
                continue
            ds = ds_value(s["ds"], self.svc, idx)
            self.handler_ds[idx] = ds
            if isinstance(ds, Dataset) and "SOPInstanceUID" in ds:
                self.sub_by_uid[str(ds.SOPInstanceUID)] = s["sub"]
            if s["st"] == "NOPAIR":
                yield status_value("NOPAIR")
                continue
            yield status_value(s["st"]), ds
        self.pulled = len(self.script) + 1

    def ret_handler(self, event):
        s = self.script[0]
        self.pulled = 1
        if s["k"] == "raise":
            raise RAISE_WHAT()
        if s["k"] == "abort":
            self.handler_aborted = True
            event.assoc.abort()
            return 0x0000 if self.svc in ("ECHO", "STORE", "SUBSTORE", "NDELETE") else (0x0000, None)
        ds = ds_value(s["ds"], self.svc, 1)
        self.handler_ds[1] = ds
        if self.svc in ("ECHO", "STORE", "SUBSTORE", "NDELETE") or s["st"] == "NOPAIR":
            return status_value(s["st"])
        return status_value(s["st"]), ds


def _request(svc):
    if svc in ("FIND", "FINDREPO"):
        return find_rq(MSG_ID, REPOSITORY_QUERY if svc == "FINDREPO" else FIND_SOP_OVERRIDE or PATIENT_ROOT_FIND), evt.EVT_C_FIND
    if svc == "GET":
        return get_rq(MSG_ID), evt.EVT_C_GET
    if svc == "MOVE":
        return move_rq(MSG_ID), evt.EVT_C_MOVE
    if svc == "ECHO":
        return echo_rq(MSG_ID), evt.EVT_C_ECHO
    if svc in ("STORE", "SUBSTORE"):
        r = C_STORE()
        r.MessageID = MSG_ID
        r.AffectedSOPClassUID = CT_STORAGE
        r.AffectedSOPInstanceUID = "1.2.3.99"
        r.Priority = 2
        r.DataSet = BytesIO(encode(ct_dataset("1.2.3.99"), True, True))
        return r, evt.EVT_C_STORE
    if svc == "NGET":
        r = N_GET()
        r.MessageID, r.RequestedSOPClassUID, r.RequestedSOPInstanceUID = MSG_ID, MPPS_GET, "1.2.3.4"
        return r, evt.EVT_N_GET
    if svc == "NSET":
        r = N_SET()
        r.MessageID, r.RequestedSOPClassUID, r.RequestedSOPInstanceUID = MSG_ID, MPPS, "1.2.3.4"
        r.ModificationList = BytesIO(encode(ds_value("ds", "NSET", 0), True, True))
        return r, evt.EVT_N_SET
    if svc == "NACTION":
        r = N_ACTION()
        r.MessageID, r.RequestedSOPClassUID, r.RequestedSOPInstanceUID, r.ActionTypeID = MSG_ID, STORAGE_COMMIT, "1.2.3.4", 1
        return r, evt.EVT_N_ACTION
    if svc == "NCREATE":
        r = N_CREATE()
        r.MessageID, r.AffectedSOPClassUID, r.AffectedSOPInstanceUID = MSG_ID, MPPS, "1.2.3.4"
        return r, evt.EVT_N_CREATE
    if svc == "NCREATE0":      # the request leaves the instance UID to the SCP
        r = N_CREATE()
        r.MessageID, r.AffectedSOPClassUID = MSG_ID, MPPS
        return r, evt.EVT_N_CREATE
    if svc == "NDELETE":
        r = N_DELETE()
        r.MessageID, r.RequestedSOPClassUID, r.RequestedSOPInstanceUID = MSG_ID, FILM_SESSION, "1.2.3.4"
        return r, evt.EVT_N_DELETE
    if svc == "NEVENT":
        r = N_EVENT_REPORT()
        r.MessageID, r.AffectedSOPClassUID, r.AffectedSOPInstanceUID, r.EventTypeID = MSG_ID, MPPS_EVT, "1.2.3.4", 1
        return r, evt.EVT_N_EVENT_REPORT
    raise ValueError(svc)


DS_ATTR = {"FIND": "Identifier", "FINDREPO": "Identifier", "GET": "Identifier", "MOVE": "Identifier", "NGET": "AttributeList",
           "NSET": "AttributeList", "NACTION": "ActionReply", "NCREATE": "AttributeList", "NCREATE0": "AttributeList", "NEVENT": "EventReply"}


# C-FIND is served by several service classes with SCP implementations of their own; for scripts with at most one result the
# Relevant Patient Information Query SCP ("at most one match") must behave like the shared one - set by the caller around execute()
FIND_SOP_OVERRIDE = None
RELEVANT_PATIENT_GENERAL = "1.2.840.10008.5.1.4.37.1"

# the request's Message ID: an ordinary value and the ends of the legal range (a US element: 0 and 65535 are legal), in turn
_MSG_IDS = (77, 0, 65535)
_mid_turn = [0]


def execute(svc: str, script: list[dict], ts=IMPL, keep_rig=False) -> dict:
    global MSG_ID
    _mid_turn[0] += 1
    MSG_ID = _MSG_IDS[_mid_turn[0] % len(_MSG_IDS)]
    run = Run(svc, script)
    req, event = _request(svc)
    sop = getattr(req, "AffectedSOPClassUID", None) or getattr(req, "RequestedSOPClassUID", None)
    contexts = [(CTX, sop, ts, False, True), (9, CT_STORAGE, ts, True, False)]
    if svc == "SUBSTORE":
        # the storage SCP a C-GET/C-MOVE requestor runs for sub-operations on the same association:
        # two accepted contexts for the same SOP class, the request arrives on the higher one
        contexts = [(3, sop, "1.2.840.10008.1.2.1", False, True), (CTX, sop, ts, False, True)]
    gen = svc in ("FIND", "FINDREPO", "GET", "MOVE")
    rig = ScpRig(contexts, handlers=[(event, run.gen_handler if gen else run.ret_handler)])
    a = rig.assoc
    out = []
    from pydicom.uid import UID
    tsu = UID(ts)

    def on_send(primitive, cid):
        if isinstance(primitive, C_STORE) and primitive.MessageIDBeingRespondedTo is None:
            # a C-GET sub-operation request: answer it as the scripted peer would
            ds = decode(BytesIO(primitive.DataSet.getvalue()), tsu.is_implicit_VR, tsu.is_little_endian, tsu.is_deflated)
            run.stores.append(ds)
            sub = run.sub_for(ds)
            rig.inject(store_rsp(SUB_STATUS[sub], primitive.MessageID, primitive.AffectedSOPClassUID, primitive.AffectedSOPInstanceUID), cid)
            return
        snap = rig.sent[-1][0]
        attr = DS_ATTR.get(svc)
        raw = getattr(snap, attr, None) if attr else None
        dsv, failed = "none", []
        if raw:
            try:
                got = decode(BytesIO(raw), tsu.is_implicit_VR, tsu.is_little_endian, tsu.is_deflated)
            except Exception:  # noqa: BLE001
                got = None
            want = run.handler_ds.get(run.pulled)
            if got is not None and "FailedSOPInstanceUIDList" in got and svc in ("GET", "MOVE"):
                dsv = "failedlist"
                v = got.FailedSOPInstanceUIDList
                failed = [str(x) for x in (v if not isinstance(v, str) else [v])] if v else []
            elif got is not None and isinstance(want, Dataset) and got == decode(BytesIO(encode(want, tsu.is_implicit_VR, tsu.is_little_endian, tsu.is_deflated)), tsu.is_implicit_VR, tsu.is_little_endian, tsu.is_deflated):
                dsv = "same"
            else:
                dsv = "diff"
        cn = lambda n: -1 if getattr(snap, n, None) is None else int(getattr(snap, n))  # noqa: E731
        out.append({
            "st": int(snap.Status) if getattr(snap, "Status", None) is not None else -1,
            "step": run.pulled, "ds": dsv, "failedlist": [f for f in failed if f],
            "rem": cn("NumberOfRemainingSuboperations"), "comp": cn("NumberOfCompletedSuboperations"),
            "fail": cn("NumberOfFailedSuboperations"), "warn": cn("NumberOfWarningSuboperations"),
            "opt": getattr(snap, "ErrorComment", None) == "ec",
            "mid": -1 if snap.MessageIDBeingRespondedTo is None else int(snap.MessageIDBeingRespondedTo),
            "ctx": cid, "kind": snap.kind,
        })

    rig.on_send = on_send
    if svc == "MOVE":
        dest = next((s["st"] for s in script if s["k"] == "dest"), "ok")
        rig.ae.associate = lambda addr, port, **kw: StubStoreAssoc(dest != "refused", run)
    exc = None
    try:
        if svc == "SUBSTORE":
            req._context_id = CTX
            a._c_store_scp(req)
        else:
            rig.serve(req, CTX)
    except BaseException as e:  # noqa: BLE001
        exc = f"{type(e).__name__}: {e}"
    # "aborted": the handler itself aborted/released; "selfabort": pynetdicom aborted on its own
    fin = "aborted" if run.handler_aborted else "selfabort" if (a.is_aborted or a.is_released or rig.aborts or rig.released) else "escaped" if exc else "final"
    res = {"rig": rig} if keep_rig else {}
    return res | {"svc": svc, "script": script, "rsp": out, "fin": fin, "exc": exc or "", "mid": MSG_ID, "ctx": CTX,
            "stores": [str(getattr(d, "SOPInstanceUID", "")) for d in run.stores],
            "stores_same": all(_same_store(d, run) for d in run.stores),
            "failed_expected": sorted(u for u, s in run.sub_by_uid.items() if s in ("F", "X") and u in {str(getattr(d, "SOPInstanceUID", "")) for d in run.stores}),
            "pulled": run.pulled}


def _same_store(d, run):
    uid = str(getattr(d, "SOPInstanceUID", ""))
    for ds in run.handler_ds.values():
        if isinstance(ds, Dataset) and str(getattr(ds, "SOPInstanceUID", "")) == uid:
            a = Dataset(ds)
            b = Dataset(d)
            for x in (a, b):
                if hasattr(x, "file_meta"):
                    del x.file_meta
            return a == b
    return False
