"""A real requestor-side Association with the transport cut off at the DIMSE boundary.

Used to drive the public send_* API (SCU side) deterministically: outgoing DIMSE messages are
captured at dimse.send_msg / dul.send_pdu, peer responses are injected into dimse.msg_queue as the
real primitives the DIMSE provider would have produced.  No threads, no sockets.
"""
from __future__ import annotations

import queue
from io import BytesIO

import pn  # noqa: F401
from pydicom.dataset import Dataset
from pydicom.uid import UID
from pynetdicom import AE, build_context
from pynetdicom.dsutils import encode
from pynetdicom.dimse_primitives import C_FIND, C_GET, C_MOVE, C_STORE, C_ECHO

PATIENT_ROOT_FIND = "1.2.840.10008.5.1.4.1.2.1.1"
PATIENT_ROOT_MOVE = "1.2.840.10008.5.1.4.1.2.1.2"
PATIENT_ROOT_GET = "1.2.840.10008.5.1.4.1.2.1.3"
REPOSITORY_QUERY = "1.2.840.10008.5.1.4.1.1.201.6"
CT_STORAGE = "1.2.840.10008.5.1.4.1.1.2"


class Snap:
    """Value snapshot of a DIMSE primitive at the moment it was handed to dimse.send_msg (the
    service classes reuse and mutate one response object)."""

    def __init__(self, p):
        self.kind = type(p).__name__
        self.is_request = p.MessageIDBeingRespondedTo is None if hasattr(p, "MessageIDBeingRespondedTo") else True
        for name in dir(p):
            if name.startswith("_") or name in ("STATUS_OPTIONAL_KEYWORDS", "REQUEST_KEYWORDS", "RESPONSE_KEYWORDS"):
                continue
            try:
                v = getattr(p, name)
            except Exception:  # noqa: BLE001
                continue
            if callable(v):
                continue
            if hasattr(v, "getvalue"):
                v = v.getvalue()
            setattr(self, name, v)

    def __repr__(self):
        return f"<{self.kind} status={getattr(self, 'Status', None)}>"


def snapshot(p):
    return Snap(p)


class WireTap:
    """Cut the transport at dul.send_pdu: the real dimse.send_msg (primitive -> message -> encoded,
    fragmented P-DATA) runs, the P-DATA primitives are collected and re-assembled with the real
    DIMSEMessage decoder exactly as the peer's DIMSE provider would, and the primitive the peer
    would have received is returned.  Exceptions of the real send path propagate as in production."""

    def __init__(self, assoc):
        self.assoc = assoc
        self.real_send = assoc.dimse.send_msg
        self.pdus = []
        self.log = []          # one record per message: dict(primitive, context_id, pdv=[(ctx, header, len)], undelivered)
        assoc.dul.send_pdu = self.pdus.append

    def send(self, primitive, context_id):
        from pynetdicom.dimse_messages import DIMSEMessage

        del self.pdus[:]
        self.real_send(primitive, context_id)
        return self.collect(context_id)

    def collect(self, context_id):
        """What the peer's DIMSE provider makes of the P-DATA handed to the DUL so far (also after send_msg raised)."""
        from pynetdicom.dimse_messages import DIMSEMessage

        msg = DIMSEMessage()
        done, pdv = False, []
        for p in list(self.pdus):
            for cid, data in p.presentation_data_value_list:
                pdv.append((cid, data[0], len(data) - 1))
            if msg.decode_msg(p, self.assoc):
                done = True
        got = msg.message_to_primitive() if done else None
        rec = {"primitive": got, "context_id": context_id, "pdv": pdv, "delivered": done,
               "cdst": int(msg.command_set.CommandDataSetType) if done and "CommandDataSetType" in msg.command_set else None}
        self.log.append(rec)
        return rec


class ScuRig:
    def __init__(self, contexts, mode="requestor", dimse_timeout=0.05):
        """contexts: list of (context_id, abstract, transfer syntax, as_scu, as_scp)"""
        self.ae = AE()
        a = pn.new_assoc(mode, self.ae)
        self.assoc = a
        acc = {}
        for cid, ab, ts, scu, scp in contexts:
            cx = build_context(ab, ts)
            cx.context_id = cid
            cx.result = 0
            cx._as_scu = scu
            cx._as_scp = scp
            acc[cid] = cx
        a._accepted_cx = acc
        a.is_established = True
        a._is_paused = True
        a.dimse_timeout = dimse_timeout
        a.acceptor.maximum_length = 16382
        a.requestor.maximum_length = 16382
        self.sent = []          # (primitive, context_id)
        self.pdata = []
        self.aborts = 0
        self.lock_held_at_yield = []
        self.tap = WireTap(a)
        a.dimse.send_msg = self._send_msg
        a.abort = self._abort
        a._abort_blocking = self._abort
        a._abort_nonblocking = self._abort

    def _send_msg(self, primitive, context_id):
        rec = self.tap.send(primitive, context_id)
        self.sent.append((snapshot(rec["primitive"] if rec["primitive"] is not None else primitive), context_id))

    def _abort(self, *a, **k):
        self.aborts += 1
        self.assoc.is_aborted = True
        self.assoc.is_established = False

    def inject(self, primitive, context_id=1):
        self.assoc.dimse.msg_queue.put((context_id, primitive))

    def inject_none(self):
        self.assoc.dimse.msg_queue.put((None, None))


def find_rsp(status, msg_id=1, identifier=None, sop_class=PATIENT_ROOT_FIND):
    r = C_FIND()
    r.MessageIDBeingRespondedTo = msg_id
    r.AffectedSOPClassUID = sop_class
    r.Status = status
    if identifier is not None:
        r.Identifier = BytesIO(identifier)
    return r


def get_rsp(status, msg_id=1, identifier=None, sop_class=PATIENT_ROOT_GET, counts=None):
    r = C_GET()
    r.MessageIDBeingRespondedTo = msg_id
    r.AffectedSOPClassUID = sop_class
    r.Status = status
    if counts:
        (r.NumberOfRemainingSuboperations, r.NumberOfCompletedSuboperations,
         r.NumberOfFailedSuboperations, r.NumberOfWarningSuboperations) = counts
    if identifier is not None:
        r.Identifier = BytesIO(identifier)
    return r


def move_rsp(status, msg_id=1, identifier=None, sop_class=PATIENT_ROOT_MOVE, counts=None):
    r = C_MOVE()
    r.MessageIDBeingRespondedTo = msg_id
    r.AffectedSOPClassUID = sop_class
    r.Status = status
    if counts:
        (r.NumberOfRemainingSuboperations, r.NumberOfCompletedSuboperations,
         r.NumberOfFailedSuboperations, r.NumberOfWarningSuboperations) = counts
    if identifier is not None:
        r.Identifier = BytesIO(identifier)
    return r


def ident_bytes(ts_implicit=True, little=True, **kw) -> bytes:
    ds = Dataset()
    ds.QueryRetrieveLevel = "PATIENT"
    ds.PatientID = kw.get("pid", "1234")
    return encode(ds, ts_implicit, little)
