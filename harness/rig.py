"""One real pynetdicom node (Association + DUL provider + user threads) under the step controller.

The node talks to a FakeSocket; the driver plays the peer (adversarial frames or the other node of
a pair).  `project()` maps the implementation state to the record spec/Assoc.tla uses.
"""
from __future__ import annotations

import threading
import time as _time
from copy import deepcopy

import pn
from common import MachineryError
from fakes import FakeSocket, VirtualClock
from sched import Controller, GatedEvent, GatedQueue, GatedTime, GatedTimer

import pynetdicom.association as _assoc_mod
import pynetdicom.dul as _dul_mod
import pynetdicom.events as _evt_mod
import pynetdicom.timer as _timer_mod
from pynetdicom import _verif, evt
from pynetdicom.pdu_primitives import A_ABORT, A_ASSOCIATE, A_P_ABORT, A_RELEASE, P_DATA
from pynetdicom.transport import T_CONNECT
from pynetdicom.dimse_primitives import C_ECHO
from pynetdicom.sop_class import Verification

_install_lock = threading.Lock()


class FakeServer:
    def __init__(self):
        self.shutdowns = 0

    def shutdown_request(self, sock):
        self.shutdowns += 1
        self.rig.sock._shutdown_socket()


import functools


@functools.lru_cache(maxsize=None)
def echo_rq_bytes(msg_id=1, ctx=1) -> bytes:
    from pynetdicom.dimse_messages import C_ECHO_RQ
    from pynetdicom.pdu import P_DATA_TF

    p = C_ECHO()
    p.MessageID = msg_id
    p.AffectedSOPClassUID = Verification
    m = C_ECHO_RQ()
    m.primitive_to_message(p)
    m.context_id = ctx
    out = b""
    for pd in m.encode_msg(ctx, 16382):
        out += P_DATA_TF(pd).encode()
    return out


@functools.lru_cache(maxsize=None)
def echo_rsp_bytes(msg_id=1, ctx=1) -> bytes:
    from pynetdicom.dimse_messages import C_ECHO_RSP
    from pynetdicom.pdu import P_DATA_TF

    p = C_ECHO()
    p.MessageIDBeingRespondedTo = msg_id
    p.AffectedSOPClassUID = Verification
    p.Status = 0
    m = C_ECHO_RSP()
    m.primitive_to_message(p)
    m.context_id = ctx
    out = b""
    for pd in m.encode_msg(ctx, 16382):
        out += P_DATA_TF(pd).encode()
    return out


@functools.lru_cache(maxsize=None)
def bad_msg_bytes(ctx=1) -> bytes:
    """A complete command set that decodes as a data set but is no DIMSE message (-> Evt19)."""
    from pydicom.dataset import Dataset
    from pynetdicom.dsutils import encode
    from pynetdicom.pdu import P_DATA_TF

    ds = Dataset()
    ds.CommandGroupLength = 0
    ds.CommandField = 0x7777
    ds.CommandDataSetType = 0x0101
    b = encode(ds, True, True)
    prim = P_DATA()
    prim.presentation_data_value_list = [[ctx, b"\x03" + b]]
    return P_DATA_TF(prim).encode()


def frame_bytes(kind: str) -> bytes:
    if kind == "RQ":
        return pn.rq_pdu(1).encode()
    if kind == "RQBADPV":
        return pn.rq_pdu(2).encode()
    if kind == "AC":
        return pn.ac_pdu().encode()
    if kind == "RJ":
        return pn.rj_pdu().encode()
    if kind == "PD_REQ":
        return echo_rq_bytes()
    if kind == "PD_RSP":
        return echo_rsp_bytes()
    if kind == "PD_BADMSG":
        return bad_msg_bytes()
    if kind == "PD_FRAG":
        prim = P_DATA()
        prim.presentation_data_value_list = [[1, b"\x01\x00\x00"]]
        return pn.P_DATA_TF(prim).encode()
    if kind == "RELRQ":
        return pn.A_RELEASE_RQ().encode()
    if kind == "RELRP":
        return pn.A_RELEASE_RP().encode()
    if kind == "ABORT0":
        return pn.abort_pdu(0, 0).encode()
    if kind == "ABORT2":
        return pn.abort_pdu(2, 0).encode()
    if kind == "BADTYPE":
        # the model's "PDU that must be classified invalid" (Evt19): representatives taken in turn - an unknown PDU type, and
        # well-framed PDUs of known types whose fields hold reserved values (they cannot be converted to a primitive)
        global _bad_turn
        _bad_turn += 1
        return INVALID_PDUS[_bad_turn % len(INVALID_PDUS)]
    if kind == "UNDEC":
        return b"\x02\x00\x00\x00\x00\x04\xff\xff\xff\xff"
    raise MachineryError(f"unknown frame kind {kind}")


INVALID_PDUS = (b"\x09\x00\x00\x00\x00\x00", bytes.fromhex("07000000000400000203"), bytes.fromhex("07000000000400000300"),
                bytes.fromhex("03000000000400030101"))
_bad_turn = -1


def classify_pdu_bytes(b: bytes) -> str:
    if bytes(b) in INVALID_PDUS:
        return "BADTYPE"
    t = b[0]
    if t == 1:
        return "RQ" if b[7] & 1 and b[6] == 0 and b[7] == 1 else "RQBADPV"
    if t == 2:
        return "AC"
    if t == 3:
        return "RJ"
    if t == 4:
        if b == bad_msg_bytes():
            return "PD_BADMSG"
        if b == echo_rq_bytes():
            return "PD_REQ"
        if b == echo_rsp_bytes():
            return "PD_RSP"
        # classify by command field of a complete single-PDV command
        try:
            cf = b[12 + b[12:].index(b"\x00\x00\x00\x01\x02\x00\x00\x00") + 8: ][:2]
            v = int.from_bytes(cf, "little")
            return "PD_RSP" if v & 0x8000 else "PD_REQ"
        except Exception:
            return "PD_OTHER"
    if t == 5:
        return "RELRQ"
    if t == 6:
        return "RELRP"
    if t == 7:
        return "ABORT0" if b[8] == 0 else "ABORT2"
    return "BADTYPE"


TERMINAL = {"EVT_RELEASED": "RELEASED", "EVT_ABORTED": "ABORTED", "EVT_REJECTED": "REJECTED",
            "EVT_ACCEPTED": "ACCEPTED", "EVT_ESTABLISHED": "ESTABLISHED", "EVT_REQUESTED": "REQUESTED"}


class Rig:
    """A real node in step mode."""

    def __init__(self, role: str, policy: str = "accept", boundary=None, gate_idle: bool = True):
        self.role = role
        self.policy = policy
        self.ctl = Controller()
        self.clock = VirtualClock()
        self.crash = None
        self.fired: list[str] = []
        self.events: list = []
        self.user_threads: list[threading.Thread] = []
        self.user_exc = None
        self._installed = False
        self._install()
        ae = pn.AE()
        ae.add_supported_context(Verification)
        ae.add_requested_context(Verification)
        ae.acse_timeout = 30
        ae.dimse_timeout = 30
        ae.network_timeout = 60
        if policy == "reject":
            ae.require_called_aet = True
            ae.ae_title = "SOMEONE_ELSE"
        self.ae = ae
        assoc = pn.new_assoc(role, ae)
        self.assoc = assoc
        if role == "acceptor":
            assoc.acceptor.ae_title = ae.ae_title
            assoc.acceptor.supported_contexts = deepcopy(ae.supported_contexts)
            assoc.acceptor.maximum_length = 16382
            assoc.acceptor.implementation_class_uid = ae.implementation_class_uid
            assoc.acceptor.implementation_version_name = ae.implementation_version_name
            self.server = FakeServer()
            self.server.rig = self
            assoc._server = self.server
        else:
            cxs = []
            for i, cx in enumerate(ae.requested_contexts):
                cx.context_id = 2 * i + 1
                cxs.append(cx)
            assoc.requestor.requested_contexts = cxs
            assoc.requestor.maximum_length = 16382
            assoc.acceptor.ae_title = "CALLED"
        # gates
        dul = assoc.dul
        dul.to_user_queue = GatedQueue(self.ctl, "userq")
        assoc.dimse.msg_queue = GatedQueue(self.ctl, "msgq")
        assoc._reactor_checkpoint = GatedEvent(self.ctl, "ckpt", initially=True)
        if gate_idle:
            dul._idle_timer = GatedTimer(self.ctl, "idle", 60)
        self.sock = FakeSocket(assoc)
        self.sock._ready = GatedEvent(self.ctl, "conn")
        if role == "acceptor":
            dul.event_queue.put("Evt5")
        else:
            self.sock._is_connected = False
            self.sock.connect = self._connect
            self.connect_ok = True
        dul.socket = self.sock
        self.ctl.register("dul", dul)
        self.ctl.register("assoc", assoc)
        self.ctl.register("user", None)
        self.ctl.boundary = boundary or default_boundary
        # scripted C-ECHO handler: may abort the association from inside the handler
        self.next_handler_abort = False
        self.handler_calls = 0

        def on_echo(event):
            self.handler_calls += 1
            if self.next_handler_abort:
                event.assoc.abort()
            return 0x0000

        assoc.bind(evt.EVT_C_ECHO, on_echo)

    # -- module-level substitutions (one rig at a time) ---------------------------
    def _install(self):
        _install_lock.acquire()
        self._old = (_assoc_mod.time, _dul_mod.time, _timer_mod.time, _evt_mod.trigger, threading.excepthook)
        _assoc_mod.time = GatedTime(self.ctl, _time, self.clock)
        _dul_mod.time = GatedTime(self.ctl, _time, self.clock)
        _timer_mod.time = self.clock
        orig = _evt_mod.trigger

        def trig(assoc, event, attrs=None):
            if assoc is self.assoc:
                self.events.append(event.name)
                if event.name in TERMINAL:
                    self.fired.append(TERMINAL[event.name])
            return orig(assoc, event, attrs)

        _evt_mod.trigger = trig
        evt.trigger = trig

        def hook(args):
            if args.thread is self.assoc.dul:
                self.crash = (args.exc_type.__name__, str(args.exc_value))
            else:
                self.user_exc = (args.exc_type.__name__, str(args.exc_value), getattr(args.thread, "name", "?"))

        threading.excepthook = hook
        _verif.ENABLED = True
        _verif.install(lambda name, obj=None, **kw: self.ctl.gate(name, None) if obj is self.assoc.dul else None)
        self._installed = True

    def close(self):
        if not self._installed:
            return
        self._installed = False
        self.ctl.release_all()
        try:
            self.assoc._kill = True
            self.assoc.dul._kill_thread = True
            self.assoc._reactor_checkpoint.set()
            self.sock.eof = True
            for q in (self.assoc.dul.to_user_queue, self.assoc.dimse.msg_queue):
                pass
            for th in [self.assoc.dul, self.assoc] + self.user_threads:
                if th.ident is not None:
                    th.join(1.0)
        finally:
            _verif.install(None)
            _assoc_mod.time, _dul_mod.time, _timer_mod.time, trig, hook = self._old
            _evt_mod.trigger = trig
            evt.trigger = trig
            threading.excepthook = hook
            _install_lock.release()

    # -- transport as seen by AE-1 -------------------------------------------------
    def _connect(self, primitive: T_CONNECT):
        s = self.sock
        if self.connect_ok:
            s._is_connected = True
            _evt_mod.trigger(self.assoc, evt.EVT_CONN_OPEN, {"address": ("127.0.0.1", 11113)})
            primitive.result = "Evt2"
        else:
            s._shutdown_socket()
            s.socket = None
            primitive.result = "Evt17"
        self.assoc.dul.to_provider_queue.put(primitive)
        s._ready.set()

    # -- orchestration helpers -------------------------------------------------------
    def start_assoc_thread(self):
        """Acceptor: Association.start(); returns when both threads are parked."""
        self.assoc.start()
        self.ctl.wait_parked("dul")
        return self.ctl.wait_parked("assoc")

    def user_call(self, fn, name="user"):
        """Run fn() in a managed user thread until it parks or returns."""
        def body():
            self.ctl.bind_current("user")
            try:
                self.user_result = fn()
            except Exception as e:  # noqa: BLE001
                self.user_result = ("raised", type(e).__name__, str(e))
        th = threading.Thread(target=body, name=name, daemon=True)
        self.user_threads.append(th)
        tc = self.ctl.register("user", th)
        tc.parked = False
        since = tc.arrivals
        th.start()
        return self.ctl.wait_parked("user", since=since)

    def feed(self, kind: str):
        self.sock.inbuf.extend(frame_bytes(kind))

    # -- projection (DESIGN.md Appendix D) ----------------------------------------------
    def project(self) -> dict:
        a, d, s = self.assoc, self.assoc.dul, self.sock
        def prim_kind(p):
            if isinstance(p, T_CONNECT):
                return "TCONN_OK" if p.result == "Evt2" else "TCONN_FAIL"
            if isinstance(p, A_ASSOCIATE):
                return "ASSOC_RQ" if p.result is None else "ASSOC_AC" if p.result == 0 else "ASSOC_RJ"
            if isinstance(p, A_RELEASE):
                return "REL_RQ" if p.result is None else "REL_RP"
            if isinstance(p, A_ABORT):
                return "ABORT" if p.abort_source == 0 else "ABORT_P"
            if isinstance(p, A_P_ABORT):
                return "PABORT_RQ"
            if isinstance(p, P_DATA):
                b = pn.P_DATA_TF(p).encode()
                k = classify_pdu_bytes(b)
                return "PDATA" if k == "PD_REQ" else "PDATA_RSP" if k == "PD_RSP" else k
            return type(p).__name__
        def ind_kind(p):
            if isinstance(p, A_ASSOCIATE):
                return "ASSOC_IND" if p.result is None else "ASSOC_AC" if p.result == 0 else "ASSOC_RJ"
            if isinstance(p, A_RELEASE):
                return "REL_IND" if p.result is None else "REL_CONF"
            if isinstance(p, A_ABORT):
                return "ABORT"
            if isinstance(p, A_P_ABORT):
                return "PABORT"
            return type(p).__name__
        def msg_kind(item):
            ctx, m = item
            if m is None:
                return "NONE"
            return "REQ" if m.is_valid_request else "RSP" if m.is_valid_response else "MSG"
        t = d.artim_timer
        if t._start_time is None:
            artim = "off"
        elif t._end_time is None:
            artim = "exp" if t.expired else "run"
        else:
            artim = "stoppedExp" if t.expired else "stopped"
        if s.socket is None or s._is_connected is False:
            sock = "unconn" if (self.role == "requestor" and s.connected == 0 and not getattr(s, "_tried", False) and s.closed == 0 and s.shutdown == 0) else "closed"
        elif s.os_closed:
            sock = "shut"
        else:
            sock = "open"
        return {
            "st": int(d.state_machine.current_state[3:]),
            "evq": [int(e[3:]) for e in list(d.event_queue.queue)],
            "provq": [prim_kind(p) for p in list(d.to_provider_queue.queue)],
            "userq": [ind_kind(p) for p in d.to_user_queue.items()],
            "recvq": [classify_pdu_bytes(p.encode()) if hasattr(p, "encode") else "?" for p in list(d._recv_pdu.queue)],
            "sock": sock,
            "artim": artim,
            "dkill": bool(d._kill_thread),
            "dalive": d.is_alive(),
            "crashed": self.crash is not None,
            "est": a.is_established, "rel": a.is_released, "abt": a.is_aborted, "rej": a.is_rejected,
            "sentAbort": a._sent_abort, "akill": a._kill, "paused": a._is_paused,
            "ckpt": a._reactor_checkpoint.is_set(), "sentRel": a._sent_release,
            "msgq": [msg_kind(i) for i in a.dimse.msg_queue.items()],
            "fired": [f for f in self.fired],
            "sent": [classify_pdu_bytes(b) for b in s.sent],
            "dwhere": self.ctl.where("dul"), "awhere": self.ctl.where("assoc"), "uwhere": self.ctl.where("user"),
        }


def default_boundary(role: str, name: str, info) -> bool:
    """Which gates are step boundaries (see the action inventory in spec/Assoc.tla)."""
    if role == "dul":
        return name in ("dul.top", "dul.ev")
    callers = (info or {}).get("callers", []) if isinstance(info, dict) else []
    if name.startswith("sleep@"):
        fn = name[6:]
        if fn in ("_abort_blocking", "run_reactor"):
            return False
        return True  # _run_reactor (loop top), kill, stop_dul, release, send_*
    if name == "userq.getb":
        return True
    if name == "userq.get":
        return False
    if name == "userq.peek":
        # boundaries: the reactor's release check and its first abort check
        if "_run_reactor" not in callers[:3]:
            return False
        if "is_release_requested" in callers[:2]:
            return True
        if "is_aborted" in callers[:2]:
            fr = info.get("frame")  # the is_aborted frame
            return bool(fr is not None and fr.f_locals.get("abort_type") == "both")
        return False
    if name == "msgq.get":
        return "_run_reactor" in callers[:3]
    if name == "msgq.getb":
        return True
    if name in ("ckpt.wait", "conn.wait"):
        return True
    if name == "idle.expired":
        return "_run_reactor" in callers[:3]
    return False
