"""Two real pynetdicom application entities on loopback, driven by a scenario, observed by the recorder.

A scenario is a dict:
  ops      : requestor script, list over "echo", "find<k>", "store", "get<k>"
  end      : how the requestor ends: "release" | "abort" | "leave" (drop the reference, peer must time out)
  acc      : acceptor handler behaviour: "normal" | "handler_abort" | "handler_release" | "slow"
  side     : an extra action by a second thread: None | ("acc_abort" | "acc_release" | "req_abort" | "req_release", delay_s)
  reject   : acceptor policy rejects the association (require_called_aet)
  raises   : C26 — notification handlers bound on both sides raise at these invocation indices (set of ints) or None
"""
from __future__ import annotations

import threading
import time

import pn  # noqa: F401
from pydicom.dataset import Dataset
from pynetdicom import AE, build_role, evt
from recorder import mark

VERIF_UID = "1.2.840.10008.1.1"
CT = "1.2.840.10008.5.1.4.1.1.2"
FIND = "1.2.840.10008.5.1.4.1.2.1.1"
GET = "1.2.840.10008.5.1.4.1.2.1.3"

NOTIFICATIONS = [evt.EVT_ABORTED, evt.EVT_ACCEPTED, evt.EVT_ACSE_RECV, evt.EVT_ACSE_SENT, evt.EVT_CONN_CLOSE, evt.EVT_CONN_OPEN, evt.EVT_DATA_RECV,
                 evt.EVT_DATA_SENT, evt.EVT_DIMSE_RECV, evt.EVT_DIMSE_SENT, evt.EVT_ESTABLISHED, evt.EVT_FSM_TRANSITION, evt.EVT_PDU_RECV,
                 evt.EVT_PDU_SENT, evt.EVT_REJECTED, evt.EVT_RELEASED, evt.EVT_REQUESTED]


def ct_ds(k=1):
    from pydicom.dataset import FileMetaDataset

    ds = Dataset()
    ds.SOPClassUID, ds.SOPInstanceUID, ds.PatientID, ds.PatientName = CT, f"1.2.3.{k}", "P", "A^B"
    ds.file_meta = FileMetaDataset()
    ds.file_meta.TransferSyntaxUID = "1.2.840.10008.1.2"
    return ds


class Raiser:
    """A notification handler that raises at chosen invocations (C26).  Flavours of raising handler:
    plain   - an ordinary function raising RuntimeError("text")
    noname  - a callable object (no __name__), e.g. an instance with __call__ or a functools.partial
    noargs  - raises an exception constructed without arguments (exc.args == ())
    strfail - raises an exception whose __str__ itself raises"""

    def __init__(self, which, flavour="noname", event_name=""):
        self.which, self.n, self.lock, self.flavour, self.event_name = which, 0, threading.Lock(), flavour, event_name

    def fire(self):
        with self.lock:
            self.n += 1
            n = self.n
        w = self.which
        if w == "all" or (isinstance(w, (set, list, tuple)) and (n in w or self.event_name in w)):
            if self.flavour == "noargs":
                raise ValueError()
            if self.flavour == "strfail":
                class Odd(Exception):
                    def __str__(self):
                        raise TypeError("no text")
                raise Odd()
            raise RuntimeError(f"notification handler failure #{n}")

    def __call__(self, event):
        self.fire()


def make_raiser(which, flavour, event_name):
    r = Raiser(which, flavour, event_name)
    if flavour == "plain":
        def handler(event):
            r.fire()
        return r, handler
    if flavour == "partial":
        import functools
        return r, functools.partial(lambda rr, event: rr.fire(), r)
    return r, r


def run_scenario(sc, timeout=1.0):
    """Returns the observation: outcome flags of both associations, liveness, timings."""
    acc_assocs = []
    t_start = time.time()

    def on_echo(event):
        if sc.get("acc") == "handler_abort":
            event.assoc.abort()
        elif sc.get("acc") == "handler_release":
            event.assoc.release()
        elif sc.get("acc") == "slow":
            time.sleep(0.05)
        return 0x0000

    def on_store(event):
        return 0x0000

    def on_find(event):
        ds = Dataset()
        ds.QueryRetrieveLevel, ds.PatientID = "PATIENT", "1"
        for _ in range(sc.get("nfind", 2)):
            if sc.get("acc") == "slow":
                time.sleep(0.02)
            yield 0xFF00, ds

    def on_get(event):
        n = sc.get("nfind", 2)
        yield n
        for k in range(n):
            yield 0xFF00, ct_ds(k + 1)

    def on_requested(event):
        acc_assocs.append(event.assoc)

    scp = AE("ACCEPTOR")
    scp.acse_timeout = scp.dimse_timeout = scp.network_timeout = timeout
    for uid in (VERIF_UID, CT, FIND, GET):
        scp.add_supported_context(uid, scu_role=True, scp_role=True)
    if sc.get("reject") == "limit":
        scp.maximum_associations = 1            # one association is already open when the scenario's request arrives
    elif sc.get("reject"):
        scp.require_called_aet = True
    def on_acse_recv(event):
        # abort during release: react to the peer's A-RELEASE-RQ with abort() from a notification handler (non-blocking abort)
        p = event.primitive
        if sc.get("acc") == "notify_abort" and type(p).__name__ == "A_RELEASE" and p.result is None:
            event.assoc.abort()

    hs = [(evt.EVT_ACSE_RECV, on_acse_recv), (evt.EVT_C_ECHO, on_echo), (evt.EVT_C_STORE, on_store), (evt.EVT_C_FIND, on_find), (evt.EVT_C_GET, on_get), (evt.EVT_REQUESTED, on_requested)]
    def on_req_acse_sent(event):
        # abort_back: the requestor's A-ABORT is being sent (its abort() has not finished): the acceptor's application aborts now
        if sc.get("acc") == "abort_back" and type(event.primitive).__name__ == "A_ABORT" and acc_assocs:
            try:
                acc_assocs[-1].abort()
            except Exception:  # noqa: BLE001
                pass
            time.sleep(0.15)

    rq_hs = [(evt.EVT_C_STORE, on_store), (evt.EVT_ACSE_SENT, on_req_acse_sent)]
    raisers = []
    if sc.get("raises") is not None:
        # notification handlers bound on both sides for every notification event; they raise where the scenario says
        # ("none": bound but quiet - the reference run)
        which = sc["raises"].get("events", "all")
        which = set() if which == "none" else which
        for e in NOTIFICATIONS:
            for lst in (hs, rq_hs) * int(sc["raises"].get("handlers", 1)):      # several handlers bound to the same event
                r, h = make_raiser(which, sc["raises"].get("flavour", "noname"), e.name)
                raisers.append(r)
                lst.append((e, h))
    server = scp.start_server(("127.0.0.1", 0), block=False, evt_handlers=hs)
    port = server.socket.getsockname()[1]
    scu = AE("REQUESTOR")
    scu.acse_timeout = scu.dimse_timeout = scu.network_timeout = timeout
    for uid in ((VERIF_UID, CT, FIND, GET) if sc.get("reject") != "nocx" else ("1.2.840.10008.5.1.4.1.1.4",)):      # nocx: nothing the acceptor supports
        scu.add_requested_context(uid)
    results = []
    side_done = threading.Event()
    side_thread = None
    assoc = None
    first = None
    try:
        if sc.get("reject") == "limit":
            first = scu.associate("127.0.0.1", port, ae_title="ACCEPTOR")
            acc_assocs.clear()
        try:
            assoc = scu.associate("127.0.0.1", port, ae_title="WRONG" if sc.get("reject") == "aet" or sc.get("reject") is True else "ACCEPTOR",
                                  ext_neg=[build_role(CT, scu_role=True, scp_role=True)] if sc.get("reject") != "nocx" else None, evt_handlers=rq_hs)
        except Exception as e:  # noqa: BLE001   an exception out of AE.associate() is an observation (C26), not a harness failure
            results.append(("associate_exc", f"{type(e).__name__}: {e}"[:100]))
            assoc = next((t for t in threading.enumerate() if type(t).__name__ == "Association" and getattr(t, "ae", None) is scu), None) or \
                next((t.assoc for t in threading.enumerate() if type(t).__name__ == "DULServiceProvider" and getattr(getattr(t, "assoc", None), "ae", None) is scu), None)
        side = sc.get("side")
        if assoc is None:
            class _Gone:          # AE.associate() raised before an association object could be found
                is_established = is_released = is_aborted = is_rejected = False
            assoc = None
        if side and assoc is not None and assoc.is_established:
            def do_side():
                time.sleep(side[1])
                try:
                    target = assoc if side[0].startswith("req") else (acc_assocs[-1] if acc_assocs else None)
                    if target is not None:
                        mark(target, side[0])
                        (target.abort if side[0].endswith("abort") else target.release)()
                except Exception as e:  # noqa: BLE001
                    results.append(("side_exc", f"{type(e).__name__}: {e}"))
                finally:
                    side_done.set()
            side_thread = threading.Thread(target=do_side, name="SideThread", daemon=True)
            side_thread.start()
        if assoc is not None and assoc.is_established:
            for op in sc.get("ops", []):
                mark(assoc, op)
                try:
                    if op == "echo":
                        st = assoc.send_c_echo()
                        results.append(("echo", int(st.Status) if "Status" in st else -1))
                    elif op.startswith("find"):
                        q = Dataset()
                        q.QueryRetrieveLevel, q.PatientID = "PATIENT", "*"
                        results.append(("find", [int(s.Status) if "Status" in s else -1 for s, _ in assoc.send_c_find(q, FIND)]))
                    elif op.startswith("get"):
                        q = Dataset()
                        q.QueryRetrieveLevel, q.PatientID = "PATIENT", "*"
                        results.append(("get", [int(s.Status) if "Status" in s else -1 for s, _ in assoc.send_c_get(q, GET)]))
                    elif op == "store":
                        st = assoc.send_c_store(ct_ds())
                        results.append(("store", int(st.Status) if "Status" in st else -1))
                except RuntimeError as e:          # "association must be established": a documented API error after the association ended
                    results.append((op, "not-established"))
                except Exception as e:  # noqa: BLE001
                    results.append((op, f"exc {type(e).__name__}: {e}"[:80]))
            # the ending: one or two terminal calls in sequence ("abort+release" = abort(), then release(), ...)
            for end in sc.get("end", "release").split("+"):
                mark(assoc, "end_" + end)
                try:
                    if end == "release" and assoc.is_established:
                        assoc.release()
                    elif end == "abort":
                        assoc.abort()
                except Exception as e:  # noqa: BLE001
                    results.append(("end_exc", f"{type(e).__name__}: {e}"[:80]))
        if side_thread is not None:
            side_done.wait(5)
        # termination: both association threads and both provider threads end within the deadline
        deadline = time.time() + 4 * timeout + 2.0
        if any(r[0] == "associate_exc" for r in results):
            deadline = time.time() + 0.5      # AE.associate() itself raised: whatever it left behind is not going to end by itself
        acc = acc_assocs[-1] if acc_assocs else None

        def alive(a):
            return a is not None and (a.is_alive() or a.dul.is_alive())

        while time.time() < deadline and (alive(assoc) or alive(acc)):
            time.sleep(0.005)
        t_end = time.time()

        def view(a):
            if a is None:
                return {"present": False, "released": False, "aborted": False, "rejected": False, "established": False, "alive": False, "sockopen": False, "state": 0}
            sock = getattr(a.dul, "socket", None)
            raw = getattr(sock, "socket", None) if sock is not None else None
            try:
                so = bool(raw is not None and raw.fileno() != -1)      # is the OS-level socket still open?
            except Exception:  # noqa: BLE001
                so = False
            return {"present": True, "released": bool(a.is_released), "aborted": bool(a.is_aborted), "rejected": bool(a.is_rejected), "established": bool(a.is_established),
                    "alive": bool(alive(a)), "sockopen": so, "state": int(a.dul.state_machine.current_state[3:])}

        return {"sc": {k: (list(v) if isinstance(v, (set, tuple)) else v) for k, v in sc.items()}, "r": view(assoc), "a": view(acc), "results": results,
                "elapsed": round(t_end - t_start, 3), "in_time": not (alive(assoc) or alive(acc)), "rid": getattr(assoc, "_verif_uid", 0), "aid": getattr(acc, "_verif_uid", 0) if acc is not None else 0,
                "raiser_calls": sum(r.n for r in raisers)}
    finally:
        if any(r[0] == "associate_exc" for r in results):
            for a in (assoc, acc_assocs[-1] if acc_assocs else None):      # free what a failed associate() left running
                try:
                    if a is not None:
                        a._kill = True
                        a.dul._kill_thread = True
                except Exception:  # noqa: BLE001
                    pass
        try:
            if first is not None and first.is_established:
                first.release()
        except Exception:  # noqa: BLE001
            pass
        try:
            server.shutdown()
        except Exception:  # noqa: BLE001
            pass
