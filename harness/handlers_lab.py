"""A real AssociationServer and its real acceptor Associations under the operation histories of spec/Handlers.tla:
bind / unbind on the server or on one association, connections opened and closed, a C-ECHO that makes the events occur.
After every operation the bindings are read back with get_handlers() (server and every active association) and, for an
echo, the handlers that actually ran are recorded in order with the arguments they received."""
from __future__ import annotations

import threading
import time

import pn  # noqa: F401
from pynetdicom import AE, evt

VERIFICATION = "1.2.840.10008.1.1"
EVENTS = {"N": evt.EVT_DIMSE_RECV, "I": evt.EVT_C_ECHO}


class HandlersLab:
    def __init__(self, hids=("h1", "h2")):
        self.calls = []
        self.acc = {}      # slot -> acceptor-side Association
        self.req = {}      # slot -> requestor-side Association
        self._new = []
        self.fn = {}       # (event kind, handler id) -> callable
        for e in EVENTS:
            for h in hids:
                self.fn[(e, h)] = self._make(e, h)
        self.names = {f: k for k, f in self.fn.items()}
        self.ae = AE("ACCEPTOR")
        self.ae.add_supported_context(VERIFICATION)
        self.ae.acse_timeout = self.ae.dimse_timeout = 30
        self.ae.network_timeout = 120          # no idle expiry within a history, however loaded the machine
        self.server = self.ae.start_server(("127.0.0.1", 0), block=False, evt_handlers=[(evt.EVT_REQUESTED, self._on_requested)])
        self.port = self.server.socket.getsockname()[1]
        self.scu = AE("REQUESTOR")
        self.scu.add_requested_context(VERIFICATION)
        self.scu.acse_timeout = self.scu.dimse_timeout = 30
        self.scu.network_timeout = 120

    def _make(self, e, h):
        def handler(event, *args):
            self.calls.append((e, h, args[0] if args else "none"))
            return 0x0000
        handler.__name__ = f"{e}_{h}"
        return handler

    def _on_requested(self, event):
        self._new.append(event.assoc)

    @staticmethod
    def _arg(a):
        return None if a == "none" else [a]

    # ---- operations ----
    def apply(self, op):
        k, e, h, a, x = op["k"], op["e"], op["h"], op["a"], op["x"]
        if k == "sbind":
            self.server.bind(EVENTS[e], self.fn[(e, h)], self._arg(a))
        elif k == "sunbind":
            self.server.unbind(EVENTS[e], self.fn[(e, h)])
        elif k == "abind":
            self.acc[x].bind(EVENTS[e], self.fn[(e, h)], self._arg(a))
        elif k == "aunbind":
            self.acc[x].unbind(EVENTS[e], self.fn[(e, h)])
        elif k == "open":
            del self._new[:]
            r = self.scu.associate("127.0.0.1", self.port)
            if not r.is_established:
                raise RuntimeError("lab association not established")
            t0 = time.time()
            while not self._new and time.time() - t0 < 3:
                time.sleep(0.002)
            self.req[x], self.acc[x] = r, self._new[0]
            while not self.acc[x].is_established and time.time() - t0 < 3:
                time.sleep(0.002)
        elif k == "close":
            self.req[x].release()
            t0 = time.time()
            while self.acc[x] in self.server.active_associations and time.time() - t0 < 5:
                time.sleep(0.002)
            if self.acc[x] in self.server.active_associations:
                raise RuntimeError("acceptor association still active 5 s after release")
            del self.req[x], self.acc[x]
        elif k == "echo":
            del self.calls[:]
            st = self.req[x].send_c_echo()
            if "Status" not in st:
                raise RuntimeError("no C-ECHO response in the lab")
        return self.observe(op)

    def _attr(self, obj):
        n = [[self.names[f][1], "none" if a is None else a[0]] for f, a in obj.get_handlers(EVENTS["N"]) if f in self.names]
        f, a = obj.get_handlers(EVENTS["I"])
        i = [self.names[f][1], "none" if a is None else a[0]] if f in self.names else ["default", "none"]
        return {"n": n, "i": i}

    def observe(self, op):
        empty = {"n": [], "i": ["default", "none"]}
        o = {"srv": self._attr(self.server), "live": sorted(self.acc), "as": [self._attr(self.acc[x]) if x in self.acc else empty for x in (1, 2)], "called": "none"}
        if op["k"] == "echo":
            ci = [[h, a] for e, h, a in self.calls if e == "I"]
            o["called"] = {"n": [[h, a] for e, h, a in self.calls if e == "N"], "i": ci[0] if len(ci) == 1 else (["default", "none"] if not ci else ["several", "none"])}
        return o

    def reset(self):
        for x in list(self.req):
            try:
                self.apply({"k": "close", "e": "N", "h": "h1", "a": "none", "x": x})
            except RuntimeError:
                self.req.pop(x).abort()
                self.acc.pop(x, None)
        for (e, h), f in self.fn.items():
            self.server.unbind(EVENTS[e], f)

    def close(self):
        try:
            self.reset()
        finally:
            self.server.shutdown()
