"""S2C for spec/Assoc.tla: replay one TLC behaviour of one node on the real threads (rig.Rig).

replay(beh, node) executes each action of `node` in the behaviour on the real objects, the driver
playing environment actions (peer frames, EOF, clock).  After every step the implementation state is
projected and compared with the spec state.  Returns a Report:
  .crash      (role, event, state) when the real provider thread died with InvalidEventError
  .diverged   first step at which projection != spec (model/code drift), with the differing fields
  .final      projection at the end
"""
from __future__ import annotations

import re

from common import MachineryError
from rig import Rig

APC_GATE = {
    "a_start": {"none"}, "acc_wait": {"userq.getb"}, "r_top": {"sleep@_run_reactor"}, "r_wait": {"ckpt.wait"},
    "r_msg": {"msgq.get"}, "r_rel": {"userq.peek"}, "r_abt": {"userq.peek"}, "r_idle": {"idle.expired"},
    "k_spin": {"sleep@kill"}, "k_join": {"sleep@stop_dul"}, "done": {"exit"}, "none": {"none", "exit"},
}
UPC_GATE = {
    "u_idle": {"none", "exit"}, "q_end": {"exit"}, "q_start": {"none"}, "q_conn": {"conn.wait"},
    "q_wait": {"userq.getb"}, "rl_spin": {"sleep@release"}, "rl_wait": {"userq.getb"},
    "e_spin": {"sleep@send_c_echo"}, "e_wait": {"msgq.getb"}, "k_spin": {"sleep@kill"}, "k_join": {"sleep@stop_dul"},
}
DPC_GATE = {"none": {"none"}, "top": {"dul.top"}, "ev": {"dul.ev"}, "done": {"exit"}, "dead": {"exit"}}

CMP_FIELDS = ["st", "evq", "provq", "userq", "recvq", "sock", "artim", "dkill", "dalive", "est", "rel", "abt",
              "rej", "sentAbort", "akill", "paused", "ckpt", "sentRel", "msgq", "fired", "sent"]


class Report:
    def __init__(self):
        self.crash = None
        self.diverged = None
        self.final = None
        self.steps = 0
        self.trace = []
        self.done_not_idle = None
        self.crash_predicted = False


def _norm(v):
    if isinstance(v, (list, tuple)):
        return [_norm(x) for x in v]
    return v


def compare(spec_node: dict, proj: dict) -> dict:
    diff = {}
    for f in CMP_FIELDS:
        a, b = _norm(spec_node[f]), _norm(proj[f])
        if a != b:
            diff[f] = {"spec": a, "impl": b}
    if proj["dwhere"] not in DPC_GATE.get(spec_node["dpc"], {"?"}):
        diff["dpc"] = {"spec": spec_node["dpc"], "impl": proj["dwhere"]}
    if proj["awhere"] not in APC_GATE.get(spec_node["apc"], {"?"}):
        diff["apc"] = {"spec": spec_node["apc"], "impl": proj["awhere"]}
    if proj["uwhere"] not in UPC_GATE.get(spec_node["upc"], {"?"}):
        diff["upc"] = {"spec": spec_node["upc"], "impl": proj["uwhere"]}
    if (spec_node["crash"] != [] and spec_node["crash"] != ()) != proj["crashed"]:
        diff["crash"] = {"spec": spec_node["crash"], "impl": proj["crashed"]}
    return diff


def _decide_policy(beh, node) -> str:
    for _, st in beh:
        if st["nd"][node]["rej"]:
            return "reject"
    return "accept"


def replay(beh, node: str = "A", role: str = "acceptor", compare_state: bool = True, peer_node: str | None = None) -> Report:
    rep = Report()
    rig = Rig(role, policy=_decide_policy(beh, node))
    ctl = rig.ctl
    blind = False   # after a divergence: keep driving the real threads (legal steps only), no comparison
    try:
        prev = beh[0][1]
        for label, st in beh[1:]:
            m = re.match(r"(\w+)\((.*)\)", label)
            if not m:
                raise MachineryError(f"cannot parse action label {label!r}")
            act = m.group(1)
            args = [a.strip().strip('"') for a in m.group(2).split(",")]
            actor = args[0]
            pn_, sn = prev["nd"][node], st["nd"][node]
            ticked = st["ntick"] > prev["ntick"]
            if actor != node:
                # a step of the other node (pair replay by projection): deliver what it sent to us
                _deliver_from_peer(rig, prev, st, node)
                prev = st
                continue
            rep.steps += 1
            rep.trace.append(label)
            try:
                _do(rig, act, args, ticked, pn_, sn, beh, node, blind)
            except MachineryError:
                if not blind:
                    raise
                prev = st
                continue
            _settle(rig)
            proj = rig.project()
            if rig.crash is not None and rep.crash is None:
                mm = re.search(r"Invalid event 'Evt(\d+)' for the current state 'Sta(\d+)'", rig.crash[1])
                rep.crash = (role, int(mm.group(1)), int(mm.group(2))) if mm else (role, rig.crash[0], rig.crash[1])
                rep.crash_predicted = (not blind) and list(sn["crash"]) == list(rep.crash)
            if compare_state and not blind:
                diff = compare(sn, proj)
                if diff:
                    rep.diverged = {"step": rep.steps, "action": label, "diff": diff,
                                    "user_result": getattr(rig, "user_result", None), "user_exc": rig.user_exc}
                    blind = True
            prev = st
        if blind:
            _run_out(rig)
            if rig.crash is not None and rep.crash is None:
                mm = re.search(r"Invalid event 'Evt(\d+)' for the current state 'Sta(\d+)'", rig.crash[1])
                rep.crash = (role, int(mm.group(1)), int(mm.group(2))) if mm else (role, rig.crash[0], rig.crash[1])
                rep.crash_predicted = False
        rep.final = rig.project()
        # observed C05_DoneImpliesIdle
        f = rep.final
        done = f["dwhere"] in ("exit",) and f["awhere"] in ("exit", "none") and f["uwhere"] in ("exit", "none")
        if done and not f["crashed"] and (f["sock"] == "open" or f["dalive"]):
            rep.done_not_idle = f
        return rep
    finally:
        rig.close()


def _legal(rig: Rig, role: str) -> bool:
    """Blind mode: may the thread parked at its gate take a step without the environment lying?"""
    w = rig.ctl.where(role)
    a = rig.assoc
    if w in ("none", "exit", "running"):
        return False
    if w == "userq.getb":
        return len(a.dul.to_user_queue.items()) > 0
    if w == "msgq.getb":
        return len(a.dimse.msg_queue.items()) > 0
    if w == "ckpt.wait":
        return a._reactor_checkpoint.is_set()
    if w == "conn.wait":
        return rig.sock._ready.is_set()
    if w == "sleep@kill":
        return (not a.dul.is_alive()) or a.dul.state_machine.current_state == "Sta1"
    if w == "sleep@stop_dul":
        return not a.dul.is_alive()
    if w in ("sleep@release", "sleep@send_c_echo"):
        return a._is_paused
    return True


def _do(rig: Rig, act, args, ticked, pn_, sn, beh, node, blind):
    ctl = rig.ctl
    def step(role, decision=None):
        if blind:
            if not _legal(rig, role):
                return
            decision = None if decision == "timeout" else decision
        ctl.step(role, decision)
    if act == "PeerSend":
        rig.feed(args[1])
    elif act == "PeerClose":
        rig.sock.eof = True
    elif act == "ArtimTick":
        rig.clock.advance(31)
    elif act in ("DulIO", "DulEvent"):
        step("dul")
        if not rig.assoc.dul.is_alive():
            rig.assoc.dul.join(1)
    elif act == "AStart":
        rig.start_assoc_thread()
    elif act in ("AccWait",):
        step("assoc", "timeout" if ticked else None)
    elif act == "RMsg":
        rig.next_handler_abort = bool(sn["sentAbort"] and not pn_["sentAbort"])
        step("assoc")
    elif act in ("RTop", "RWait", "RRel", "RAbt"):
        step("assoc")
    elif act == "RIdle":
        step("assoc", True if (ticked and not blind) else False)
    elif act == "KillSpin":
        step("assoc" if args[1] == "apc" else "user")
    elif act in ("UAbort", "URelease", "UEcho"):
        if blind and ctl.where("user") not in ("none", "exit"):
            return
        fn = {"UAbort": rig.assoc.abort, "URelease": rig.assoc.release, "UEcho": lambda: rig.assoc.send_c_echo()}[act]
        rig.user_call(fn)
    elif act in ("RlSpin", "ESpin"):
        step("user")
    elif act in ("RlWait", "EWait", "QWait"):
        step("user", "timeout" if ticked else None)
    elif act == "QStart":
        rig.connect_ok = _connect_ok(beh, node)
        rig.user_call(_associate(rig))
        ctl.wait_parked("dul")
    elif act == "QConn":
        step("user")
    else:
        raise MachineryError(f"no replay rule for action {act}")


def _run_out(rig: Rig, rounds: int = 60):
    """Blind mode epilogue: round-robin every thread that can legally move, so a crash that the
    diverged behaviour was heading for still shows (no timeouts are forced, the clock is not moved)."""
    for _ in range(rounds):
        moved = False
        for role in ("dul", "assoc", "user"):
            if _legal(rig, role):
                before = (rig.ctl.where(role), rig.ctl.ctl[role].arrivals)
                try:
                    rig.ctl.step(role, False if rig.ctl.where(role) == "idle.expired" else None)
                except MachineryError:
                    return
                if role == "dul" and not rig.assoc.dul.is_alive():
                    rig.assoc.dul.join(1)
                moved = True
        if rig.crash is not None or not moved:
            return
        p = rig.project()
        if p["dwhere"] == "exit" and p["awhere"] in ("exit", "none"):
            return


def _settle(rig: Rig, timeout: float = 2.0):
    """Wait until no managed thread is 'running' (each is parked, finished or not started)."""
    import time

    end = time.time() + timeout
    while time.time() < end:
        ws = [rig.ctl.where(r) for r in ("dul", "assoc", "user")]
        if "running" not in ws:
            return
        time.sleep(0.0005)
    raise MachineryError("threads did not settle: " + str({r: rig.ctl.where(r) for r in ("dul", "assoc", "user")})
                         + "\n" + "\n".join(rig.ctl.stack(r) for r in ("dul", "assoc", "user") if rig.ctl.where(r) == "running"))


def _connect_ok(beh, node) -> bool:
    for _, st in beh:
        if "TCONN_FAIL" in st["nd"][node]["provq"]:
            return False
    return True


def _associate(rig: Rig):
    def run():
        a = rig.assoc
        a.request()
        if a.is_established:
            a.start()
        return "associated"
    return run


def _deliver_from_peer(rig: Rig, prev, st, node):
    """Pair replay by projection: frames/EOF that appeared on our wire during a peer step."""
    w0, w1 = list(prev["wire"][node]), list(st["wire"][node])
    if len(w1) > len(w0):
        for f in w1[len(w0):]:
            rig.feed(f)
    if st["weof"][node] and not prev["weof"][node]:
        rig.sock.eof = True
