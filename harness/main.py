"""bin/check entry point: `check <ID> [--tier quick|thorough] [--replay FILE]`."""
import importlib
import os
import sys

HERE = os.path.dirname(os.path.abspath(__file__))
sys.path.insert(0, HERE)
sys.path.insert(0, os.path.join(HERE, "drivers"))

from common import main_wrapper  # noqa: E402


def main() -> int:
    if len(sys.argv) < 2:
        print("usage: check <ID> [--tier quick|thorough] [--replay FILE]")
        return 2
    pid = sys.argv[1].upper()
    try:
        mod = importlib.import_module(pid.lower())
    except ModuleNotFoundError as e:
        print(f"MACHINERY-FAILURE property={pid}: no driver ({e})")
        return 2
    return main_wrapper(mod.run, pid, sys.argv[2:])


if __name__ == "__main__":
    rc = main()
    sys.stdout.flush()
    os._exit(rc)
