"""Run TLC and read what it produces (counts, coverage, counterexamples, simulated behaviours)."""
from __future__ import annotations

import glob
import os
import re
import shutil
import subprocess
import time

from common import SPEC, MachineryError

JAR = "/opt/veriftools/tla/tla2tools.jar"
DEPS = "/opt/veriftools/tla/CommunityModules-deps.jar"


class TlcResult:
    def __init__(self):
        self.out = ""
        self.rc = 0
        self.generated = 0
        self.distinct = 0
        self.depth = 0
        self.violated: str | None = None  # invariant / property name
        self.trace: list[tuple[str, dict]] = []  # [(action label, state dict)]
        self.coverage: dict[str, int] = {}
        self.wall = 0.0
        self.module = ""
        self.cfg = ""
        self.error: str | None = None

    def summary(self) -> dict:
        return {
            "module": self.module,
            "cfg": self.cfg,
            "distinct": self.distinct,
            "generated": self.generated,
            "depth": self.depth,
            "violated": self.violated,
            "wall_s": round(self.wall, 2),
        }


def run_tlc(
    module: str,
    cfg: str | None = None,
    *,
    workdir: str,
    workers: int | str = 16,
    simulate: str | None = None,
    depth: int | None = None,
    seed: int | None = None,
    env: dict | None = None,
    coverage: bool = False,
    deadlock: bool = False,
    timeout: int = 1800,
    extra: list[str] | None = None,
    dfs: bool = False,
    cont: bool = False,
    spec_dir: str = SPEC,
) -> TlcResult:
    """Run TLC on spec/<module>.tla with spec/<cfg>. Never raises on a property violation."""
    cfg = cfg or module + ".cfg"
    meta = os.path.join(workdir, "meta_" + re.sub(r"\W", "_", cfg) + f"_{int(time.time()*1000)%100000}")
    shutil.rmtree(meta, ignore_errors=True)
    os.makedirs(meta, exist_ok=True)
    jopts = ["-XX:+UseParallelGC", "-Xmx12g", "-Xss512m", f"-DTLA-Library={SPEC}"]
    if dfs:
        jopts.append("-Dtlc2.tool.queue.IStateQueue=StateDeque")
    cmd = ["java", *jopts, "-cp", f"{JAR}:{DEPS}", "tlc2.TLC"]
    cmd += ["-workers", str(workers), "-metadir", meta, "-noGenerateSpecTE"]
    cmd += ["-config", cfg]
    if not deadlock:
        cmd += ["-deadlock"]
    if simulate is not None:
        cmd += ["-simulate", simulate]
    if depth is not None:
        cmd += ["-depth", str(depth)]
    if seed is not None:
        cmd += ["-seed", str(seed)]
    if coverage:
        cmd += ["-coverage", "1"]
    if cont:
        cmd += ["-continue"]
    if extra:
        cmd += extra
    cmd += [module]
    e = dict(os.environ)
    if env:
        e.update({k: str(v) for k, v in env.items()})
    t0 = time.time()
    try:
        p = subprocess.run(
            cmd, cwd=spec_dir, env=e, capture_output=True, text=True, timeout=timeout
        )
        out, rc = p.stdout + p.stderr, p.returncode
    except subprocess.TimeoutExpired as te:
        out = (te.stdout.decode() if isinstance(te.stdout, bytes) else (te.stdout or "")) + "\nTIMEOUT"
        rc = 124
    r = TlcResult()
    r.out, r.rc, r.wall, r.module, r.cfg = out, rc, time.time() - t0, module, cfg
    shutil.rmtree(meta, ignore_errors=True)
    m = re.findall(r"(\d+) states generated, (\d+) distinct states found", out)
    if m:
        r.generated, r.distinct = int(m[-1][0]), int(m[-1][1])
    m = re.findall(r"The depth of the complete state graph search is (\d+)", out)
    if m:
        r.depth = int(m[-1])
    m = re.search(r"Error: Invariant (\S+) is violated", out)
    if m:
        r.violated = m.group(1)
    m2 = re.search(r"Error: Action property (\S+) is violated", out)
    if m2:
        r.violated = m2.group(1)
    m3 = re.search(r"Error: Temporal property (\S+) was violated", out)      # TLC 1.8 names the property
    if m3:
        r.violated = r.violated or m3.group(1)
    if "Temporal properties were violated" in out:
        r.violated = r.violated or "TEMPORAL"
    if r.violated:
        r.trace = parse_error_trace(out)
    if coverage:
        for mm in re.finditer(r"<(\w+) line \d+, col \d+ to line \d+, col \d+ of module (\w+)(?: \([\d ]+\))?>: (\d+):(\d+)", out):
            r.coverage[mm.group(1)] = r.coverage.get(mm.group(1), 0) + int(mm.group(4))
    if rc not in (0, 12, 13) and not r.violated:
        # 12 = safety violation, 13 = liveness violation
        errs = re.findall(r"Error: .*", out)
        r.error = "; ".join(errs[:3]) or f"rc={rc}"
    if rc == 0 and simulate is None and not m and "Finished computing initial states" not in out:
        pass
    return r


def must_ok(r: TlcResult, what: str = "") -> TlcResult:
    if r.error or r.rc == 124:
        raise MachineryError(f"TLC failed on {r.module}/{r.cfg} {what}: {r.error}\n{r.out[-3000:]}")
    return r


# ----------------------------------------------------------------------------------------
# TLA+ value parser (the subset TLC prints)
# ----------------------------------------------------------------------------------------
class _P:
    def __init__(self, s: str):
        self.s, self.i = s, 0

    def ws(self):
        while self.i < len(self.s) and self.s[self.i] in " \t\r\n":
            self.i += 1

    def peek(self, t: str) -> bool:
        self.ws()
        return self.s.startswith(t, self.i)

    def eat(self, t: str):
        self.ws()
        if not self.s.startswith(t, self.i):
            raise ValueError(f"expected {t!r} at {self.i}: {self.s[self.i:self.i+40]!r}")
        self.i += len(t)

    def value(self):
        self.ws()
        s, i = self.s, self.i
        if s.startswith("<<", i):
            self.i += 2
            out = []
            if self.peek(">>"):
                self.eat(">>")
                return out
            while True:
                out.append(self.value())
                if self.peek(","):
                    self.eat(",")
                else:
                    self.eat(">>")
                    return out
        if s.startswith("[", i):
            self.i += 1
            d = {}
            while True:
                self.ws()
                m = re.compile(r"[A-Za-z_][A-Za-z0-9_]*").match(self.s, self.i)
                k = m.group(0)
                self.i = m.end()
                self.eat("|->")
                d[k] = self.value()
                if self.peek(","):
                    self.eat(",")
                else:
                    self.eat("]")
                    return d
        if s.startswith("{", i):
            self.i += 1
            out = []
            if self.peek("}"):
                self.eat("}")
                return frozenset()
            while True:
                out.append(_freeze(self.value()))
                if self.peek(","):
                    self.eat(",")
                else:
                    self.eat("}")
                    return frozenset(out)
        if s.startswith("(", i):
            # function: (k :> v @@ k :> v)
            self.i += 1
            d = {}
            while True:
                k = self.value()
                self.eat(":>")
                d[_freeze(k)] = self.value()
                if self.peek("@@"):
                    self.eat("@@")
                else:
                    self.eat(")")
                    return d
        if s[i] == '"':
            j = i + 1
            buf = []
            while s[j] != '"':
                if s[j] == "\\":
                    j += 1
                buf.append(s[j])
                j += 1
            self.i = j + 1
            return "".join(buf)
        m = re.compile(r"-?\d+").match(s, i)
        if m:
            self.i = m.end()
            # range a..b
            if s.startswith("..", self.i):
                self.i += 2
                m2 = re.compile(r"-?\d+").match(s, self.i)
                self.i = m2.end()
                return frozenset(range(int(m.group(0)), int(m2.group(0)) + 1))
            return int(m.group(0))
        m = re.compile(r"[A-Za-z_][A-Za-z0-9_]*").match(s, i)
        if m:
            self.i = m.end()
            w = m.group(0)
            return True if w == "TRUE" else False if w == "FALSE" else w
        raise ValueError(f"cannot parse at {i}: {s[i:i+40]!r}")


def _freeze(v):
    if isinstance(v, list):
        return tuple(_freeze(x) for x in v)
    if isinstance(v, dict):
        return tuple(sorted(((k, _freeze(x)) for k, x in v.items()), key=repr))
    return v


def parse_value(text: str):
    p = _P(text)
    v = p.value()
    return v


def parse_state(text: str) -> dict:
    """Parse '/\\ a = v\\n/\\ b = w' into {a: v, b: w}."""
    st = {}
    parts = re.split(r"(?m)^/\\ ", text.strip())
    for part in parts:
        part = part.strip()
        if not part:
            continue
        m = re.match(r"(\w+) = ", part)
        if not m:
            # single-variable state printed without /\
            continue
        st[m.group(1)] = parse_value(part[m.end():])
    if not st:
        m = re.match(r"(\w+) = ", text.strip())
        if m:
            st[m.group(1)] = parse_value(text.strip()[m.end():])
    return st


def parse_error_trace(out: str) -> list[tuple[str, dict]]:
    tr = []
    for m in re.finditer(
        r"(?ms)^State (\d+): <([^>]*)>\n(.*?)(?=^State \d+: |^\d+ states generated|^Error|^Finished|^Back to state|\Z)",
        out,
    ):
        label = m.group(2).split(" line ")[0].strip()
        try:
            tr.append((label, parse_state(m.group(3))))
        except Exception as e:  # pragma: no cover
            raise MachineryError(f"cannot parse TLC trace state {m.group(1)}: {e}\n{m.group(3)[:400]}")
    return tr


def read_sim_traces(prefix: str) -> list[list[tuple[str, dict]]]:
    """Read the files `tlc -simulate file=<prefix>` wrote: one behaviour per file."""
    res = []
    for fn in sorted(glob.glob(prefix + "*")):
        txt = open(fn).read()
        beh = []
        for m in re.finditer(r"(?ms)^\\\* <?([^\n>]*)>?\s*\nSTATE_\d+ ==\s*\n(.*?)(?=^\\\* |^={4,}|\Z)", txt):
            label = m.group(1).split(" line ")[0].strip()
            beh.append((label, parse_state(m.group(2))))
        if beh:
            res.append(beh)
    return res


def sany(module_path: str) -> tuple[bool, str]:
    p = subprocess.run(
        ["java", "-cp", f"{JAR}:{DEPS}", "tla2sany.SANY", os.path.basename(module_path)],
        cwd=os.path.dirname(module_path),
        capture_output=True,
        text=True,
    )
    ok = p.returncode == 0 and "Semantic errors" not in p.stdout and "*** Errors" not in p.stdout
    return ok, p.stdout + p.stderr
