"""C07 lab: a real pynetdicom acceptor (plus, for C-MOVE, a real destination Storage SCP) against a scripted raw
peer that sends A-RELEASE-RQ at a chosen arrival point (spec/Release.tla: position, result index).

Arrival points are reached deterministically: the user's handler (or the destination's handler, or an EVT_DIMSE_SENT
notification for the final response) stops at the chosen point, the peer sends the request, the lab waits until the
acceptor's provider has queued the A-RELEASE indication, then lets the stopped thread go on.
"""
from __future__ import annotations

import threading
import time

import pn  # noqa: F401
from pydicom.dataset import Dataset
from pynetdicom import AE, evt
from pynetdicom.dimse_primitives import C_ECHO, C_FIND, C_GET, C_MOVE, C_STORE
from pynetdicom.pdu_primitives import A_RELEASE

from pair_lab import CT, FIND, GET, VERIF_UID, ct_ds
from raw_peer import RawPeer

MOVE = "1.2.840.10008.5.1.4.1.2.1.2"


class Gate:
    def __init__(self, pos, k):
        self.pos, self.k = pos, k
        self.reached, self.resume = threading.Event(), threading.Event()

    def hit(self, pos, k):
        if (pos, k) == (self.pos, self.k) and not self.reached.is_set():
            self.reached.set()
            self.resume.wait(5)


def identifier():
    ds = Dataset()
    ds.QueryRetrieveLevel, ds.PatientID = "PATIENT", "*"
    return ds


def request(svc, msg_id=1):
    from io import BytesIO
    from pynetdicom.dsutils import encode

    if svc == "echo":
        p = C_ECHO()
        p.AffectedSOPClassUID = VERIF_UID
    else:
        p = {"find": C_FIND, "get": C_GET, "move": C_MOVE}[svc]()
        p.AffectedSOPClassUID = {"find": FIND, "get": GET, "move": MOVE}[svc]
        p.Priority = 2
        p.Identifier = BytesIO(encode(identifier(), True, True))
        if svc == "move":
            p.MoveDestination = "DEST"
    p.MessageID = msg_id
    return p


def run_case(case, answer_within=3.0):
    """case = dict(svc, n, pos, k).  Returns the observation record."""
    svc, n, pos, k = case["svc"], case["n"], case["pos"], case["k"]
    if pos == "reactor":            # back in the reactor loop: physically the same arrival as "between" (or "idle" without a request)
        pos = "idle" if svc == "none" else "between"
    gate = Gate(pos, k)
    acc_assocs, notes = [], []

    def on_requested(event):
        acc_assocs.append(event.assoc)

    def on_echo(event):
        gate.hit("handler", 0)
        return 0x0000

    def boom(i):
        # C26: the handler's generator raises at the arrival point, i.e. while the peer's A-RELEASE-RQ is pending
        if case.get("raises") and pos == "check" and k == i:
            raise RuntimeError("handler failure while the peer's release request is pending")

    def on_find(event):
        for i in range(1, n + 1):
            gate.hit("check", i)
            boom(i)
            ds = Dataset()
            ds.QueryRetrieveLevel, ds.PatientID = "PATIENT", str(i)
            yield 0xFF00, ds
        gate.hit("check", n + 1)
        boom(n + 1)

    def on_get(event):
        gate.hit("prelude", 0)
        yield n
        for i in range(1, n + 1):
            gate.hit("check", i)
            boom(i)
            ds = ct_ds(i)
            if case.get("enc") and i == n:
                # a value that cannot be encoded: the sub-operation fails before anything is sent
                ds.PerimeterValue = b"\x00\x01"
            yield 0xFF00, ds
        gate.hit("check", n + 1)

    dest_server = None
    dest_port = [0]

    def on_move(event):
        gate.hit("prelude", 0)
        yield "127.0.0.1", dest_port[0]
        gate.hit("prelude", 1)
        yield n
        for i in range(1, n + 1):
            gate.hit("check", i)
            yield 0xFF00, ct_ds(i)
        gate.hit("check", n + 1)

    def on_dimse_sent(event):
        # the final response of the operation is about to be encoded and sent
        m = event.message
        cs = m.command_set
        if "Status" in cs and cs.Status not in (0xFF00, 0xFF01) and type(m).__name__ in ("C_FIND_RSP", "C_GET_RSP", "C_MOVE_RSP"):
            gate.hit("final", n + 1)

    stores = [0]

    def dest_store(event):
        stores[0] += 1
        gate.hit("sub", stores[0])
        return 0x0000

    ae = AE("ACCEPTOR")
    # (tmo = FALSE: no DIMSE timeout is configured - a wait for a DIMSE response then ends only when something arrives)
    ae.acse_timeout, ae.dimse_timeout, ae.network_timeout = 2.0, (1.0 if case.get("tmo", True) else None), 4.0
    for uid in (VERIF_UID, FIND, GET, MOVE, CT):
        ae.add_supported_context(uid, scu_role=True, scp_role=True)
    ae.add_requested_context(CT)
    hs = [(evt.EVT_REQUESTED, on_requested), (evt.EVT_C_ECHO, on_echo), (evt.EVT_C_FIND, on_find), (evt.EVT_C_GET, on_get), (evt.EVT_C_MOVE, on_move),
          (evt.EVT_DIMSE_SENT, on_dimse_sent)]
    server = ae.start_server(("127.0.0.1", 0), block=False, evt_handlers=hs)
    port = server.socket.getsockname()[1]
    if svc == "move":
        dest = AE("DEST")
        dest.add_supported_context(CT)
        dest_server = dest.start_server(("127.0.0.1", 0), block=False, evt_handlers=[(evt.EVT_C_STORE, dest_store)])
        dest_port[0] = dest_server.socket.getsockname()[1]
    obs = {"svc": svc, "n": n, "pos": pos, "k": k, "tmo": bool(case.get("tmo", True)), "enc": bool(case.get("enc", False)), "q": int(case.get("q", 0)), "raises": bool(case.get("raises", False)), "final_status": -1, "rp": False, "t_rp": -1.0, "peer_saw": "", "reached": False, "queued": False}
    peer = None
    try:
        peer = RawPeer(port, [(VERIF_UID, ["1.2.840.10008.1.2"]), (FIND, ["1.2.840.10008.1.2"]), (GET, ["1.2.840.10008.1.2"]), (MOVE, ["1.2.840.10008.1.2"]),
                              (CT, ["1.2.840.10008.1.2.1" if case.get("enc") else "1.2.840.10008.1.2"])], roles=[(CT, True, True), (VERIF_UID, True, True), (FIND, True, True)])
        if peer.associate() != "assoc_ac":
            obs["peer_saw"] = "no-accept"
            return obs
        t_end = time.monotonic() + 1.0
        while not acc_assocs or not acc_assocs[-1].is_established:
            if time.monotonic() > t_end:
                break
            time.sleep(0.002)
        acc = acc_assocs[-1]
        released_sent = [False]
        t_sent = [0.0]

        def send_release():
            peer.release_rq()
            released_sent[0] = True
            t_sent[0] = time.monotonic()
            # wait until the provider has queued the indication (or answered at once)
            t1 = time.monotonic() + 1.0
            while time.monotonic() < t1:
                if isinstance(acc.dul.peek_next_pdu(), A_RELEASE) or acc.is_released or acc.dul.state_machine.current_state in ("Sta8", "Sta13", "Sta1"):
                    obs["queued"] = True
                    break
                time.sleep(0.001)
            time.sleep(0.01)
            gate.resume.set()

        ascu_thread = None
        if svc == "ascu" and case.get("q"):
            # this side's own multi-response request, its caller taking the responses slowly
            def slow_find():
                ident = Dataset()
                ident.QueryRetrieveLevel, ident.PatientID = "PATIENT", "*"
                got = []
                for st, _ in acc.send_c_find(ident, FIND):
                    got.append(int(st.Status) if st and "Status" in st else -1)
                    time.sleep(0.4)
                notes.append(("afind_statuses", str(got)))
            ascu_thread = threading.Thread(target=slow_find, daemon=True)
            ascu_thread.start()
        elif svc == "ascu":
            ascu_thread = threading.Thread(target=lambda: notes.append(("ascu_status", str(acc.send_c_echo()))), daemon=True)
            ascu_thread.start()
        elif svc != "none":
            peer.send_dimse(request(svc), {"echo": VERIF_UID, "find": FIND, "get": GET, "move": MOVE}[svc])
        if pos == "idle":
            obs["reached"] = True
            send_release()
        elif pos in ("handler", "prelude", "check", "final") or (pos == "sub" and svc == "move"):
            # the acceptor-side thread stops at the arrival point; sub-operations of C-GET before it are answered by the peer loop below
            pass
        substores = 0
        deadline = time.monotonic() + 8.0
        while time.monotonic() < deadline:
            if not released_sent[0] and gate.reached.is_set():
                obs["reached"] = True
                send_release()
            ev = peer.recv_event(0.02 if not released_sent[0] else 0.2)
            if ev[0] == "timeout":
                if released_sent[0] and time.monotonic() - t_sent[0] > answer_within:
                    obs["peer_saw"] = "nothing"
                    break
                continue
            if ev[0] == "dimse":
                p = ev[1]
                name = type(p).__name__
                if name == "C_STORE" and p.MessageIDBeingRespondedTo is None:
                    substores += 1
                    if pos == "sub" and svc == "get" and substores == k and not released_sent[0]:
                        obs["reached"] = True
                        send_release()          # instead of the C-STORE response
                        continue
                    rsp = C_STORE()
                    rsp.MessageIDBeingRespondedTo, rsp.AffectedSOPClassUID, rsp.AffectedSOPInstanceUID, rsp.Status = p.MessageID, p.AffectedSOPClassUID, p.AffectedSOPInstanceUID, 0x0000
                    try:
                        peer.send_dimse(rsp, cx_id=ev[2])
                    except OSError:
                        pass
                elif name == "C_FIND" and p.MessageIDBeingRespondedTo is None and svc == "ascu":
                    # two Pending responses and, right behind them, our own A-RELEASE-RQ
                    from io import BytesIO
                    from pynetdicom.dimse_primitives import C_FIND
                    from pynetdicom.dsutils import encode
                    for i in (1, 2):
                        ds = Dataset()
                        ds.QueryRetrieveLevel, ds.PatientID = "PATIENT", str(i)
                        rsp = C_FIND()
                        rsp.MessageIDBeingRespondedTo, rsp.AffectedSOPClassUID, rsp.Status = p.MessageID, p.AffectedSOPClassUID, 0xFF00
                        rsp.Identifier = BytesIO(encode(ds, True, True))
                        peer.send_dimse(rsp, cx_id=ev[2])
                    obs["reached"] = True
                    send_release()
                    continue
                elif name == "C_ECHO" and p.MessageIDBeingRespondedTo is None:
                    if svc == "ascu" and pos == "ascu_wait" and not released_sent[0]:
                        obs["reached"] = True
                        send_release()          # instead of the C-ECHO response
                        continue
                    rsp = C_ECHO()
                    rsp.MessageIDBeingRespondedTo, rsp.AffectedSOPClassUID, rsp.Status = p.MessageID, p.AffectedSOPClassUID, 0x0000
                    peer.send_dimse(rsp, cx_id=ev[2])
                    if svc == "ascu" and pos == "between" and not released_sent[0]:
                        time.sleep(0.05)
                        obs["reached"] = True
                        send_release()
                else:
                    st = getattr(p, "Status", None)
                    final = st is not None and st not in (0xFF00, 0xFF01)
                    if final and p.MessageIDBeingRespondedTo is not None:
                        obs["final_status"] = int(st)
                    if final and pos == "between" and not released_sent[0]:
                        obs["reached"] = True
                        send_release()
                continue
            if ev[0] == "release_rp":
                obs["rp"], obs["t_rp"], obs["peer_saw"] = True, round(time.monotonic() - t_sent[0], 3), "release_rp"
                break
            obs["peer_saw"] = ev[0]          # abort / closed / something else
            break
        peer.close()
        t_end = time.monotonic() + 6.0
        while time.monotonic() < t_end and (acc.is_alive() or acc.dul.is_alive()):
            time.sleep(0.005)
        obs.update(acc_released=bool(acc.is_released), acc_aborted=bool(acc.is_aborted), acc_alive=bool(acc.is_alive() or acc.dul.is_alive()),
                   acc_state=int(acc.dul.state_machine.current_state[3:]), sent=released_sent[0], notes=[list(x) for x in notes],
                   peer_log=[f"{d}:{kd}" for _, d, kd in peer.log][-14:])
        return obs
    finally:
        gate.resume.set()
        if peer is not None:
            peer.close()
        server.shutdown()
        if dest_server is not None:
            dest_server.shutdown()
