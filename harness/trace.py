"""C2S batching: many recorded traces -> one NDJSON file -> one TLC run -> one VERDICT per trace."""
from __future__ import annotations

import json
import os
import re

from common import MachineryError, jdefault
from tlc import must_ok, run_tlc


def validate_traces(ctx, module: str, traces: list[dict], cfg: str | None = None, name: str = "trace",
                    env: dict | None = None, workers=1, timeout=1800):
    """Write `traces` (each with an integer 'id') as NDJSON, run the trace spec, return {id: verdict}.

    The trace spec prints <<"VERDICT", id, x, ...>>; x = 0 means every property predicate held on
    the observed values; anything else identifies the failing step/clause.
    """
    path = os.path.join(ctx.work, f"{name}.ndjson")
    with open(path, "w") as f:
        for t in traces:
            f.write(json.dumps(t, default=jdefault) + "\n")
    e = {"TRACE": path}
    if env:
        e.update(env)
    r = must_ok(run_tlc(module, cfg or module + ".cfg", workdir=ctx.work, workers=workers, env=e, timeout=timeout))
    if r.violated:
        raise MachineryError(f"trace spec {module} is not total: {r.violated}\n{r.out[-1500:]}")
    verdicts = {}
    for m in re.finditer(r'<<"VERDICT", (\d+), ([^>]*)>>', r.out):
        rest = [x.strip().strip('"') for x in m.group(2).split(",")]
        verdicts[int(m.group(1))] = rest
    missing = [t["id"] for t in traces if t["id"] not in verdicts]
    if missing:
        raise MachineryError(f"{module}: {len(missing)} traces got no verdict (first ids {missing[:5]})\n{r.out[-1500:]}")
    ctx.add_tlc(r)
    return verdicts
