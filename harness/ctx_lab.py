"""C18 lab: a real Association with a chosen set of accepted presentation contexts, transport cut at dul.send_pdu
(scu_rig.ScuRig / WireTap: the real send path encodes and fragments, the peer's decoder reassembles).  Each MC_Ctx
operation is issued through the public send_* API; what was captured tells the context id used and the bytes of the
data set, which are decoded under every transfer syntax to find the one they are really encoded in."""
from __future__ import annotations

import warnings
from io import BytesIO

import pn  # noqa: F401
import pydicom
from pydicom.dataset import Dataset, FileMetaDataset
from pynetdicom.dsutils import decode

from scu_rig import ScuRig

TS = {"ImplLE": "1.2.840.10008.1.2", "ExplLE": "1.2.840.10008.1.2.1", "ExplBE": "1.2.840.10008.1.2.2", "Deflated": "1.2.840.10008.1.2.1.99", "JPEG": "1.2.840.10008.1.2.4.50"}
CT, MR = "1.2.840.10008.5.1.4.1.1.2", "1.2.840.10008.5.1.4.1.1.4"
UPS = {"UPSPush": "1.2.840.10008.5.1.4.34.6.1", "UPSPull": "1.2.840.10008.5.1.4.34.6.3", "UPSWatch": "1.2.840.10008.5.1.4.34.6.2"}
# the abstract syntaxes "A" / "B" of the specification per kind of operation
AB = {"store": {"A": CT, "B": MR}, "store_path": {"A": CT, "B": MR}, "find": {"A": "1.2.840.10008.5.1.4.1.2.1.1", "B": "1.2.840.10008.5.1.4.1.2.2.1"},
      "echo": {"A": "1.2.840.10008.1.1", "B": CT}, "event_report": {"A": "1.2.840.10008.5.1.1.16", "B": CT},
      "ups_create": {"A": CT, "B": MR}, "nget": {"A": CT, "B": "1.2.840.10008.5.1.1.16"}}


def ab_uid(kind, name):
    return UPS.get(name) or AB[kind][name]


def content():
    ds = Dataset()
    ds.PatientName, ds.PatientID, ds.Rows, ds.QueryRetrieveLevel = "Doe^John", "P1", 512, "PATIENT"
    return ds


def stored_dataset(ts_name):
    """A CT data set as it is after being read from a file written in transfer syntax ts_name."""
    ds = content()
    ds.SOPClassUID, ds.SOPInstanceUID = CT, "1.2.3.4"
    ds.file_meta = FileMetaDataset()
    ds.file_meta.TransferSyntaxUID = TS[ts_name]
    ds.file_meta.MediaStorageSOPClassUID, ds.file_meta.MediaStorageSOPInstanceUID = CT, "1.2.3.4"
    buf = BytesIO()
    with warnings.catch_warnings():
        warnings.simplefilter("ignore")
        enc = "ExplLE" if ts_name == "JPEG" else ts_name
        pydicom.dcmwrite(buf, ds, implicit_vr=(enc == "ImplLE"), little_endian=(enc != "ExplBE"), enforce_file_format=True)
    buf.seek(0)
    return pydicom.dcmread(buf)


def same(a, b):
    try:
        return all(str(a[k].value) == str(b[k].value) for k in ("PatientName", "PatientID", "Rows"))
    except Exception:  # noqa: BLE001
        return False


VRS = {b"AE", b"AS", b"AT", b"CS", b"DA", b"DS", b"DT", b"FL", b"FD", b"IS", b"LO", b"LT", b"OB", b"OD", b"OF", b"OL", b"OV", b"OW", b"PN", b"SH", b"SL", b"SQ", b"SS",
       b"ST", b"SV", b"TM", b"UC", b"UI", b"UL", b"UN", b"UR", b"US", b"UT", b"UV"}


def encoding_of(raw: bytes, original):
    """The transfer syntax the captured bytes are really encoded in, read off the bytes themselves (pydicom's reader
    corrects a wrong implicit/explicit assumption silently, so decoding alone cannot tell): deflated if the stream
    inflates, byte order from the first tag's group number, explicit VR if two VR letters follow the first tag.  The
    result is confirmed by decoding under it and comparing with the original data set."""
    import zlib
    name, body = None, raw
    try:
        body = zlib.decompress(raw, -zlib.MAX_WBITS)
        name = "Deflated"
    except zlib.error:
        body = raw
    if len(body) < 8:
        return []
    little = body[0] != 0 or body[1] == 0 and body[0] == 0 and False
    little = not (body[0] == 0 and body[1] != 0)           # groups used here are 0x0008..0x0020: low byte first when little endian
    explicit = body[4:6] in VRS
    if name is None:
        name = ("ExplLE" if explicit else "ImplLE") if little else ("ExplBE" if explicit else "ImplBE")
    elif not (little and explicit):
        name = "Deflated-but-not-explicit-LE"
    try:
        with warnings.catch_warnings():
            warnings.simplefilter("ignore")
            d = decode(BytesIO(raw), name == "ImplLE", name != "ExplBE", name == "Deflated")
        if d is None or not same(d, original):
            return [name + "?"]
    except Exception:  # noqa: BLE001
        return [name + "?"]
    return [name]


def run_case(case):
    acc, op = case["accepted"], case["op"]
    kind = op["kind"]
    cxs = [(c["id"], ab_uid(kind, c["ab"]), TS[c["ts"]], bool(c["scu"]), bool(c["scp"])) for c in acc]
    rig = ScuRig(cxs, mode="requestor", dimse_timeout=0.01)
    a = rig.assoc
    original, exc = None, ""
    try:
        with warnings.catch_warnings():
            warnings.simplefilter("ignore")
            if kind == "store":
                original = stored_dataset(op["ds"])
                a.send_c_store(original)
            elif kind == "store_path":
                import os
                import tempfile
                from pynetdicom import _config
                original = stored_dataset(op["ds"])
                if op.get("prev") == "same":
                    try:
                        a.send_c_store(stored_dataset(op["ds"]))      # an earlier send on the same association
                    except (ValueError, AttributeError, RuntimeError):
                        pass
                    del rig.tap.log[:]
                    a.is_established, a.is_aborted = True, False
                d = tempfile.mkdtemp(prefix="c18_")
                path = os.path.join(d, "x.dcm")
                original.save_as(path)
                old_cfg = _config.STORE_SEND_CHUNKED_DATASET
                _config.STORE_SEND_CHUNKED_DATASET = True
                try:
                    a.send_c_store(path)
                finally:
                    _config.STORE_SEND_CHUNKED_DATASET = old_cfg
                    import shutil
                    shutil.rmtree(d, ignore_errors=True)
            elif kind == "find":
                original = content()
                list(a.send_c_find(original, ab_uid(kind, op["sop"])))
            elif kind == "echo":
                a.send_c_echo()
            elif kind == "event_report":
                original = content()
                a.send_n_event_report(original, 1, ab_uid(kind, op["sop"]), "1.2.3")
            elif kind == "ups_create":
                original = content()
                a.send_n_create(original, UPS["UPSPush"], "1.2.3")
            elif kind == "nget":
                a.send_n_get([0x00100010], ab_uid(kind, op["sop"]), "1.2.3")
    except (ValueError, AttributeError, RuntimeError) as e:          # the documented refusals
        exc = f"{type(e).__name__}: {str(e)[:90]}"
    except Exception as e:  # noqa: BLE001
        exc = f"UNEXPECTED {type(e).__name__}: {str(e)[:90]}"
    log = [r for r in rig.tap.log]
    if not log:
        return {"sent": False, "id": 0, "enc": "none", "exc": exc}
    rec = log[0]
    prim = rec["primitive"]
    raw = None
    for attr in ("DataSet", "Identifier", "AttributeList", "EventInformation", "ModificationList", "ActionInformation"):
        v = getattr(prim, attr, None) if prim is not None else None
        if v is not None:
            raw = v.getvalue()
    enc = "none"
    if raw is not None and original is not None:
        cid_ts = next((c["ts"] for c in acc if c["id"] == rec["context_id"]), None)
        encs = encoding_of(raw, original)
        # (a JPEG context carries an explicit VR little endian data set; pixel data is not part of these data sets)
        names = encs + (["JPEG"] if "ExplLE" in encs else [])
        enc = cid_ts if cid_ts in names else (names[0] if names else "undecodable")
    return {"sent": True, "id": int(rec["context_id"]), "enc": enc, "exc": exc, "delivered": bool(rec["delivered"])}
