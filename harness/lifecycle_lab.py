"""A real ApplicationEntity under the operation histories of spec/Lifecycle.tla: servers started and shut down, peers
connecting, the AE associating as requestor, releases, echoes, AE.shutdown().  After every operation: which of its
servers accept a TCP connection, what the PEER side of every association slot shows, how many established associations
AE.active_associations holds."""
from __future__ import annotations

import socket
import time

import pn  # noqa: F401
from pynetdicom import AE

VERIFICATION = "1.2.840.10008.1.1"


def _ae(title):
    ae = AE(title)
    ae.add_supported_context(VERIFICATION)
    ae.add_requested_context(VERIFICATION)
    ae.acse_timeout = ae.dimse_timeout = 20
    ae.network_timeout = 120          # no idle expiry within a history
    ae.connection_timeout = 2
    ae.maximum_associations = 1000    # the probes below leave threads waiting for a request for acse_timeout: never near the limit
    return ae


class LifecycleLab:
    SERVERS, ACC, REQ = (1, 2), (1, 2), (3,)

    def __init__(self):
        self.ae = _ae("UNDERTEST")
        self.peer = _ae("PEER")
        self.peer_server = self.peer.start_server(("127.0.0.1", 0), block=False)
        self.peer_port = self.peer_server.socket.getsockname()[1]
        self.reset_state()

    def reset_state(self):
        self.srv, self.port = {}, {}
        self.assoc = {}        # slot -> the PEER side's view: requestor association of the peer (ACC) / our own association (REQ)
        self.refused = set()
        self.peer_acc = {}     # REQ slot -> peer's acceptor-side association

    # ---- operations ----
    def apply(self, op):
        k, x, sv = op["k"], op["x"], op["sv"]
        echo = "none"
        if k == "start":
            self.srv[sv] = self.ae.start_server(("127.0.0.1", 0), block=False)
            self.port[sv] = self.srv[sv].socket.getsockname()[1]
        elif k == "stop":
            self.srv.pop(sv).shutdown()
        elif k == "connect":
            self.refused.discard(x)
            a = self.peer.associate("127.0.0.1", self.port[sv])
            self.assoc[x] = a
            if not a.is_established:
                self.refused.add(x)
        elif k == "out":
            before = set(self.peer_server.active_associations)
            a = self.ae.associate("127.0.0.1", self.peer_port)
            if not a.is_established:
                raise RuntimeError("lab: the peer did not accept")
            self.assoc[x] = a
            t0 = time.time()
            new = []
            while not new and time.time() - t0 < 3:
                new = [t for t in self.peer_server.active_associations if t not in before]
                time.sleep(0.002)
            self.peer_acc[x] = new[0]
        elif k == "release":
            self.assoc[x].release()
        elif k == "echo":
            try:
                st = self.assoc[x].send_c_echo()
                echo = "ok" if "Status" in st and st.Status == 0 else "fail"
            except RuntimeError:
                echo = "fail"
        elif k == "aeshutdown":
            self.ae.shutdown()
            self.srv.clear()
        return self.observe(echo)

    def _slot(self, x):
        a = self.assoc.get(x)
        if a is None:
            return "none"
        if x in self.refused:
            return "refused"
        # the side that is NOT the AE under test: for accepted associations the peer's requestor, for requested ones the peer's acceptor
        v = a if x in self.ACC else self.peer_acc[x]
        if x in self.REQ and a.is_released:
            return "released"
        return "released" if v.is_released else "aborted" if v.is_aborted else "est" if v.is_established else "ending"

    def _listening(self, sv):
        if sv not in self.port:
            return False
        s = socket.socket()
        s.settimeout(1)
        try:
            ok = s.connect_ex(("127.0.0.1", self.port[sv])) == 0
        finally:
            s.close()
        return ok

    def observe(self, echo):
        # let the effects of the operation arrive at the other side (bounded): stable for two readings 30 ms apart
        last, t0 = None, time.time()
        while time.time() - t0 < 3:
            cur = ([self._slot(x) for x in (1, 2, 3)], sum(1 for t in self.ae.active_associations if t.is_established))
            if cur == last and "ending" not in cur[0]:
                break
            last = cur
            time.sleep(0.03)
        up = [self._listening(sv) for sv in self.SERVERS]
        # (the probes themselves are connections; the threads they start never become established and are not counted)
        return {"up": up, "as": cur[0], "active": sum(1 for t in self.ae.active_associations if t.is_established), "echo": echo}

    def reset(self):
        for a in list(self.assoc.values()):
            if a.is_established:
                a.abort()
        self.ae.shutdown()
        self.reset_state()
        t0 = time.time()
        while time.time() - t0 < 3 and (self.ae.active_associations or self.peer_server.active_associations):
            time.sleep(0.01)

    def close(self):
        self.reset()
        self.peer.shutdown()
