"""Run one S2C replay of an Assoc.tla behaviour in a separate process (a replay that spins is killed by the caller).
usage: replay_cli.py <behaviour.json> <node> <role>   -> prints one JSON line with the report"""
import json
import os
import sys

HERE = os.path.dirname(os.path.abspath(__file__))
sys.path.insert(0, HERE)
sys.path.insert(0, os.path.join(HERE, "drivers"))
os.environ["PYNETDICOM_VERIF"] = "1"


def main():
    from replay_assoc import replay

    beh = [(l, st) for l, st in json.load(open(sys.argv[1]))]
    rep = replay(beh, node=sys.argv[2], role=sys.argv[3])
    out = {"crash": list(rep.crash) if rep.crash else None, "crash_predicted": bool(rep.crash_predicted), "diverged": bool(rep.diverged),
           "diverged_at": (rep.diverged or {}).get("action"), "steps": rep.steps, "fired": (rep.final or {}).get("fired", []),
           "final": {k: v for k, v in (rep.final or {}).items() if isinstance(v, (int, str, bool, list))}}
    print("REPORT " + json.dumps(out, default=str))
    sys.stdout.flush()
    os._exit(0)


if __name__ == "__main__":
    main()
