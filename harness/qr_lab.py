"""C29 lab: the real qrscp database code (db.add_instance / db.search) and its C-FIND handler on the databases and
identifiers of spec/MC_QR.tla.  Identifiers go through a real encode/decode so that they look as they do off the wire;
pydicom is configured as qrscp.py configures it (empty text values decode to None)."""
from __future__ import annotations

import logging
import os
import shutil
import tempfile
import types
from datetime import datetime
from io import BytesIO

import pn  # noqa: F401
import pydicom
from pydicom.dataset import Dataset, FileMetaDataset

pydicom.config.use_none_as_empty_text_VR_value = True     # as pynetdicom/apps/qrscp/qrscp.py does

from pynetdicom.apps.qrscp import db, handlers  # noqa: E402
from pynetdicom.dsutils import decode, encode  # noqa: E402
from pynetdicom.sop_class import (PatientRootQueryRetrieveInformationModelFind, PatientRootQueryRetrieveInformationModelGet,  # noqa: E402
                                  StudyRootQueryRetrieveInformationModelFind, StudyRootQueryRetrieveInformationModelGet)
from sqlalchemy.orm import sessionmaker  # noqa: E402

MODEL = {("patient_root", "find"): PatientRootQueryRetrieveInformationModelFind, ("patient_root", "get"): PatientRootQueryRetrieveInformationModelGet,
         ("study_root", "find"): StudyRootQueryRetrieveInformationModelFind, ("study_root", "get"): StudyRootQueryRetrieveInformationModelGet}
UNIQUE = {"PATIENT": "PatientID", "STUDY": "StudyInstanceUID", "SERIES": "SeriesInstanceUID", "IMAGE": "SOPInstanceUID"}
ATTR = {"PatientID": "patient_id", "StudyInstanceUID": "study_instance_uid", "SeriesInstanceUID": "series_instance_uid", "SOPInstanceUID": "sop_instance_uid"}


def text(v):
    """A specification value (sequence of characters, or a number) as the string stored / sent."""
    return "".join(v) if isinstance(v, (list, tuple)) else str(v)


class Lab:
    def __init__(self, dbs):
        """dbs: name -> list of instance records (dict key -> specification value)."""
        self.dir = tempfile.mkdtemp(prefix="c29_")
        self.paths, self.sessions = {}, {}
        for name, insts in dbs.items():
            path = f"sqlite:///{self.dir}/{name}.sqlite"
            engine = db.create(path)
            s = sessionmaker(bind=engine)()
            for k, r in enumerate(insts):
                ds = Dataset()
                for key, v in r.items():
                    if v in (0, "0") or (isinstance(v, (list, tuple)) and len(v) == 0):
                        continue                      # the instance has no value for this attribute
                    setattr(ds, key, text(v))
                ds.SOPClassUID = "1.2.840.10008.5.1.4.1.1.2"
                ds.file_meta = FileMetaDataset()
                ds.file_meta.TransferSyntaxUID = "1.2.840.10008.1.2"
                db.add_instance(ds, s, f"{name}_{k}.dcm")
            self.paths[name], self.sessions[name] = path, s
        self.logger = logging.getLogger("c29")
        self.logger.addHandler(logging.NullHandler())
        self.logger.propagate = False

    def close(self):
        for s in self.sessions.values():
            s.close()
        shutil.rmtree(self.dir, ignore_errors=True)

    @staticmethod
    def identifier(level, keys):
        ds = Dataset()
        ds.QueryRetrieveLevel = level
        for k, m in keys.items():
            t = m["t"]
            if t == "absent":
                continue
            if t == "universal":
                setattr(ds, k, None)
            elif t in ("single", "wild"):
                setattr(ds, k, text(m["v"]))
            elif t == "list":
                setattr(ds, k, sorted(text(x) for x in m["v"]))
            elif t == "range":
                setattr(ds, k, f"{m['lo'] or ''}-{m['hi'] or ''}")
        return decode(BytesIO(encode(ds, True, True)), True, True)       # as received

    def run(self, case):
        model = MODEL[(case["model"], case["op"])]
        level = case["level"]
        ident = self.identifier(level, case["keys"])
        sess = self.sessions[case["db"]]
        try:
            rows = db.search(model, self.identifier(level, case["keys"]), sess)
            attr = "sop_instance_uid" if case["op"] == "get" else ATTR[UNIQUE.get(level, "STUDY")] if level in UNIQUE else "study_instance_uid"
            out = {"status": "ok", "sel": sorted({str(getattr(r, attr)) for r in rows}), "nresp": len(rows)}
        except db.InvalidIdentifier:
            sess.rollback()
            out = {"status": "invalid", "sel": [], "nresp": 0}
        except Exception as e:  # noqa: BLE001
            sess.rollback()
            out = {"status": "error", "sel": [], "nresp": 0, "exc": f"{type(e).__name__}: {str(e)[:80]}"}
        if case["op"] == "get":
            return out
        # C-FIND: the real handler, fed with an event that carries what it reads; its pending responses are counted
        event = types.SimpleNamespace(request=types.SimpleNamespace(AffectedSOPClassUID=model), identifier=ident, is_cancelled=False, timestamp=datetime.now(),
                                      assoc=types.SimpleNamespace(requestor=types.SimpleNamespace(address="127.0.0.1", port=0), ae=types.SimpleNamespace(ae_title="QRSCP")))
        npend, status = 0, "ok"
        for st, ds in handlers.handle_find(event, self.paths[case["db"]], {}, self.logger):
            if st == 0xFF00:
                npend += 1
            elif st == 0xA900:
                status = "invalid"
            elif st != 0x0000:
                status = "error"
        if status != out["status"]:
            out["handler_status"] = status
            out["status"] = status if out["status"] == "ok" else out["status"]
        out["nresp"] = npend
        return out
