"""Controlled execution of real pynetdicom threads (S2C step mode, DESIGN.md Appendix A).

Every managed thread (the DUL provider thread, the association thread, user API threads) parks at
*boundary gates*: the points where it reads shared state (queue get/peek, event wait, spin-loop
sleep, timer query) plus the two hook points in the DUL reactor.  The orchestrator grants one
thread at a time one step ("run until you park again or finish"), which is exactly one action of
spec/Assoc.tla.  Gates are installed from the harness side by substituting the queue / event /
time objects of one Association instance; only the DUL loop needs hooks in /repo (pynetdicom/_verif.py).
"""
from __future__ import annotations

import queue
import sys
import threading
import time as _time
import traceback

from common import MachineryError


class ThreadCtl:
    def __init__(self, role):
        self.role = role
        self.parked = False
        self.gate = None
        self.info = None
        self.go = False
        self.decision = None
        self.arrivals = 0
        self.thread: threading.Thread | None = None
        self.free = False  # free-running (not parked at gates)


class Controller:
    def __init__(self):
        self.cv = threading.Condition()
        self.ctl: dict[str, ThreadCtl] = {}
        self.by_thread: dict[int, str] = {}
        self.log: list = []
        self.boundary = lambda role, name, info: True
        self.freerun = False

    # -- registration -----------------------------------------------------------
    def register(self, role: str, thread: threading.Thread | None = None) -> ThreadCtl:
        tc = self.ctl.get(role) or ThreadCtl(role)
        tc.thread = thread
        self.ctl[role] = tc
        return tc

    def bind_current(self, role: str) -> None:
        self.by_thread[threading.get_ident()] = role
        self.ctl[role].thread = threading.current_thread()

    def role(self) -> str | None:
        r = self.by_thread.get(threading.get_ident())
        if r is not None:
            return r
        cur = threading.current_thread()
        for role, tc in self.ctl.items():
            if tc.thread is cur:
                self.by_thread[threading.get_ident()] = role
                return role
        return None

    # -- called by managed threads ----------------------------------------------
    def gate(self, name: str, info=None):
        role = self.role()
        if role is None or self.freerun:
            return None
        if not self.boundary(role, name, info):
            return None
        tc = self.ctl[role]
        with self.cv:
            tc.parked = True
            tc.gate = name
            tc.info = info
            tc.arrivals += 1
            self.cv.notify_all()
            while not tc.go:
                self.cv.wait()
            tc.go = False
            tc.parked = False
            d, tc.decision = tc.decision, None
            return d

    # -- called by the orchestrator ----------------------------------------------
    def wait_parked(self, role: str, timeout: float = 5.0, since: int | None = None) -> str:
        """Wait until `role` parks (again) or its thread ends. Returns the gate name or 'exit'."""
        tc = self.ctl[role]
        end = _time.time() + timeout
        with self.cv:
            while True:
                if tc.parked and (since is None or tc.arrivals > since):
                    return tc.gate
                th = tc.thread
                if th is not None and not th.is_alive() and th.ident is not None:
                    return "exit"
                left = end - _time.time()
                if left <= 0:
                    break
                self.cv.wait(min(left, 0.01))
        raise MachineryError(f"thread {role} did not park within {timeout}s\n" + self.stack(role))

    def step(self, role: str, decision=None, timeout: float = 5.0) -> str:
        tc = self.ctl[role]
        with self.cv:
            if not tc.parked:
                raise MachineryError(f"step({role}): thread is not parked")
            since = tc.arrivals
            tc.decision = decision
            tc.go = True
            self.cv.notify_all()
        return self.wait_parked(role, timeout, since)

    def where(self, role: str) -> str:
        tc = self.ctl.get(role)
        if tc is None or tc.thread is None or tc.thread.ident is None:
            return "none"
        if tc.parked:
            return tc.gate
        if tc.thread.ident is not None and not tc.thread.is_alive():
            return "exit"
        return "running"

    def stack(self, role: str) -> str:
        tc = self.ctl.get(role)
        if tc is None or tc.thread is None or tc.thread.ident is None:
            return "(no thread)"
        fr = sys._current_frames().get(tc.thread.ident)
        return "".join(traceback.format_stack(fr)) if fr else "(no frame)"

    def release_all(self) -> None:
        """Let every managed thread run free (used for cleanup)."""
        self.freerun = True
        with self.cv:
            for tc in self.ctl.values():
                tc.go = True
            self.cv.notify_all()


def _caller(depth: int = 2) -> str:
    f = sys._getframe(depth)
    return f.f_code.co_name


def _callers(depth: int = 2, n: int = 4) -> list[str]:
    out = []
    f = sys._getframe(depth)
    while f is not None and len(out) < n:
        out.append(f.f_code.co_name)
        f = f.f_back
    return out


class GatedQueue(queue.Queue):
    """queue.Queue whose consumer-side reads are gates."""

    def __init__(self, ctl: Controller, name: str):
        self._ctl = None
        super().__init__()
        self._ctl = ctl
        self._name = name

    def get(self, block=True, timeout=None):
        ctl = self._ctl
        d = ctl.gate(self._name + (".getb" if block else ".get"), {"callers": _callers(2), "block": block})
        if d == "timeout":
            raise queue.Empty
        if block and ctl.role() is not None and not ctl.freerun:
            # scheduled: the spec said an item is available
            try:
                return super().get(False)
            except queue.Empty:
                raise MachineryError(f"{self._name}: spec says item available but queue is empty")
        if block and ctl.freerun:
            return super().get(True, min(timeout or 0.2, 0.2))
        return super().get(block, timeout)

    # `dul.peek_next_pdu` reads `.queue[0]`
    @property
    def queue(self):
        ctl = self.__dict__.get("_ctl")
        if ctl is not None and not self.__dict__.get("_inq"):
            fn = _caller(2)
            if fn in ("peek_next_pdu", "peek_msg"):
                ctl.gate(self._name + ".peek", {"callers": _callers(2), "frame": sys._getframe(2)})
        return self.__dict__["_q"]

    @queue.setter
    def queue(self, v):
        self.__dict__["_q"] = v

    def items(self):
        return list(self.__dict__["_q"])


class GatedEvent:
    """threading.Event whose wait() is a gate."""

    def __init__(self, ctl: Controller, name: str, initially: bool = False):
        self._ev = threading.Event()
        if initially:
            self._ev.set()
        self._ctl = ctl
        self._name = name

    def is_set(self):
        return self._ev.is_set()

    def set(self):
        self._ev.set()

    def clear(self):
        self._ev.clear()

    def wait(self, timeout=None):
        self._ctl.gate(self._name + ".wait", {"callers": _callers(2)})
        if self._ctl.role() is not None and not self._ctl.freerun:
            if not self._ev.is_set():
                raise MachineryError(f"{self._name}.wait granted but event not set")
            return True
        return self._ev.wait(0.2 if self._ctl.freerun else timeout)


class GatedTime:
    """Stand-in for the `time` module inside pynetdicom.association / pynetdicom.dul."""

    def __init__(self, ctl: Controller, real, clock=None):
        self._ctl = ctl
        self._real = real
        self._clock = clock

    # clock readings come from the virtual clock when one is installed
    def time(self):
        return self._clock.time() if self._clock is not None else self._real.time()

    def monotonic(self):
        return self._clock.monotonic() if self._clock is not None else self._real.monotonic()

    def perf_counter(self):
        return self._clock.perf_counter() if self._clock is not None else self._real.perf_counter()

    def sleep(self, s):
        fn = _caller(2)
        if self._ctl.role() is None:
            self._real.sleep(s)
            return
        self._ctl.gate("sleep@" + fn, None)
        if self._ctl.freerun:
            self._real.sleep(min(s, 0.001))

    def __getattr__(self, name):
        return getattr(self._real, name)


def _make_gated_timer():
    from pynetdicom.timer import Timer

    class GatedTimer(Timer):
        """Timer whose `expired` query is a gate; the orchestrator supplies the answer."""

        def __init__(self, ctl, name, timeout):
            super().__init__(timeout)
            self._ctl = ctl
            self._name = name

        @property
        def expired(self):
            d = self._ctl.gate(self._name + ".expired", {"callers": _callers(2)})
            if d is not None:
                return bool(d)
            if self._ctl.role() is not None and not self._ctl.freerun:
                return False
            return Timer.expired.fget(self)

    return GatedTimer


class _Lazy:
    def __call__(self, *a, **k):
        return _make_gated_timer()(*a, **k)


GatedTimer = _Lazy()
