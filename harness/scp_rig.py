"""A real acceptor-side Association driven at the DIMSE boundary (SCP side).

The driver hands request primitives to the real Association._serve_request (the reactor's own entry
point), handlers are bound through the public bind() API, responses are captured at dimse.send_msg,
and sub-operation replies of a C-GET peer are injected into dimse.msg_queue.
"""
from __future__ import annotations

from io import BytesIO

import pn  # noqa: F401
from pydicom.dataset import Dataset
from pynetdicom import AE, build_context, evt
from pynetdicom.dsutils import encode
from pynetdicom.dimse_primitives import C_CANCEL, C_ECHO, C_FIND, C_GET, C_MOVE, C_STORE

from scu_rig import WireTap, snapshot, CT_STORAGE, PATIENT_ROOT_FIND, PATIENT_ROOT_GET, PATIENT_ROOT_MOVE, REPOSITORY_QUERY  # noqa: F401


class ScpRig:
    def __init__(self, contexts, handlers=(), dimse_timeout=0.05):
        """contexts: list of (context_id, abstract, transfer syntax, as_scu, as_scp)"""
        self.ae = AE()
        a = pn.new_assoc("acceptor", self.ae)
        self.assoc = a
        acc = {}
        for cid, ab, ts, scu, scp in contexts:
            cx = build_context(ab, ts)
            cx.context_id = cid
            cx.result = 0
            cx._as_scu = scu
            cx._as_scp = scp
            acc[cid] = cx
        a._accepted_cx = acc
        a.is_established = True
        a._is_paused = True
        a.dimse_timeout = dimse_timeout
        a.acceptor.maximum_length = 16382
        a.requestor.maximum_length = 16382
        self.sent = []
        self.aborts = 0
        self.released = 0
        self.on_send = None
        self.tap = WireTap(a)
        a.dimse.send_msg = self._send_msg
        for f in ("abort", "_abort_blocking", "_abort_nonblocking"):
            setattr(a, f, self._abort)
        a.release = self._release
        for ev, h in handlers:
            a.bind(ev, h)

    def _send_msg(self, primitive, context_id):
        rec = self.tap.send(primitive, context_id)
        got = rec["primitive"] if rec["primitive"] is not None else primitive
        self.sent.append((snapshot(got), context_id))
        if self.on_send:
            self.on_send(got, context_id)

    def _abort(self, *a, **k):
        self.aborts += 1
        self.assoc.is_aborted = True
        self.assoc.is_established = False

    def _release(self, *a, **k):
        self.released += 1
        self.assoc.is_released = True
        self.assoc.is_established = False

    def serve(self, primitive, context_id=1):
        self.assoc._serve_request(primitive, context_id)

    def inject(self, primitive, context_id=1):
        self.assoc.dimse.msg_queue.put((context_id, primitive))


def ident(level="PATIENT", **kw) -> bytes:
    ds = Dataset()
    ds.QueryRetrieveLevel = level
    ds.PatientID = kw.get("pid", "*")
    return encode(ds, True, True)


def find_rq(msg_id=7, sop_class=PATIENT_ROOT_FIND, identifier=None):
    r = C_FIND()
    r.MessageID = msg_id
    r.AffectedSOPClassUID = sop_class
    r.Priority = 2
    r.Identifier = BytesIO(identifier if identifier is not None else ident())
    return r


def get_rq(msg_id=7, sop_class=PATIENT_ROOT_GET, identifier=None):
    r = C_GET()
    r.MessageID = msg_id
    r.AffectedSOPClassUID = sop_class
    r.Priority = 2
    r.Identifier = BytesIO(identifier if identifier is not None else ident())
    return r


def move_rq(msg_id=7, sop_class=PATIENT_ROOT_MOVE, identifier=None, dest="DEST"):
    r = C_MOVE()
    r.MessageID = msg_id
    r.AffectedSOPClassUID = sop_class
    r.Priority = 2
    r.MoveDestination = dest
    r.Identifier = BytesIO(identifier if identifier is not None else ident())
    return r


def echo_rq(msg_id=7):
    r = C_ECHO()
    r.MessageID = msg_id
    r.AffectedSOPClassUID = "1.2.840.10008.1.1"
    return r


def store_rsp(status=0, msg_id=1, sop_class=CT_STORAGE, instance="1.2.3"):
    r = C_STORE()
    r.MessageIDBeingRespondedTo = msg_id
    r.AffectedSOPClassUID = sop_class
    r.AffectedSOPInstanceUID = instance
    r.Status = status
    return r


def ct_dataset(instance="1.2.3.4"):
    from pydicom.dataset import FileMetaDataset

    ds = Dataset()
    ds.SOPClassUID = CT_STORAGE
    ds.SOPInstanceUID = instance
    ds.PatientID = "P1"
    ds.PatientName = "X^Y"
    ds.file_meta = FileMetaDataset()
    ds.file_meta.TransferSyntaxUID = "1.2.840.10008.1.2"
    return ds
