"""C02 (P-DATA-TF length conformance, spec/PdataLimit.tla): a message whose largest PDU has a chosen length is sent to a
real pynetdicom node - acceptor (raw requestor peer sends a C-STORE-RQ with a large data set) or requestor (raw acceptor
peer answers a C-FIND with a large pending identifier) - with chosen Maximum Length announcements on both sides."""
from __future__ import annotations

import socket
import struct
import threading
import time
from io import BytesIO

import pn  # noqa: F401
from pydicom.dataset import Dataset
from pynetdicom import AE, build_context, evt
from pynetdicom.dimse_primitives import C_FIND, C_STORE
from pynetdicom.dsutils import encode
from pynetdicom.pdu import A_ASSOCIATE_AC, A_RELEASE_RP

from raw_peer import RawPeer

CT, FIND = "1.2.840.10008.5.1.4.1.1.2", "1.2.840.10008.5.1.4.1.2.1.1"


def big_dataset(nbytes):
    ds = Dataset()
    ds.SOPClassUID, ds.SOPInstanceUID, ds.PatientID, ds.QueryRetrieveLevel = CT, "1.2.3", "P1", "PATIENT"
    ds.add_new(0x00204000, "LT", "x" * max(16, nbytes))          # Image Comments: bulk
    return ds


def max_pdu_len(pdus):
    return max(struct.unpack(">I", b[2:6])[0] for b in pdus)


def acceptor_case(own, peer_max, length):
    ae = AE("ACCEPTOR")
    ae.maximum_pdu_size = own
    ae.acse_timeout = ae.dimse_timeout = ae.network_timeout = 3
    ae.add_supported_context(CT)
    got = []
    srv = ae.start_server(("127.0.0.1", 0), block=False, evt_handlers=[(evt.EVT_C_STORE, lambda e: (got.append(len(e.dataset[0x00204000].value)), 0)[1])])
    try:
        p = RawPeer(srv.socket.getsockname()[1], [(CT, ["1.2.840.10008.1.2"])])
        from raw_peer import assoc_rq_bytes
        p.send_bytes(assoc_rq_bytes(p.port, p.proposals, max_len=peer_max), "assoc_rq")
        if p.read_answer(3.0) != "assoc_ac":
            return {"accepted": False, "maxlen": 0, "note": "not associated"}
        ds = big_dataset(3 * length)
        rq = C_STORE()
        rq.MessageID, rq.AffectedSOPClassUID, rq.AffectedSOPInstanceUID, rq.Priority = 1, CT, "1.2.3", 2
        rq.DataSet = BytesIO(encode(ds, True, True))
        pdus = p.dimse_bytes(rq, cx_id=1, max_pdu=length)
        for b in pdus:
            p.send_bytes(b, "pdata")
        ev = p.recv_event(3.0)
        ok = ev[0] == "dimse" and getattr(ev[1], "Status", None) == 0 and bool(got)
        if ok:
            p.release_rq()
            p.recv_pdu(1.0)
        p.close()
        return {"accepted": bool(ok), "maxlen": max_pdu_len(pdus), "note": ev[0]}
    finally:
        srv.shutdown()


def requestor_case(own, peer_max, length):
    srv = socket.socket()
    srv.bind(("127.0.0.1", 0))
    srv.listen(1)
    port = srv.getsockname()[1]
    sent = {}

    def peer():
        from neg_lab import recv_pdu
        try:
            c, _ = srv.accept()
            c.setsockopt(socket.IPPROTO_TCP, socket.TCP_NODELAY, 1)
            recv_pdu(c, 3.0)
            cx = build_context(FIND)
            cx.context_id = 1
            ac = pn.assoc_ac_primitive(pn.assoc_rq_primitive([cx], max_pdu=peer_max))
            c.sendall(A_ASSOCIATE_AC(ac).encode())
            recv_pdu(c, 3.0)                                    # the C-FIND-RQ (fits one PDU)
            ident = big_dataset(3 * length)
            rsp = C_FIND()
            rsp.MessageIDBeingRespondedTo, rsp.AffectedSOPClassUID, rsp.Status = 1, FIND, 0xFF00
            rsp.Identifier = BytesIO(encode(ident, True, True))
            pdus = RawPeer.dimse_bytes(None, rsp, cx_id=1, max_pdu=length)
            sent["maxlen"] = max_pdu_len(pdus)
            for b in pdus:
                c.sendall(b)
            fin = C_FIND()
            fin.MessageIDBeingRespondedTo, fin.AffectedSOPClassUID, fin.Status = 1, FIND, 0x0000
            for b in RawPeer.dimse_bytes(None, fin, cx_id=1):
                c.sendall(b)
            t0 = time.time()
            while time.time() - t0 < 3:
                b = recv_pdu(c, 0.3)
                if b == b"":
                    break
                if b and b[0] == 5:
                    c.sendall(A_RELEASE_RP().encode())
                    break
                if b and b[0] == 7:
                    sent["aborted"] = True
                    break
            c.close()
        except OSError:
            pass

    t = threading.Thread(target=peer, daemon=True)
    t.start()
    try:
        ae = AE("REQUESTOR")
        ae.maximum_pdu_size = own
        ae.acse_timeout = ae.dimse_timeout = ae.network_timeout = 3
        ae.add_requested_context(FIND)
        assoc = ae.associate("127.0.0.1", port)
        if not assoc.is_established:
            return {"accepted": False, "maxlen": 0, "note": "not associated"}
        q = Dataset()
        q.QueryRetrieveLevel, q.PatientID = "PATIENT", "*"
        rs = [(int(s.Status) if "Status" in s else -1, (len(i[0x00204000].value) if i is not None and 0x00204000 in i else 0)) for s, i in assoc.send_c_find(q, FIND)]
        ok = len(rs) == 2 and rs[0][0] == 0xFF00 and rs[0][1] >= 16 and rs[1][0] == 0 and not assoc.is_aborted
        if assoc.is_established:
            assoc.release()
        t.join(3)
        return {"accepted": bool(ok), "maxlen": sent.get("maxlen", 0), "note": str(rs)[:80]}
    finally:
        srv.close()


def run_case(c):
    o = (acceptor_case if c["role"] == "acceptor" else requestor_case)(int(c["own"]), int(c["peer"]), int(c["len"]))
    o.update(role=c["role"], own=int(c["own"]), peer=int(c["peer"]), len=int(c["len"]))
    return o
